//go:build c07

package main

// C07 — the compiler accepts exactly the bundles satisfying the data-reference
// rules, and rendering an accepted template never looks up a name that nothing
// binds.
//
//  (a) bundles from the program generator must be accepted by Bundle.Compile(),
//      by the Coq model of Registry.Add + CheckDataRefs on the parsed files, and
//      be well-formed by the Spec (Spec/Wf.v); rendering every template of an
//      accepted bundle with all its declared params supplied must not miss a
//      scope lookup (hook VerifUnboundObserver) when every call passes every
//      callee param (predicate calls_total, evaluated by the model);
//  (b) every single-rule violation is injected at every applicable site of the
//      PARSED tree of the bundle; the mutated tree is printed back to source by
//      a printer that lives here, and must be rejected by the real compiler and
//      by the model, and be ill-formed by the Spec;
//  (c) oracle: Spec (extracted wf_bundle) vs real compiler on every bundle;
//      correspondence: model checker vs real compiler.  Error texts are never
//      compared.

import (
	"encoding/json"
	"fmt"
	"os"
	"sort"
	"strconv"
	"strings"

	"github.com/robfig/soy"
	"github.com/robfig/soy/ast"
	"github.com/robfig/soy/data"
	"github.com/robfig/soy/parse"
	"github.com/robfig/soy/soyhtml"
	"soyverif/internal/hx"
)

func init() { props["C07"] = runC07 }

// ---------------------------------------------------------------------
// source printer for (possibly mutated) parse trees

func c07Raw(t []byte) string {
	if len(t) == 0 {
		return "{nil}"
	}
	// Raw text of a tree can come from a {literal} block (" // x", "/* x */", braces): printed bare, "//" after a
	// space or "/*" would open a comment that swallows the rest of the line / the text up to "*/" (and with it lets,
	// uses, {for} tags: the reprinted bundle would be a DIFFERENT bundle).  Braces are printed as {lb}/{rb}, and the
	// two bytes of a comment opener are separated by {nil}, after which the lexer's previous character is '}'.
	var sb strings.Builder
	for i, c := range t {
		switch c {
		case '{':
			sb.WriteString("{lb}")
		case '}':
			sb.WriteString("{rb}")
		case '/':
			sb.WriteByte(c)
			if i+1 < len(t) && (t[i+1] == '/' || t[i+1] == '*') {
				sb.WriteString("{nil}")
			}
		default:
			sb.WriteByte(c)
		}
	}
	return sb.String()
}

func c07Exprs(ns []ast.Node) string {
	var parts []string
	for _, n := range ns {
		parts = append(parts, c07Expr(n))
	}
	return strings.Join(parts, ", ")
}

func c07Expr(n ast.Node) string {
	if _, bn := binName(n); bn != nil {
		return "(" + c07Expr(bn.Arg1) + " " + bn.Name + " " + c07Expr(bn.Arg2) + ")"
	}
	switch n := n.(type) {
	case *ast.NullNode:
		return "null"
	case *ast.BoolNode:
		if n.True {
			return "true"
		}
		return "false"
	case *ast.IntNode:
		if n.Value < 0 {
			return "(" + strconv.FormatInt(n.Value, 10) + ")"
		}
		return strconv.FormatInt(n.Value, 10)
	case *ast.FloatNode:
		s := strconv.FormatFloat(n.Value, 'f', -1, 64)
		if !strings.Contains(s, ".") {
			s += ".0"
		}
		if n.Value < 0 {
			return "(" + s + ")"
		}
		return s
	case *ast.StringNode:
		return soyStr(n.Value)
	case *ast.GlobalNode:
		return n.Name
	case *ast.FunctionNode:
		return n.Name + "(" + c07Exprs(n.Args) + ")"
	case *ast.ListLiteralNode:
		return "[" + c07Exprs(n.Items) + "]"
	case *ast.MapLiteralNode:
		if len(n.Items) == 0 {
			return "[:]"
		}
		keys := make([]string, 0, len(n.Items))
		for k := range n.Items {
			keys = append(keys, k)
		}
		sort.Strings(keys)
		var parts []string
		for _, k := range keys {
			parts = append(parts, soyStr(k)+": "+c07Expr(n.Items[k]))
		}
		return "[" + strings.Join(parts, ", ") + "]"
	case *ast.DataRefNode:
		s := "$" + n.Key
		for _, a := range n.Access {
			s += c07Expr(a)
		}
		return s
	case *ast.DataRefIndexNode:
		if n.NullSafe {
			return "?." + strconv.Itoa(n.Index)
		}
		return "." + strconv.Itoa(n.Index)
	case *ast.DataRefKeyNode:
		if n.NullSafe {
			return "?." + n.Key
		}
		return "." + n.Key
	case *ast.DataRefExprNode:
		if n.NullSafe {
			return "?[" + c07Expr(n.Arg) + "]"
		}
		return "[" + c07Expr(n.Arg) + "]"
	case *ast.NotNode:
		return "(not " + c07Expr(n.Arg) + ")"
	case *ast.NegateNode:
		return "(-" + c07Expr(n.Arg) + ")"
	case *ast.TernNode:
		return "(" + c07Expr(n.Arg1) + " ? " + c07Expr(n.Arg2) + " : " + c07Expr(n.Arg3) + ")"
	}
	return fmt.Sprintf("UNPRINTABLE_%T", n)
}

func c07Block(n ast.Node) string {
	if n == nil {
		return ""
	}
	if l, ok := n.(*ast.ListNode); ok {
		var sb strings.Builder
		for _, c := range l.Nodes {
			sb.WriteString(c07Cmd(c))
		}
		return sb.String()
	}
	return c07Cmd(n)
}

func c07MsgBody(ns []ast.Node) string {
	var sb strings.Builder
	for _, c := range ns {
		switch c := c.(type) {
		case *ast.RawTextNode:
			sb.WriteString(c07Raw(c.Text))
		case *ast.MsgPlaceholderNode:
			if tag, ok := c.Body.(*ast.MsgHtmlTagNode); ok {
				sb.WriteString(string(tag.Text))
			} else {
				sb.WriteString(c07Cmd(c.Body))
			}
		case *ast.MsgPluralNode:
			sb.WriteString("{plural " + c07Expr(c.Value) + "}")
			for _, pc := range c.Cases {
				sb.WriteString("{case " + strconv.Itoa(pc.Value) + "}" + c07MsgBody(pc.Body.Children()))
			}
			sb.WriteString("{default}" + c07MsgBody(c.Default.Children()) + "{/plural}")
		default:
			sb.WriteString(c07Cmd(c))
		}
	}
	return sb.String()
}

func c07Auto(a ast.AutoescapeType) string {
	switch a {
	case ast.AutoescapeOn:
		return ` autoescape="true"`
	case ast.AutoescapeOff:
		return ` autoescape="false"`
	case ast.AutoescapeContextual:
		return ` autoescape="contextual"`
	}
	return ""
}

func c07Cmd(n ast.Node) string {
	switch n := n.(type) {
	case *ast.ListNode:
		return c07Block(n)
	case *ast.RawTextNode:
		return c07Raw(n.Text)
	case *ast.PrintNode:
		s := "{print " + c07Expr(n.Arg)
		for _, d := range n.Directives {
			s += "|" + d.Name
			if len(d.Args) > 0 {
				s += ":" + c07Exprs(d.Args)
			}
		}
		return s + "}"
	case *ast.CssNode:
		if n.Expr != nil {
			return "{css " + c07Expr(n.Expr) + ", " + n.Suffix + "}"
		}
		return "{css " + n.Suffix + "}"
	case *ast.LogNode:
		return "{log}" + c07Block(n.Body) + "{/log}"
	case *ast.DebuggerNode:
		return "{debugger}"
	case *ast.IfNode:
		var sb strings.Builder
		for i, c := range n.Conds {
			switch {
			case i == 0:
				sb.WriteString("{if " + c07Expr(c.Cond) + "}")
			case c.Cond != nil:
				sb.WriteString("{elseif " + c07Expr(c.Cond) + "}")
			default:
				sb.WriteString("{else}")
			}
			sb.WriteString(c07Block(c.Body))
		}
		sb.WriteString("{/if}")
		return sb.String()
	case *ast.SwitchNode:
		var sb strings.Builder
		sb.WriteString("{switch " + c07Expr(n.Value) + "}")
		for _, c := range n.Cases {
			if len(c.Values) == 0 {
				sb.WriteString("{default}")
			} else {
				sb.WriteString("{case " + c07Exprs(c.Values) + "}")
			}
			sb.WriteString(c07Block(c.Body))
		}
		sb.WriteString("{/switch}")
		return sb.String()
	case *ast.ForNode:
		s := "{for $" + n.Var + " in " + c07Expr(n.List) + "}" + c07Block(n.Body)
		if n.IfEmpty != nil {
			s += "{ifempty}" + c07Block(n.IfEmpty)
		}
		return s + "{/for}"
	case *ast.LetValueNode:
		return "{let $" + n.Name + ": " + c07Expr(n.Expr) + " /}"
	case *ast.LetContentNode:
		return "{let $" + n.Name + "}" + c07Block(n.Body) + "{/let}"
	case *ast.CallNode:
		s := "{call " + n.Name
		if n.AllData {
			s += ` data="all"`
		} else if n.Data != nil {
			s += ` data="` + c07Expr(n.Data) + `"`
		}
		if len(n.Params) == 0 {
			return s + " /}"
		}
		s += "}"
		for _, p := range n.Params {
			switch p := p.(type) {
			case *ast.CallParamValueNode:
				s += "{param " + p.Key + ": " + c07Expr(p.Value) + " /}"
			case *ast.CallParamContentNode:
				s += "{param " + p.Key + "}" + c07Block(p.Content) + "{/param}"
			}
		}
		return s + "{/call}"
	case *ast.MsgNode:
		s := "{msg"
		if n.Meaning != "" {
			s += ` meaning="` + n.Meaning + `"`
		}
		s += ` desc="` + n.Desc + `"}`
		return s + c07MsgBody(n.Body.Children()) + "{/msg}"
	case *ast.HeaderParamNode:
		q := ""
		if n.Optional {
			q = "?"
		}
		typ := n.Type.Expr
		if typ == "" {
			typ = "?"
		}
		dflt := ""
		if n.Default != nil {
			dflt = " = " + c07Expr(n.Default)
		}
		return "{@param" + q + " " + n.Name + ": " + typ + dflt + "}\n"
	case *ast.SoyDocNode:
		s := "/**\n"
		for _, p := range n.Params {
			q := ""
			if p.Optional {
				q = "?"
			}
			s += " * @param" + q + " " + p.Name + "\n"
		}
		return s + " */\n"
	case *ast.NamespaceNode:
		return "{namespace " + n.Name + c07Auto(n.Autoescape) + "}\n\n"
	case *ast.TemplateNode:
		short := n.Name[strings.LastIndex(n.Name, "."):]
		s := "{template " + short + c07Auto(n.Autoescape)
		if n.Private {
			s += ` private="true"`
		}
		return s + "}\n" + c07Block(n.Body) + "\n{/template}\n\n"
	}
	return fmt.Sprintf("{UNPRINTABLE_%T}", n)
}

func c07FileSrc(f *ast.SoyFileNode) string {
	var sb strings.Builder
	for _, n := range f.Body {
		sb.WriteString(c07Cmd(n))
	}
	return sb.String()
}

// ---------------------------------------------------------------------
// sites

type c07Site struct {
	kind  string // the rule violated
	where string // where it was injected
	apply func()
}

type c07Param struct {
	name       string
	optional   bool
	hasDefault bool // a header param declared with a default value (it stays required)
}

type insPoint struct {
	l   *ast.ListNode
	idx int
	env []string
}

type c07Walker struct {
	sites   []c07Site
	callees map[string][]c07Param
	params  []string // of the template being walked
}

func has(l []string, x string) bool {
	for _, y := range l {
		if y == x {
			return true
		}
	}
	return false
}

func plus(l []string, x string) []string { return append(append([]string{}, l...), x) }

func insertAt(l *ast.ListNode, idx int, ns ...ast.Node) {
	out := append([]ast.Node{}, l.Nodes[:idx]...)
	out = append(out, ns...)
	l.Nodes = append(out, l.Nodes[idx:]...)
}

func refNode(k string) ast.Node   { return &ast.DataRefNode{Key: k} }
func printRef(k string) ast.Node  { return &ast.PrintNode{Arg: refNode(k)} }
func intLitNode(v int64) ast.Node { return &ast.IntNode{Value: v} }
func eqWrap(e ast.Node, k string) ast.Node {
	return &ast.EqNode{BinaryOpNode: ast.BinaryOpNode{Name: "==", Arg1: e, Arg2: refNode(k)}}
}

func (w *c07Walker) add(kind, where string, f func()) {
	w.sites = append(w.sites, c07Site{kind, where, f})
}

// exprSite: a site where an expression can be conjoined with a reference.
func (w *c07Walker) exprSite(where string, get func() ast.Node, set func(ast.Node)) {
	w.add("undeclared-name", where, func() { set(eqWrap(get(), "zzNone")) })
}

func (w *c07Walker) list(n ast.Node, env, loops []string, start int, after *insPoint, what string) {
	l, ok := n.(*ast.ListNode)
	if !ok || l == nil {
		return
	}
	cur := env
	for i := start; i <= len(l.Nodes); i++ {
		i := i
		bound := append(append([]string{}, w.params...), cur...)
		w.add("undeclared-name", "block:"+what, func() { insertAt(l, i, printRef("zzNone")) })
		if i%2 == 0 {
			w.add("unused-let", "block:"+what, func() { insertAt(l, i, &ast.LetValueNode{Name: "zzU", Expr: intLitNode(1)}) })
		} else {
			w.add("unused-let", "block:"+what+":content", func() {
				insertAt(l, i, &ast.LetContentNode{Name: "zzU", Body: &ast.ListNode{Nodes: []ast.Node{&ast.RawTextNode{Text: []byte("x")}}}})
			})
		}
		w.add("let-named-ij", "block:"+what, func() {
			insertAt(l, i, &ast.LetValueNode{Name: "ij", Expr: intLitNode(1)}, printRef("ij"))
		})
		if i == len(l.Nodes) {
			// a let shadowed before any use, and a loop function on a variable that no loop binds
			w.add("unused-let", "shadowed:"+what, func() {
				insertAt(l, i, &ast.LetValueNode{Name: "zzU", Expr: intLitNode(1)}, &ast.LetValueNode{Name: "zzU", Expr: intLitNode(2)}, printRef("zzU"))
			})
			// a let that re-uses a name already bound (a used param, an enclosing let or loop variable) and is never
			// used itself: usedness is per binder, not per name
			for qi, q := range bound {
				if qi >= 2 {
					break
				}
				if q != "ij" {
					q := q
					w.add("unused-let", "rebinding-a-bound-name:"+what, func() {
						insertAt(l, i, &ast.LetValueNode{Name: q, Expr: intLitNode(1)})
					})
				}
			}
			for _, q := range bound {
				if !has(loops, q) && q != "ij" {
					q := q
					w.add("loopfunc-on-nonloop", "block:"+what, func() {
						insertAt(l, i, &ast.PrintNode{Arg: &ast.FunctionNode{Name: "index", Args: []ast.Node{refNode(q)}}})
					})
					break
				}
			}
			// C14-loopfunc-shape: inside a loop, a loop function on anything but that one plain variable
			if len(loops) > 0 {
				q := loops[len(loops)-1]
				for si, args := range [][]ast.Node{
					{},
					{intLitNode(1)},
					{&ast.DataRefNode{Key: q, Access: []ast.Node{&ast.DataRefKeyNode{Key: "y"}}}},
					{refNode(q), refNode(q)},
					{&ast.StringNode{Value: q}},
				} {
					args, fn := args, []string{"isLast", "isFirst", "index"}[si%3]
					w.add("loopfunc-bad-shape", fmt.Sprintf("shape%d:%s", si, what), func() {
						insertAt(l, i, &ast.PrintNode{Arg: &ast.FunctionNode{Name: fn, Args: args}})
					})
				}
			}
			break
		}
		node := l.Nodes[i]
		next := cur
		switch x := node.(type) {
		case *ast.LetValueNode:
			next = plus(cur, x.Name)
		case *ast.LetContentNode:
			next = plus(cur, x.Name)
		}
		w.node(node, cur, loops, &insPoint{l, i, bound}, &insPoint{l, i + 1, append(append([]string{}, w.params...), next...)}, after)
		cur = next
	}
}

// node: [here] is the insertion point just before the node, [after] just after it (both in
// its own list), [outer] the point after the construct that owns the node's list.
func (w *c07Walker) node(n ast.Node, env, loops []string, here, after, outer *insPoint) {
	bound := here.env
	letSites := func(name string) {
		if !has(bound, name) {
			w.add("use-before-definition", "before-let", func() { insertAt(here.l, here.idx, printRef(name)) })
		}
		if outer != nil && !has(outer.env, name) {
			w.add("use-after-block", "after-owner", func() { insertAt(outer.l, outer.idx, printRef(name)) })
		}
	}
	switch n := n.(type) {
	case *ast.PrintNode:
		w.exprSite("print-arg", func() ast.Node { return n.Arg }, func(e ast.Node) { n.Arg = e })
		for _, d := range n.Directives {
			d := d
			for j := range d.Args {
				j := j
				w.exprSite("directive-arg", func() ast.Node { return d.Args[j] }, func(e ast.Node) { d.Args[j] = e })
			}
		}
	case *ast.CssNode:
		if n.Expr != nil {
			w.exprSite("css-expr", func() ast.Node { return n.Expr }, func(e ast.Node) { n.Expr = e })
		}
	case *ast.MsgNode:
		w.msgSites(n.Body.Children())
	case *ast.IfNode:
		for _, c := range n.Conds {
			c := c
			if c.Cond != nil {
				w.exprSite("if-cond", func() ast.Node { return c.Cond }, func(e ast.Node) { c.Cond = e })
			}
			w.list(c.Body, env, loops, 0, after, "if")
		}
	case *ast.SwitchNode:
		w.exprSite("switch-value", func() ast.Node { return n.Value }, func(e ast.Node) { n.Value = e })
		for _, c := range n.Cases {
			w.list(c.Body, env, loops, 0, after, "case")
		}
	case *ast.ForNode:
		w.exprSite("for-list", func() ast.Node { return n.List }, func(e ast.Node) { n.List = e })
		if !has(bound, n.Var) {
			w.add("loopvar-outside-loop", "list-expr", func() {
				n.List = &ast.ElvisNode{BinaryOpNode: ast.BinaryOpNode{Name: "?:", Arg1: n.List, Arg2: refNode(n.Var)}}
			})
			w.add("loopvar-outside-loop", "ifempty", func() {
				if n.IfEmpty == nil {
					n.IfEmpty = &ast.ListNode{}
				}
				// at the head of the block: a {let} further down may bind the same name
				insertAt(n.IfEmpty.(*ast.ListNode), 0, printRef(n.Var))
			})
			w.add("loopvar-outside-loop", "before-loop", func() { insertAt(here.l, here.idx, printRef(n.Var)) })
		}
		if !has(after.env, n.Var) {
			w.add("loopvar-outside-loop", "after-loop", func() { insertAt(after.l, after.idx, printRef(n.Var)) })
		}
		w.list(n.Body, plus(env, n.Var), plus(loops, n.Var), 0, after, "loop")
		w.list(n.IfEmpty, env, loops, 0, after, "ifempty")
	case *ast.LetValueNode:
		w.exprSite("let-value", func() ast.Node { return n.Expr }, func(e ast.Node) { n.Expr = e })
		if !has(bound, n.Name) {
			w.add("use-before-definition", "own-value", func() { n.Expr = eqWrap(n.Expr, n.Name) })
		}
		letSites(n.Name)
	case *ast.LetContentNode:
		if !has(bound, n.Name) {
			w.add("use-before-definition", "own-body", func() {
				insertAt(n.Body.(*ast.ListNode), 0, printRef(n.Name)) // at the head: nothing in the body binds the name yet
			})
		}
		letSites(n.Name)
		w.list(n.Body, env, loops, 0, after, "let-content")
	case *ast.LogNode:
		w.list(n.Body, env, loops, 0, after, "log")
	case *ast.CallNode:
		w.add("unknown-callee", "call", func() { n.Name = n.Name + "zzNo" })
		w.add("undeclared-call-param", "call", func() {
			n.Params = append(n.Params, &ast.CallParamValueNode{Key: "zzQ", Value: intLitNode(1)})
		})
		{
			// a param that someone else declares -- the caller, or any other template -- but the callee does not
			declares := func(ps []c07Param, x string) bool {
				for _, p := range ps {
					if p.name == x {
						return true
					}
				}
				return false
			}
			passes := func(x string) bool {
				for _, p := range n.Params {
					switch p := p.(type) {
					case *ast.CallParamValueNode:
						if p.Key == x {
							return true
						}
					case *ast.CallParamContentNode:
						if p.Key == x {
							return true
						}
					}
				}
				return false
			}
			if callee, known := w.callees[n.Name]; known {
				for _, x := range w.params {
					if !declares(callee, x) && !passes(x) {
						x := x
						w.add("undeclared-call-param", "call:name-of-a-caller-param", func() {
							n.Params = append(n.Params, &ast.CallParamValueNode{Key: x, Value: intLitNode(1)})
						})
						break
					}
				}
				var others []string
				for name := range w.callees {
					others = append(others, name)
				}
				sort.Strings(others)
			outer:
				for _, name := range others {
					for _, p := range w.callees[name] {
						if x := p.name; !declares(callee, x) && !passes(x) && !has(w.params, x) {
							w.add("undeclared-call-param", "call:name-of-another-template's-param", func() {
								n.Params = append(n.Params, &ast.CallParamValueNode{Key: x, Value: intLitNode(1)})
							})
							break outer
						}
					}
				}
			}
		}
		if n.Data != nil {
			w.exprSite("call-data-expr", func() ast.Node { return n.Data }, func(e ast.Node) { n.Data = e })
		}
		if n.Data == nil {
			for _, cp := range w.callees[n.Name] {
				if cp.optional || (n.AllData && has(w.params, cp.name)) {
					continue
				}
				at, cnt := -1, 0
				for j, p := range n.Params {
					k := ""
					switch p := p.(type) {
					case *ast.CallParamValueNode:
						k = p.Key
					case *ast.CallParamContentNode:
						k = p.Key
					}
					if k == cp.name {
						at, cnt = j, cnt+1
					}
				}
				if cnt == 1 {
					at := at
					where := "call"
					if cp.hasDefault {
						where = "call:param-with-default-value"
					}
					w.add("missing-required-param", where, func() {
						n.Params = append(append([]ast.Node{}, n.Params[:at]...), n.Params[at+1:]...)
					})
				}
			}
		}
		for _, p := range n.Params {
			switch p := p.(type) {
			case *ast.CallParamValueNode:
				w.exprSite("param-value", func() ast.Node { return p.Value }, func(e ast.Node) { p.Value = e })
			case *ast.CallParamContentNode:
				w.list(p.Content, env, loops, 0, after, "param-content")
			}
		}
	}
}

// c07Calls collects the names of the templates called below n.
func c07Calls(n ast.Node, into map[string]bool) {
	if n == nil {
		return
	}
	if c, ok := n.(*ast.CallNode); ok {
		into[c.Name] = true
	}
	if p, ok := n.(ast.ParentNode); ok {
		for _, c := range p.Children() {
			c07Calls(c, into)
		}
	}
}

// c07SelfAllCall: the tree contains a data="all" call of the template `name`.  A param added to such a
// template is declared by the callee too, so data="all" forwards it: by the rules it is used.
func c07SelfAllCall(n ast.Node, name string) bool {
	if n == nil {
		return false
	}
	if c, ok := n.(*ast.CallNode); ok && c.AllData && c.Name == name {
		return true
	}
	if p, ok := n.(ast.ParentNode); ok {
		for _, c := range p.Children() {
			if c07SelfAllCall(c, name) {
				return true
			}
		}
	}
	return false
}

// c07BoundNames collects the names that {let}s and loops bind anywhere in the tree.
func c07BoundNames(n ast.Node, into map[string]bool) {
	if n == nil {
		return
	}
	switch x := n.(type) {
	case *ast.LetValueNode:
		into[x.Name] = true
	case *ast.LetContentNode:
		into[x.Name] = true
	case *ast.ForNode:
		into[x.Var] = true
	}
	if p, ok := n.(ast.ParentNode); ok {
		for _, c := range p.Children() {
			c07BoundNames(c, into)
		}
	}
}

// c07AllCallees: the templates the tree calls with data="all".
func c07AllCallees(n ast.Node, into map[string]bool) {
	if n == nil {
		return
	}
	if c, ok := n.(*ast.CallNode); ok && c.AllData {
		into[c.Name] = true
	}
	if p, ok := n.(ast.ParentNode); ok {
		for _, c := range p.Children() {
			c07AllCallees(c, into)
		}
	}
}

// msgSites: the expressions inside a {msg}: placeholders and {plural}.
func (w *c07Walker) msgSites(ns []ast.Node) {
	for _, c := range ns {
		switch c := c.(type) {
		case *ast.MsgPlaceholderNode:
			if p, ok := c.Body.(*ast.PrintNode); ok {
				w.exprSite("msg-placeholder", func() ast.Node { return p.Arg }, func(e ast.Node) { p.Arg = e })
			}
		case *ast.MsgPluralNode:
			w.exprSite("plural-value", func() ast.Node { return c.Value }, func(e ast.Node) { c.Value = e })
			for _, pc := range c.Cases {
				w.msgSites(pc.Body.Children())
			}
			w.msgSites(c.Default.Children())
		}
	}
}

type c07Tmpl struct {
	file   *ast.SoyFileNode
	idx    int // index of the template node in file.Body
	node   *ast.TemplateNode
	doc    *ast.SoyDocNode // the soydoc node just before it, or nil
	nhead  int             // number of leading header params
	params []c07Param
}

func c07Templates(files []*ast.SoyFileNode) []c07Tmpl {
	var ts []c07Tmpl
	for _, f := range files {
		for i, n := range f.Body {
			tn, ok := n.(*ast.TemplateNode)
			if !ok {
				continue
			}
			t := c07Tmpl{file: f, idx: i, node: tn}
			if i > 0 {
				if d, ok := f.Body[i-1].(*ast.SoyDocNode); ok {
					t.doc = d
					for _, p := range d.Params {
						t.params = append(t.params, c07Param{p.Name, p.Optional, false})
					}
				}
			}
			for _, c := range tn.Body.Nodes {
				hp, ok := c.(*ast.HeaderParamNode)
				if !ok {
					break
				}
				t.nhead++
				t.params = append(t.params, c07Param{hp.Name, hp.Optional, hp.Default != nil})
			}
			ts = append(ts, t)
		}
	}
	return ts
}

func c07Sites(files []*ast.SoyFileNode) []c07Site {
	ts := c07Templates(files)
	w := &c07Walker{callees: map[string][]c07Param{}}
	called := map[string]bool{}
	for _, t := range ts {
		if _, dup := w.callees[t.node.Name]; !dup {
			w.callees[t.node.Name] = t.params
		}
		c07Calls(t.node.Body, called)
	}
	for ti, t := range ts {
		ti, t := ti, t
		w.params = nil
		for _, p := range t.params {
			w.params = append(w.params, p.name)
		}
		// a new required param of a template that is called would also break its callers
		// (a second rule): make it optional there
		opt := called[t.node.Name]
		addDoc := func(name string) {
			if t.doc != nil {
				t.doc.Params = append(t.doc.Params, &ast.SoyDocParamNode{Name: name, Optional: opt})
				return
			}
			d := &ast.SoyDocNode{Params: []*ast.SoyDocParamNode{{Name: name, Optional: opt}}}
			body := append([]ast.Node{}, t.file.Body[:t.idx]...)
			body = append(body, d)
			t.file.Body = append(body, t.file.Body[t.idx:]...)
		}
		addHeader := func(name string) {
			insertAt(t.node.Body, 0, &ast.HeaderParamNode{Name: name, Optional: opt, Type: ast.TypeNode{Expr: "int"}})
		}
		style := "soydoc"
		if t.nhead > 0 {
			style = "header"
		}
		if opt {
			style += ":optional"
		}
		addParam := func(name string) {
			if t.nhead > 0 {
				addHeader(name)
			} else {
				addDoc(name)
			}
		}
		// a template that calls itself with data="all" forwards every param to itself: a new param is used, not a violation
		selfAll := c07SelfAllCall(t.node, t.node.Name)
		if !selfAll {
			w.add("unused-param", style, func() { addParam("zzP") })
		}
		if !selfAll {
			w.add("unused-param", style+":use-captured-by-let", func() {
				addParam("zzP")
				nh := t.nhead
				if nh > 0 {
					nh++
				}
				insertAt(t.node.Body, nh, &ast.LetValueNode{Name: "zzP", Expr: intLitNode(1)}, printRef("zzP"))
			})
		}
		if !selfAll {
			w.add("unused-param", style+":use-captured-by-loop", func() {
				addParam("zzP")
				nh := t.nhead
				if nh > 0 {
					nh++
				}
				insertAt(t.node.Body, nh, &ast.ForNode{Var: "zzP", List: &ast.ListLiteralNode{Items: []ast.Node{intLitNode(1)}},
					Body: &ast.ListNode{Nodes: []ast.Node{printRef("zzP")}}})
			})
		}
		// names that OTHER templates of the bundle declare or bind: the checker's per-template state (params, variables
		// in scope, used keys) must not leak from one template to the next, in either order
		{
			local := map[string]bool{"ij": true}
			for _, p := range t.params {
				local[p.name] = true
			}
			c07BoundNames(t.node.Body, local)
			allCallees := map[string]bool{}
			c07AllCallees(t.node.Body, allCallees)
			forwarded := func(x string) bool {
				for c := range allCallees {
					for _, p := range w.callees[c] {
						if p.name == x {
							return true
						}
					}
				}
				return false
			}
			seenP, seenV := 0, 0
			for oi, o := range ts {
				if o.node == t.node {
					continue
				}
				pos := "earlier"
				if oi > ti {
					pos = "later"
				}
				for _, p := range o.params {
					x := p.name
					if local[x] || seenP >= 2 {
						continue
					}
					seenP++
					local[x] = true
					w.add("undeclared-name", "template-end:param-of-"+pos+"-template", func() {
						insertAt(t.node.Body, len(t.node.Body.Nodes), printRef(x))
					})
					if !forwarded(x) && !selfAll {
						w.add("unused-param", style+":name-used-by-"+pos+"-template", func() { addParam(x) })
					}
				}
				vs := map[string]bool{}
				c07BoundNames(o.node.Body, vs)
				var names []string
				for x := range vs {
					names = append(names, x)
				}
				sort.Strings(names)
				for _, x := range names {
					if local[x] || seenV >= 2 {
						continue
					}
					seenV++
					local[x] = true
					w.add("undeclared-name", "template-end:variable-of-"+pos+"-template", func() {
						insertAt(t.node.Body, len(t.node.Body.Nodes), printRef(x))
					})
				}
			}
		}
		w.add("soydoc-and-header-params", style, func() {
			switch {
			case t.nhead > 0:
				addDoc("zzS")
				insertAt(t.node.Body, t.nhead, printRef("zzS"))
			case len(t.params) > 0:
				addHeader("zzH")
				insertAt(t.node.Body, 1, printRef("zzH"))
			default:
				addDoc("zzS")
				addHeader("zzH")
				insertAt(t.node.Body, 1, printRef("zzS"), printRef("zzH"))
			}
		})
		w.add("header-param-not-at-head", style, func() {
			insertAt(t.node.Body, len(t.node.Body.Nodes), &ast.HeaderParamNode{Name: "zzH", Type: ast.TypeNode{Expr: "int"}}, printRef("zzH"))
		})
		w.list(t.node.Body, nil, nil, t.nhead, nil, "template")
	}
	return w.sites
}

// ---------------------------------------------------------------------
// running one bundle through the implementation, the model and the Spec

func c07Parse(files []srcFile) ([]*ast.SoyFileNode, error) {
	var out []*ast.SoyFileNode
	for _, f := range files {
		t, err := parse.SoyFile(f.Name, f.Text)
		if err != nil {
			return nil, err
		}
		out = append(out, t)
	}
	return out, nil
}

// c07Shape is the tree without its raw text (node types in order, with the names the data-reference rules read):
// printing a tree and parsing the result must keep it, or the printer has produced a DIFFERENT bundle (a comment
// opener in raw text swallowing tags, say) and no verdict about that bundle says anything about the tree.
func c07Shape(n ast.Node, sb *strings.Builder) {
	switch n := n.(type) {
	case nil:
		return
	case *ast.RawTextNode, *ast.IntNode, *ast.FloatNode:
		return
	case *ast.NegateNode: // -(4) is printed (-4), which parses to the literal
		c07Shape(n.Arg, sb)
		return
	case *ast.DataRefNode:
		sb.WriteString("$" + n.Key)
	case *ast.LetValueNode:
		sb.WriteString("let:" + n.Name)
	case *ast.LetContentNode:
		sb.WriteString("letc:" + n.Name)
	case *ast.ForNode:
		sb.WriteString("for:" + n.Var)
	case *ast.CallNode:
		sb.WriteString("call:" + n.Name)
	case *ast.FunctionNode:
		sb.WriteString("fn:" + n.Name)
	default:
		fmt.Fprintf(sb, "%T", n)
	}
	if p, ok := n.(ast.ParentNode); ok {
		sb.WriteString("(")
		for _, c := range p.Children() {
			c07Shape(c, sb)
		}
		sb.WriteString(")")
	}
}

func c07ShapeOf(trees []*ast.SoyFileNode) string {
	var sb strings.Builder
	for _, t := range trees {
		c07Shape(t, &sb)
		sb.WriteString("\n")
	}
	return sb.String()
}

func c07FilesSexp(trees []*ast.SoyFileNode, ids *idTable) string {
	var fs []string
	for _, t := range trees {
		fs = append(fs, "(file "+sx(t.Name)+" x "+nodesSexp(t.Body, ids)+")")
	}
	return "(files " + strings.Join(fs, " ") + ")"
}

func c07Compile(files []srcFile) (err error) {
	defer func() {
		if r := recover(); r != nil {
			err = fmt.Errorf("PANIC: %v", r)
		}
	}()
	b := soy.NewBundle()
	for _, f := range files {
		b.AddTemplateString(f.Name, f.Text)
	}
	_, err = b.Compile()
	return err
}

type c07Case struct {
	Files    []srcFile `json:"files"`
	Injected string    `json:"injected,omitempty"`
	Site     string    `json:"site,omitempty"`
	Template string    `json:"template,omitempty"`
	Data     string    `json:"data,omitempty"`
}

type c07Pending struct {
	c       c07Case
	valid   bool // expected to be accepted
	realErr error
}

// judge compares the three verdicts for a batch of bundles.
func c07Judge(e *env, pend []c07Pending, reqs []string) {
	resp := e.m.Batch(reqs)
	for i, p := range pend {
		r := resp[i]
		if len(r) < 5 {
			e.res.Fail(hx.Violation{Kind: "mismatch", What: "model cannot judge the bundle", Case: p.c, Observed: fmt.Sprint(r)}, "")
			continue
		}
		modelAccepts := r[0] == "accept"
		wf := r[1] == "#1"
		realAccepts := p.realErr == nil
		if isPanicErr(p.realErr) {
			e.res.Fail(hx.Violation{Kind: "oracle", What: "the compiler panics", Case: p.c, Observed: errStr(p.realErr)}, "")
			continue
		}
		if r[2] != "#1" {
			e.res.Fail(hx.Violation{Kind: "mismatch", What: "a parsed file does not have the shape the theorems assume (files_shaped)", Case: p.c}, "")
		}
		if p.valid && r[3] != "#1" {
			e.res.Fail(hx.Violation{Kind: "mismatch", What: "a parsed template does not have the shape the theorems assume (registry_shaped)", Case: p.c}, "")
		}
		if len(r) >= 7 {
			// the two Coq models of CheckDataRefs (Model/Checker.v of C07, Model/Compile.v of C13) are proved equal
			// (C07_checker_models_agree) on registries whose map literals list their items by increasing key
			if r[6] != "#1" {
				e.res.Fail(hx.Violation{Kind: "mismatch", What: "a parsed map literal does not list its items by increasing key (registry_maps_sorted)", Case: p.c}, "")
			}
			e.res.Histogram["second-model:"+strings.SplitN(r[5], ":", 2)[0]]++
			if r[5] != r[0] {
				e.res.Fail(hx.Violation{Kind: "mismatch", What: "the two models of Registry.Add + CheckDataRefs (Model/Checker.v, Model/Compile.v) give different verdicts", Case: p.c,
					Expected: r[0], Observed: r[5]}, "")
			}
		}
		known := ""
		if p.c.Injected == "loopfunc-on-nonloop" {
			known = "loopfunc-on-nonloop-accepted"
		}
		switch {
		case wf && !realAccepts:
			e.res.Fail(hx.Violation{Kind: "oracle", What: "a bundle satisfying the data-reference rules is rejected by the compiler", Case: p.c,
				Expected: "compiles", Observed: errStr(p.realErr)}, "")
		case !wf && realAccepts:
			e.res.Fail(hx.Violation{Kind: "oracle", What: "a bundle violating a data-reference rule (" + p.c.Injected + ") is accepted by the compiler", Case: p.c,
				Expected: "compilation fails", Observed: "compiles"}, known)
		}
		if modelAccepts != realAccepts {
			e.res.Fail(hx.Violation{Kind: "mismatch", What: "the model of the checker and the compiler disagree", Case: p.c,
				Expected: r[0], Observed: errStr(p.realErr)}, known)
		}
		if p.valid && !wf {
			e.res.Fail(hx.Violation{Kind: "mismatch", What: "a generated valid bundle is not well-formed by the Spec", Case: p.c, Observed: r[0]}, "")
		}
		if !p.valid && wf {
			e.res.Fail(hx.Violation{Kind: "mismatch", What: "an injected violation is well-formed by the Spec", Case: p.c, Observed: r[0]}, "")
		}
		if !p.valid {
			cls := strings.TrimPrefix(r[0], "reject:")
			e.res.Histogram["model-class:"+p.c.Injected+"->"+cls]++
		}
	}
}

// c07Render renders every template of an accepted bundle with all its declared
// params supplied and counts the scope lookups that miss.
func c07Render(e *env, files []srcFile, tmpls []*gtemplate, o progOpts, trees []*ast.SoyFileNode) {
	tofu, err := compile(files)
	if err != nil {
		return
	}
	b := soy.NewBundle()
	for _, f := range files {
		b.AddTemplateString(f.Name, f.Text)
	}
	reg, err := b.Compile()
	if err != nil {
		return
	}
	ids := newIDTable()
	key := "c07reg"
	if r := e.m.Call("load_registry", key, registrySexp(reg, ids)); len(r) == 0 || r[0] != "#1" {
		e.res.Fail(hx.Violation{Kind: "mismatch", What: "model cannot load the registry", Case: c07Case{Files: files}, Observed: fmt.Sprint(r)}, "")
		return
	}
	jr := e.m.Call("c07_registry", key)
	if len(jr) < 4 {
		e.res.Fail(hx.Violation{Kind: "mismatch", What: "model cannot judge the registry", Case: c07Case{Files: files}, Observed: fmt.Sprint(jr)}, "")
		return
	}
	if len(jr) >= 6 && (jr[4] != jr[0] || jr[5] != "#1") {
		e.res.Fail(hx.Violation{Kind: "mismatch", What: "the two models of CheckDataRefs disagree on the compiled registry, or a map literal is not listed by increasing key", Case: c07Case{Files: files}, Observed: fmt.Sprint(jr)}, "")
	}
	if jr[0] != "accept" || jr[1] != "#1" || jr[2] != "#1" {
		e.res.Fail(hx.Violation{Kind: "mismatch", What: "the compiled registry of an accepted bundle is not accepted / well-formed / shaped for the model", Case: c07Case{Files: files}, Observed: fmt.Sprint(jr)}, "")
	}
	total := jr[3] == "#1"
	if total {
		e.res.Histogram["render:calls-total"]++
	} else {
		e.res.Histogram["render:calls-partial"]++
	}
	// the params a render of template `name` may miss: those declared by the templates its calls can reach
	// (the hook reports the key only, not the executing template; the model's refined counter is exact)
	byName := map[string]c07Tmpl{}
	for _, t := range c07Templates(trees) {
		if _, dup := byName[t.node.Name]; !dup {
			byName[t.node.Name] = t
		}
	}
	declaredFrom := func(name string) map[string]bool {
		declared := map[string]bool{}
		seen := map[string]bool{}
		todo := []string{name}
		for len(todo) > 0 {
			n := todo[0]
			todo = todo[1:]
			t, ok := byName[n]
			if seen[n] || !ok {
				continue
			}
			seen[n] = true
			for _, p := range t.params {
				declared[p.name] = true
			}
			cs := map[string]bool{}
			c07Calls(t.node.Body, cs)
			for c := range cs {
				todo = append(todo, c)
			}
		}
		return declared
	}
	// the call hook (notes/pending/C07-callhook.diff) reports the template that is executing: with it the oracle is
	// exactly "every miss is a declared param of the executing template"; a tree without the hook is judged by the
	// approximation above (declared by some template the entry template can reach)
	hook, exact := interface{}(tofu).(interface {
		VerifSetCallObserver(func(string, bool))
	})
	for _, t := range tmpls {
		d := genData(e.rng, t.params, o)
		if t.rec {
			d = data.Map{"n": data.Int(3)} // the countdown template recurses n times: a large n is C06's business
		}
		var missed, foreign []string
		stack := []string{t.full()}
		if exact {
			hook.VerifSetCallObserver(func(name string, enter bool) {
				if enter {
					stack = append(stack, name)
				} else if len(stack) > 1 {
					stack = stack[:len(stack)-1]
				}
			})
		}
		soyhtml.VerifUnboundObserver = func(k string) {
			missed = append(missed, k)
			if exact {
				cur := stack[len(stack)-1]
				ok := false
				for _, p := range byName[cur].params {
					ok = ok || p.name == k
				}
				if !ok {
					foreign = append(foreign, cur+":$"+k)
				}
			}
		}
		out, rerr := render(tofu, t.full(), d, data.Map{"k": data.Int(1)})
		soyhtml.VerifUnboundObserver = nil
		if exact {
			hook.VerifSetCallObserver(nil)
			e.res.Histogram["render:oracle=executing-template"]++
		} else {
			e.res.Histogram["render:oracle=reachable-templates"]++
		}
		dsx := valueSexp(d, ids)
		pc := c07Case{Files: files, Template: t.full(), Data: dsx}
		e.res.Count(fmt.Sprint(files)+t.full()+dsx, true, "render")
		if isPanicErr(rerr) {
			continue // C06's business
		}
		if total && len(missed) > 0 {
			e.res.Fail(hx.Violation{Kind: "oracle", What: "rendering an accepted template with all declared params supplied looks up names that nothing binds", Case: pc,
				Expected: "no unbound lookup", Observed: fmt.Sprint(missed)}, "")
		}
		if exact && len(foreign) > 0 && !isPanicErr(rerr) {
			e.res.Fail(hx.Violation{Kind: "oracle", What: "rendering an accepted template looks up a name that is neither bound nor a declared param of the executing template", Case: pc,
				Expected: "only declared params of the executing template that its caller did not pass may be missing", Observed: fmt.Sprint(foreign)}, "")
		}
		if !total && !exact {
			declared := declaredFrom(t.full())
			for _, k := range missed {
				if !declared[k] {
					e.res.Fail(hx.Violation{Kind: "oracle", What: "rendering an accepted template looks up a name that is neither bound nor a declared param", Case: pc,
						Expected: "only declared params a caller did not pass may be missing", Observed: fmt.Sprint(missed)}, "")
					break
				}
			}
		}
		e.res.Histogram[fmt.Sprintf("render:missed=%d", min(len(missed), 3))]++
		// the interpreter model counts the same misses
		r := e.m.Call("render", key, sx(t.full()), "#4000", "none", "none", "-", "(vm 0 (x6b (vi 1)))", ";", dsx)
		if len(r) >= 5 {
			cls := strings.Split(r[0], ",")[0]
			if (cls == "ok" || cls == "err") && (cls == "ok") == (rerr == nil) {
				if int(hx.UnI(r[3])) != len(missed) {
					e.res.Fail(hx.Violation{Kind: "mismatch", What: "the interpreter model counts a different number of unbound lookups", Case: pc,
						Expected: r[3], Observed: fmt.Sprint(missed)}, "")
				}
			} else {
				e.res.Histogram["render:model-outcome-differs-or-outside-model"]++
			}
		}
		// the refined counter of the model (misses of declared params of the executing template are not counted):
		// 0 on every accepted bundle (C07_accepted_no_unbound_lookup), whatever the calls pass
		rx := e.m.Call("render_xc", key, sx(t.full()), "#4000", "(vm 0 (x6b (vi 1)))", ";", dsx)
		if len(rx) >= 2 && len(r) >= 5 {
			e.res.Histogram["render_xc:"+rx[0]]++
			if rx[1] != "#0" {
				e.res.Fail(hx.Violation{Kind: "mismatch", What: "the refined unbound-lookup counter of the model is not 0 on an accepted bundle", Case: pc,
					Expected: "#0", Observed: rx[1]}, "")
			}
			if rx[0] != strings.Split(r[0], ",")[0] || strings.Join(rx[2:], " ") != strings.Join(r[5:], " ") {
				e.res.Fail(hx.Violation{Kind: "mismatch", What: "render_x and render of the model differ in outcome or output", Case: pc,
					Expected: fmt.Sprint(r), Observed: fmt.Sprint(rx)}, "")
			}
		}
		_ = out
	}
}

var c07Corpus = []struct {
	name  string
	valid bool
	src   string
}{
	{"K1 let in its own value", false, "{namespace ns}\n/** @param p */\n{template .t}\n{$p}{let $x: $x + 1 /}{$x}\n{/template}\n"},
	{"K2 loop variable in its list", false, "{namespace ns}\n/** @param p */\n{template .t}\n{$p}{foreach $i in $i}{$i}{/foreach}\n{/template}\n"},
	{"K2 loop variable in ifempty", false, "{namespace ns}\n/** @param p */\n{template .t}\n{$p}{foreach $i in [1]}{$i}{ifempty}{$i}{/foreach}\n{/template}\n"},
	{"K3 param used before a same-named let", true, "{namespace ns}\n/** @param a */\n{template .t}\n{$a}{let $a: 1 /}{$a}\n{/template}\n"},
	{"param only used under a same-named let", false, "{namespace ns}\n/** @param a */\n{template .t}\n{let $a: 1 /}{$a}\n{/template}\n"},
	{"let visible after the block of an if", false, "{namespace ns}\n/** @param c */\n{template .t}\n{if $c}{let $x: 5 /}{$x}{/if}{$x}\n{/template}\n"},
	{"unused loop variable", true, "{namespace ns}\n/** @param p */\n{template .t}\n{$p}{foreach $i in [1]}x{/foreach}\n{/template}\n"},
	{"duplicate params", true, "{namespace ns}\n/** @param p\n @param p */\n{template .t}\n{$p}\n{/template}\n"},
	{"loop variable named ij", true, "{namespace ns}\n/** @param p */\n{template .t}\n{$p}{foreach $ij in [1]}{$ij}{/foreach}\n{/template}\n"},
	{"param forwarded by data=all only", true, "{namespace ns}\n/** @param p */\n{template .t}\n{call .u data=\"all\" /}\n{/template}\n/** @param p */\n{template .u}\n{$p}\n{/template}\n"},
	{"data=all does not forward an undeclared callee param", false, "{namespace ns}\n/** @param p */\n{template .t}\n{call .u data=\"all\" /}\n{/template}\n/** @param q */\n{template .u}\n{$q}\n{/template}\n"},
	{"data expr excuses required params", true, "{namespace ns}\n/** @param p */\n{template .t}\n{call .u data=\"$p\" /}\n{/template}\n/** @param q */\n{template .u}\n{$q}\n{/template}\n"},
	{"optional param may be omitted", true, "{namespace ns}\n/** @param p */\n{template .t}\n{$p}{call .u /}\n{/template}\n/** @param? q */\n{template .u}\n{if $q}y{/if}\n{/template}\n"},
	{"index of a loop variable shadowed by a let", true, "{namespace ns}\n/** @param p */\n{template .t}\n{foreach $x in [1,2]}{let $x: $p /}{index($x)}{/foreach}\n{/template}\n"},
	{"isFirst without arguments", false, "{namespace ns}\n/** @param p */\n{template .t}\n{foreach $x in $p}{$x}{if isFirst()}y{/if}{/foreach}\n{/template}\n"},
	{"isLast of a literal", false, "{namespace ns}\n/** @param p */\n{template .t}\n{foreach $x in $p}{$x}{isLast(1)}{/foreach}\n{/template}\n"},
	{"isLast of a field of the loop variable", false, "{namespace ns}\n/** @param p */\n{template .t}\n{foreach $x in $p}{isLast($x.y)}{/foreach}\n{/template}\n"},
	{"index of two loop variables", false, "{namespace ns}\n/** @param p */\n{template .t}\n{foreach $x in $p}{index($x, $x)}{/foreach}\n{/template}\n"},
	{"index of an expression over the loop variable", false, "{namespace ns}\n/** @param p */\n{template .t}\n{foreach $x in $p}{index($x ?: 1)}{/foreach}\n{/template}\n"},
	{"index of a param", false, "{namespace ns}\n/** @param p */\n{template .t}\n{index($p)}\n{/template}\n"},
	{"isLast of a let", false, "{namespace ns}\n/** @param p */\n{template .t}\n{$p}{let $x: 1 /}{if isLast($x)}y{/if}\n{/template}\n"},
	{"template name defined twice", false, "{namespace ns}\n/** @param p */\n{template .t}\n{$p}\n{/template}\n/** @param p */\n{template .t}\n{$p}\n{/template}\n"},
	{"header param with a default value omitted by a call", false, "{namespace ns}\n{template .main}\n{call .badge}{param label: 'new' /}{/call}\n{/template}\n{template .badge}\n{@param label: string}\n{@param size: int = 10}\n{$label}{$size}\n{/template}\n"},
	{"header param with a default value passed by the call", true, "{namespace ns}\n{template .main}\n{call .badge}{param label: 'new' /}{param size: 3 /}{/call}\n{/template}\n{template .badge}\n{@param label: string}\n{@param size: int = 10}\n{$label}{$size}\n{/template}\n"},
	{"optional header param with a default value omitted by a call", true, "{namespace ns}\n{template .main}\n{call .badge}{param label: 'new' /}{/call}\n{/template}\n{template .badge}\n{@param label: string}\n{@param? size: int = 10}\n{$label}{if $size}y{/if}\n{/template}\n"},
	{"header param with a default value not covered by data=all", false, "{namespace ns}\n{template .main}\n{@param label: string}\n{call .badge data=\"all\" /}\n{/template}\n{template .badge}\n{@param label: string}\n{@param size: int = 10}\n{$label}{$size}\n{/template}\n"},
	{"same short name in two namespaces: the callee's own params count", true, "{namespace a.x}\n/** @param p */\n{template .item}\n{$p}{call b.y.item}{param q: $p /}{/call}\n{/template}\n=====\n{namespace b.y}\n/** @param q */\n{template .item}\n{$q}\n{/template}\n"},
	{"same short name in two namespaces: the other template's param is not declared by the callee", false, "{namespace a.x}\n/** @param p */\n{template .item}\n{$p}{call b.y.item}{param p: $p /}{/call}\n{/template}\n=====\n{namespace b.y}\n/** @param q */\n{template .item}\n{$q}\n{/template}\n"},
	{"aliased callee, all required params passed", true, "{namespace a.x}\n{alias b.y}\n/** @param p */\n{template .main}\n{call y.item}{param q: $p /}{/call}\n{/template}\n=====\n{namespace b.y}\n/** @param q */\n{template .item}\n{$q}\n{/template}\n"},
	{"aliased callee, required param missing", false, "{namespace a.x}\n{alias b.y}\n/** @param p */\n{template .main}\n{$p}{call y.item /}\n{/template}\n=====\n{namespace b.y}\n/** @param q */\n{template .item}\n{$q}\n{/template}\n"},
	{"aliased callee that does not exist", false, "{namespace a.x}\n{alias b.y}\n/** @param p */\n{template .main}\n{$p}{call y.nope /}\n{/template}\n=====\n{namespace b.y}\n/** @param q */\n{template .item}\n{$q}\n{/template}\n"},
	{"undeclared name in a print directive argument", false, "{namespace ns}\n/** @param p */\n{template .t}\n{$p|truncate:$n}\n{/template}\n"},
	{"undeclared name in css", false, "{namespace ns}\n/** @param p */\n{template .t}\n{$p}{css $c, foo}\n{/template}\n"},
	{"undeclared name in a quoted data expression", false, "{namespace ns}\n/** @param p */\n{template .t}\n{$p}{call .u data=\"$m\" /}\n{/template}\n/** @param? q */\n{template .u}\n{if $q}y{/if}\n{/template}\n"},
	{"undeclared name in a msg placeholder", false, "{namespace ns}\n/** @param p */\n{template .t}\n{msg desc=\"d\"}{$p} and {$zz}{/msg}\n{/template}\n"},
	{"undeclared name in plural", false, "{namespace ns}\n/** @param p */\n{template .t}\n{msg desc=\"d\"}{plural $n}{case 1}one{default}{$p}{/plural}{/msg}\n{/template}\n"},
	{"let re-bound before it is used", false, "{namespace ns}\n/** @param p */\n{template .t}\n{$p}{let $x: 1 /}{let $x: 2 /}{$x}\n{/template}\n"},
	{"let used, then re-bound and used", true, "{namespace ns}\n/** @param p */\n{template .t}\n{$p}{let $x: 1 /}{$x}{let $x: 2 /}{$x}\n{/template}\n"},
	{"let shadowed by a loop variable and never used", false, "{namespace ns}\n/** @param p */\n{template .t}\n{$p}{let $x: 1 /}{foreach $x in [1]}{$x}{/foreach}\n{/template}\n"},
	{"let used by the list of a loop over the same name", true, "{namespace ns}\n/** @param p */\n{template .t}\n{$p}{let $x: [1] /}{foreach $x in $x}{$x}{/foreach}\n{/template}\n"},
	{"let of an inner block re-binding an outer let that is used later", true, "{namespace ns}\n/** @param p */\n{template .t}\n{let $x: 1 /}{if $p}{let $x: 2 /}{$x}{/if}{$x}\n{/template}\n"},
	{"param named ij is never used by $ij", false, "{namespace ns}\n/** @param ij */\n{template .t}\n{$ij.k}\n{/template}\n"},
	{"$ij needs no declaration", true, "{namespace ns}\n/** @param p */\n{template .t}\n{$p}{$ij.k}\n{/template}\n"},
	{"index of an outer loop variable inside an inner loop", true, "{namespace ns}\n/** @param p */\n{template .t}\n{foreach $i in $p}{foreach $j in [1]}{index($i)}{$j}{/foreach}{/foreach}\n{/template}\n"},
	{"index of a loop variable after its loop", false, "{namespace ns}\n/** @param p */\n{template .t}\n{foreach $i in $p}{$i}{/foreach}{index($i)}\n{/template}\n"},
	{"index of a loop variable in ifempty", false, "{namespace ns}\n/** @param p */\n{template .t}\n{foreach $i in $p}{$i}{ifempty}{index($i)}{/foreach}\n{/template}\n"},
	{"data expr does not excuse an undeclared explicit param", false, "{namespace ns}\n/** @param p */\n{template .t}\n{call .u data=\"$p\"}{param zz: 1 /}{/call}\n{/template}\n/** @param q */\n{template .u}\n{$q}\n{/template}\n"},
	{"data=all with an explicit param for what the caller does not declare", true, "{namespace ns}\n/** @param p */\n{template .t}\n{call .u data=\"all\"}{param q: 1 /}{/call}\n{/template}\n/** @param p\n @param q */\n{template .u}\n{$p}{$q}\n{/template}\n"},
	{"data=all under a let of the forwarded name: the param is still forwarded and used", true, "{namespace ns}\n/** @param p */\n{template .t}\n{let $p: 1 /}{$p}{call .u data=\"all\" /}\n{/template}\n/** @param p */\n{template .u}\n{$p}\n{/template}\n"},
	{"data=all does not forward a let", false, "{namespace ns}\n/** @param p */\n{template .t}\n{$p}{let $q: 1 /}{$q}{call .u data=\"all\" /}\n{/template}\n/** @param q */\n{template .u}\n{$q}\n{/template}\n"},
	{"cross-file call by full name, all required params passed", true, "{namespace a.x}\n/** @param p */\n{template .main}\n{call b.y.item}{param q: $p /}{/call}\n{/template}\n=====\n{namespace b.y}\n/** @param q\n @param? r */\n{template .item}\n{$q}{if $r}y{/if}\n{/template}\n"},
	{"cross-file call by full name, required param missing", false, "{namespace a.x}\n/** @param p */\n{template .main}\n{$p}{call b.y.item}{param r: 1 /}{/call}\n{/template}\n=====\n{namespace b.y}\n/** @param q\n @param? r */\n{template .item}\n{$q}{if $r}y{/if}\n{/template}\n"},
	{"cross-file data=all forwards what the caller declares", true, "{namespace a.x}\n/** @param q */\n{template .main}\n{call b.y.item data=\"all\" /}\n{/template}\n=====\n{namespace b.y}\n/** @param q */\n{template .item}\n{$q}\n{/template}\n"},
	{"cross-file: the callee is defined in a later file", true, "{namespace a.x}\n/** @param p */\n{template .main}\n{call a.x.late}{param q: $p /}{/call}\n{/template}\n=====\n{namespace a.x}\n/** @param q */\n{template .late}\n{$q}\n{/template}\n"},
	{"cross-file: relative call to a template of the same namespace in another file", true, "{namespace a.x}\n/** @param p */\n{template .main}\n{call .late}{param q: $p /}{/call}\n{/template}\n=====\n{namespace a.x}\n/** @param q */\n{template .late}\n{$q}\n{/template}\n"},
	{"cross-file: relative call does not reach another namespace", false, "{namespace a.x}\n/** @param p */\n{template .main}\n{$p}{call .item /}\n{/template}\n=====\n{namespace b.y}\n{template .item}\nx\n{/template}\n"},
	{"cross-file: template name defined in two files", false, "{namespace a.x}\n/** @param p */\n{template .t}\n{$p}\n{/template}\n=====\n{namespace a.x}\n/** @param p */\n{template .t}\n{$p}\n{/template}\n"},
	{"cross-file: a violation in the second file only", false, "{namespace a.x}\n/** @param p */\n{template .t}\n{$p}\n{/template}\n=====\n{namespace b.y}\n/** @param p */\n{template .t}\n{$zz}{$p}\n{/template}\n"},
	{"let inside msg", true, "{namespace ns}\n/** @param p */\n{template .t}\n{msg desc=\"d\"}{$p} and {$p}{/msg}\n{/template}\n"},
}

func runC07(e *env) {
	e.res.Rule = "bundles from the command grammar (depth<=3, 1-5 templates, soydoc or header params, optional params, all call forms; half with every call passing every callee param) parsed by robfig/soy; each of the single-rule violations (undeclared name, use after the block, use before definition, loop variable outside its loop, unused param, unused let, let named ij, undeclared call param, missing required param, unknown callee, soydoc+header params, header param not at head, loop function on a non-loop variable, loop function inside a loop on anything but one plain loop variable) injected at every applicable site of the parsed tree and printed back to source. Real compiler vs Coq model of Registry.Add+CheckDataRefs vs Spec wf_bundle; renders of every template of accepted bundles with all declared params supplied count unbound lookups through the hook. Distinct by source text."
	if e.replay != "" {
		c07Replay(e)
		return
	}
	ids := newIDTable()
	// fixed corpus first
	{
		var pend []c07Pending
		var reqs []string
		for _, c := range c07Corpus {
			var files []srcFile
			for j, part := range strings.Split(c.src, "\n=====\n") {
				files = append(files, srcFile{fmt.Sprintf("corpus%d.soy", j), part})
			}
			trees, err := c07Parse(files)
			if err != nil {
				e.res.Fail(hx.Violation{Kind: "mismatch", What: "corpus case does not parse: " + c.name, Case: c07Case{Files: files}, Observed: err.Error()}, "")
				continue
			}
			inj := ""
			if !c.valid {
				inj = "corpus: " + c.name
				if strings.HasPrefix(c.name, "index of a param") || strings.HasPrefix(c.name, "isLast of a let") {
					inj = "loopfunc-on-nonloop"
				}
			}
			pend = append(pend, c07Pending{c: c07Case{Files: files, Injected: inj, Site: c.name}, valid: c.valid, realErr: c07Compile(files)})
			reqs = append(reqs, "c07_compile "+c07FilesSexp(trees, ids))
			e.res.Count(c.src, true, "corpus")
		}
		c07Judge(e, pend, reqs)
	}

	n := 100 * e.scale
	for i := 0; i < n; i++ {
		var tmpls []*gtemplate
		o := progOpts{depth: 3, directives: true, allParams: true, totalCalls: i%2 == 0, onTemplates: func(ts []*gtemplate) { tmpls = ts },
			headerDefaults: true, dupShort: i%3 == 0, aliases: i%4 < 2, scope: i%5 == 1 || i%5 == 3}
		files, _, _, feats := genBundle(e.rng, o)
		for f := range feats {
			e.res.Histogram["feat:"+f]++
		}
		e.res.Histogram[fmt.Sprintf("bundle:files=%d", min(len(files), 4))]++
		{
			nsOf := map[string]bool{}
			for _, t := range tmpls {
				nsOf[t.ns] = true
			}
			e.res.Histogram[fmt.Sprintf("bundle:namespaces=%d", min(len(nsOf), 4))]++
		}
		trees, err := c07Parse(files)
		if err != nil {
			e.res.Histogram["generated-bundle-does-not-parse"]++
			continue
		}
		var pend []c07Pending
		var reqs []string
		// (a) the bundle as generated, and as printed back from its tree
		pend = append(pend, c07Pending{c: c07Case{Files: files}, valid: true, realErr: c07Compile(files)})
		reqs = append(reqs, "c07_compile "+c07FilesSexp(trees, ids))
		e.res.Count(fmt.Sprint(files), true, "valid")
		var re []srcFile
		for _, t := range trees {
			re = append(re, srcFile{t.Name, c07FileSrc(t)})
		}
		if rt, err := c07Parse(re); err != nil {
			e.res.Fail(hx.Violation{Kind: "mismatch", What: "harness: the printed tree of a valid bundle does not parse", Case: c07Case{Files: re}, Observed: err.Error()}, "")
		} else if c07ShapeOf(rt) != c07ShapeOf(trees) {
			e.res.Fail(hx.Violation{Kind: "mismatch", What: "harness: the printed tree of a valid bundle parses to a different tree (source printer of c07.go)", Case: c07Case{Files: re}, Observed: c07ShapeOf(rt) + "\n=====\n" + c07ShapeOf(trees)}, "")
		} else {
			pend = append(pend, c07Pending{c: c07Case{Files: re}, valid: true, realErr: c07Compile(re)})
			reqs = append(reqs, "c07_compile "+c07FilesSexp(rt, ids))
			e.res.Count(fmt.Sprint(re), true, "valid-reprinted")
		}
		if pend[0].realErr == nil {
			c07Render(e, files, tmpls, o, trees)
		}
		// (b) every violation at every site
		nsites := len(c07Sites(trees))
		for k := 0; k < nsites; k++ {
			fresh, err := c07Parse(files)
			if err != nil {
				break
			}
			sites := c07Sites(fresh)
			if k >= len(sites) {
				break
			}
			s := sites[k]
			s.apply()
			mshape := c07ShapeOf(fresh)
			var mf []srcFile
			for _, t := range fresh {
				mf = append(mf, srcFile{t.Name, c07FileSrc(t)})
			}
			mt, err := c07Parse(mf)
			c := c07Case{Files: mf, Injected: s.kind, Site: s.where}
			if err != nil {
				e.res.Fail(hx.Violation{Kind: "mismatch", What: "harness: a mutated tree does not print to parsable source", Case: c, Observed: err.Error()}, "")
				continue
			}
			if got := c07ShapeOf(mt); got != mshape {
				e.res.Histogram["mutated-tree-reparses-differently"]++
			}
			pend = append(pend, c07Pending{c: c, valid: false, realErr: c07Compile(mf)})
			reqs = append(reqs, "c07_compile "+c07FilesSexp(mt, ids))
			e.res.Count(fmt.Sprint(mf), true, "inject:"+s.kind)
			e.res.Histogram["site:"+s.kind+"@"+s.where]++
			if i == 0 && k%37 == 0 {
				e.res.Sample(map[string]interface{}{"injected": s.kind, "site": s.where, "files": mf, "compiler": errStr(pend[len(pend)-1].realErr)})
			}
		}
		c07Judge(e, pend, reqs)
	}
}

// c07Replay re-judges the bundle of a replay file.
func c07Replay(e *env) {
	bs, err := os.ReadFile(e.replay)
	if err != nil {
		e.res.Fail(hx.Violation{Kind: "obligation", What: "cannot read replay: " + err.Error(), Case: e.replay}, "")
		return
	}
	var rp struct {
		Case c07Case `json:"case"`
	}
	if err := json.Unmarshal(bs, &rp); err != nil || len(rp.Case.Files) == 0 {
		e.res.Fail(hx.Violation{Kind: "obligation", What: "replay file has no bundle", Case: e.replay}, "")
		return
	}
	trees, err := c07Parse(rp.Case.Files)
	if err != nil {
		e.res.Note("the replayed bundle does not parse: %v", err)
		return
	}
	ids := newIDTable()
	e.res.Count("replay", true, "replay")
	wfr := e.m.Call("c07_compile", c07FilesSexp(trees, ids))
	valid := len(wfr) > 1 && wfr[1] == "#1"
	c07Judge(e, []c07Pending{{c: rp.Case, valid: valid, realErr: c07Compile(rp.Case.Files)}}, []string{"c07_compile " + c07FilesSexp(trees, ids)})
	if rp.Case.Template != "" && valid {
		// a render case: all templates are rendered again with generated data
		e.res.Note("render replays re-run the compile judgment only; run the seed for the render")
	}
}
