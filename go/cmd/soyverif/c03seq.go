//go:build c03

package main

// C03, "effective mode ... re-derived for each callee": the autoescape mode is a
// property of the template that CONTAINS the print, so a print that follows a call
// (in the caller, in a param block, two levels up) must be escaped according to its
// own template's mode, whatever modes the callees ran under.  All 4x4x4x4
// combinations of namespace/template attributes of caller and callee, a three-level
// call chain, prints before, between and after the calls.

import (
	"fmt"
	"strings"

	"github.com/robfig/soy/data"
	"soyverif/internal/hx"
)

func c03Esc(s string) string {
	return strings.NewReplacer("&", "&amp;", "<", "&lt;", ">", "&gt;", "\"", "&#34;", "'", "&#39;").Replace(s)
}

func c03ModeSequences(e *env) {
	values := []string{"<b>&'\"", "a<b"}
	for idx := 0; idx < 256; idx++ {
		ns1, tm1 := c03Attrs[idx%4], c03Attrs[(idx/4)%4]
		ns2, tm2 := c03Attrs[(idx/16)%4], c03Attrs[(idx/64)%4]
		// leaf uses the rotated pair so that all three levels differ
		ns3, tm3 := c03Attrs[(idx/16+idx)%4], c03Attrs[(idx/4+idx/64+1)%4]
		m1 := modeOf(attrCodes[ns1], attrCodes[tm1], false)
		m2 := modeOf(attrCodes[ns2], attrCodes[tm2], true)
		m3 := modeOf(attrCodes[ns3], attrCodes[tm3], true)
		f1 := "{namespace s.a" + attrSrc(ns1) + "}\n/** @param x */\n{template .main" + attrSrc(tm1) + "}\n" +
			"1[{$x}]{call s.b.mid data=\"all\"/}2[{$x}]{call s.c.leaf data=\"all\"/}3[{$x}]" +
			"{call s.c.show}{param y}{call s.c.leaf data=\"all\"/}4[{$x}]{/param}{/call}5[{$x}]{let $z}{call s.b.mid data=\"all\"/}6[{$x}]{/let}7[{$x}]{if not $z}8{/if}\n{/template}\n"
		f2 := "{namespace s.b" + attrSrc(ns2) + "}\n/** @param x */\n{template .mid" + attrSrc(tm2) + "}\n" +
			"m[{$x}]{call s.c.leaf data=\"all\"/}n[{$x}]\n{/template}\n"
		f3 := "{namespace s.c" + attrSrc(ns3) + "}\n/** @param x */\n{template .leaf" + attrSrc(tm3) + "}\nl[{$x}]\n{/template}\n" +
			"/** @param y */\n{template .show autoescape=\"false\"}\ns[{$y}]\n{/template}\n"
		files := []srcFile{{"a.soy", f1}, {"b.soy", f2}, {"c.soy", f3}}
		tofu, err := compile(files)
		if err != nil {
			e.res.Fail(hx.Violation{Kind: "oracle", What: "generated C03 mode-sequence bundle does not compile", Case: files, Observed: errStr(err)}, "")
			continue
		}
		for _, v := range values {
			out, rerr := render(tofu, "s.a.main", data.Map{"x": data.String(v)}, nil)
			p := func(mode int64) string {
				if mode == 2 {
					return "[" + v + "]"
				}
				return "[" + c03Esc(v) + "]"
			}
			mid := "m" + p(m2) + "l" + p(m3) + "n" + p(m2)
			want := "1" + p(m1) + mid + "2" + p(m1) + "l" + p(m3) + "3" + p(m1) +
				"s[" + "l" + p(m3) + "4" + p(m1) + "]" + "5" + p(m1) + "7" + p(m1)
			key := fmt.Sprintf("seq|%s|%s|%s|%s|%s|%s|%q", ns1, tm1, ns2, tm2, ns3, tm3, v)
			e.res.Count(key, true, "tmpl:mode-sequence")
			cs := map[string]interface{}{"kind": "mode-sequence", "files": files, "template": "s.a.main", "x": hx.Q(v),
				"modes": fmt.Sprintf("caller=%d mid=%d leaf=%d (2 = off)", m1, m2, m3)}
			if idx == 37 && v == values[0] {
				e.res.Sample(map[string]interface{}{"kind": "mode-sequence", "files": files, "x": hx.Q(v), "output": hx.Q(out)})
			}
			if rerr != nil || out != want {
				e.res.Fail(hx.Violation{Kind: "oracle", What: "a print is not escaped according to the effective autoescape mode of the template that contains it (prints before/after calls into templates of other modes)",
					Case: cs, Expected: hx.Q(want), Observed: hx.Q(out) + " " + errStr(rerr)}, "")
			}
		}
	}
}
