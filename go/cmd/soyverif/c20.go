//go:build c20

package main

// C20 — Go values convert faithfully to Soy data and the value laws hold.
//
//  (1) conversion: random nested Go values built with reflect over every kind
//      the converter accepts (and some it rejects), under both LowerCamel
//      settings.  Correspondence: data.NewWith vs the model's convert, compared
//      up to a renaming of fresh identities; a panic must be the model's Err.
//      Oracles (independent of the model): the Go value and the Soy value are
//      walked in parallel (same structure, same scalars, lowerCamel keys,
//      unexported fields absent); converting the result again returns the
//      identical value; JSON-like inputs never panic.
//  (2) laws on the produced values (all pairs of a pool): Equals symmetric,
//      Int/Float compared numerically, reflexive on non-NaN scalars, the
//      truthiness table, String() stable over 20 calls (Go randomises map
//      iteration).  Correspondence with the model's truthy/equals/value_string.
//  (3) probes (reported as notes, never as failures): inputs on which the
//      converter is irregular and that the model leaves OutOfModel.

import (
	"encoding/json"
	"fmt"
	"math"
	"math/big"
	"os"
	"reflect"
	"sort"
	"strconv"
	"strings"
	"time"
	"unicode"
	"unicode/utf8"
	"unsafe"

	"github.com/robfig/soy/data"
	"soyverif/internal/hx"
)

func init() { props["C20"] = runC20 }

const c20TimeFormat = time.RFC3339Nano

// ---------- Go types the generator draws from ----------

type c20MyInt int16
type c20MyUint uint64
type c20MyFloat float32
type c20MyStr string
type c20MyBool bool
type c20MySlice []interface{}
type c20MyMap map[c20MyStr]interface{}

// C20MarshalV implements data.Marshaler with a value receiver.
type C20MarshalV struct {
	V      data.Value
	Ignore int
}

func (m C20MarshalV) MarshalValue() data.Value { return m.V }

// C20MarshalP implements data.Marshaler with a pointer receiver.
type C20MarshalP struct{ V data.Value }

func (m *C20MarshalP) MarshalValue() data.Value { return m.V }

// Named NON-struct types that implement data.Marshaler with a value receiver: a conversion that dispatches on the kind
// before it asks for a Marshaler ignores them (seeded change C20b-1: a fast path for slices of scalars).
type C20Level int

func (l C20Level) MarshalValue() data.Value { return data.String("level-" + strconv.Itoa(int(l))) }

type C20Flag bool

func (f C20Flag) MarshalValue() data.Value {
	if f {
		return data.Int(1)
	}
	return data.Int(0)
}

type C20Tag string

func (t C20Tag) MarshalValue() data.Value { return data.String("#" + string(t)) }

type C20Ratio float64

func (r C20Ratio) MarshalValue() data.Value { return data.Float(float64(r) * 100) }

type C20Items []int32

func (l C20Items) MarshalValue() data.Value { return data.Int(len(l)) }

type C20Inner struct {
	A int8
	B string
	c bool
	D []interface{}
}
type c20hidden struct {
	Z int
	Y string
}
type C20PtrEmb struct{ P float32 }
type C20Outer struct {
	C20Inner
	*C20PtrEmb
	c20hidden
	Name   string
	URL    *string
	Ünï    uint16
	Any    interface{}
	M      map[string]interface{}
	T      time.Time
	TP     *time.Time
	V      data.Value
	Mar    C20MarshalV
	hidden chan int
	Ωmega  []float64
	ID     uint64
	K      int // U+212A KELVIN SIGN: lowers to the ASCII k
	K      int
}
type C20Small struct {
	X, Y int
	next *C20Small
}
type C20Empty struct{}
type c20AllHidden struct {
	a int
	b func()
}

var (
	c20EmptyIface      = reflect.TypeOf((*interface{})(nil)).Elem()
	c20ValueIface      = reflect.TypeOf((*data.Value)(nil)).Elem()
	c20MarshalIface    = reflect.TypeOf((*data.Marshaler)(nil)).Elem()
	c20TimeType        = reflect.TypeOf(time.Time{})
	c20MarshalVType    = reflect.TypeOf(C20MarshalV{})
	c20MarshalPType    = reflect.TypeOf(&C20MarshalP{})
	c20PlainMarshalers = []reflect.Type{reflect.TypeOf(C20Level(0)), reflect.TypeOf(C20Flag(false)), reflect.TypeOf(C20Tag("")), reflect.TypeOf(C20Ratio(0)), reflect.TypeOf(C20Items(nil))}
	c20ScalarTypes     = []reflect.Type{
		reflect.TypeOf(false), reflect.TypeOf(int(0)), reflect.TypeOf(int8(0)), reflect.TypeOf(int16(0)), reflect.TypeOf(int32(0)), reflect.TypeOf(int64(0)),
		reflect.TypeOf(uint(0)), reflect.TypeOf(uint8(0)), reflect.TypeOf(uint16(0)), reflect.TypeOf(uint32(0)), reflect.TypeOf(uint64(0)),
		reflect.TypeOf(float32(0)), reflect.TypeOf(float64(0)), reflect.TypeOf(""),
		reflect.TypeOf(c20MyInt(0)), reflect.TypeOf(c20MyUint(0)), reflect.TypeOf(c20MyFloat(0)), reflect.TypeOf(c20MyStr("")), reflect.TypeOf(c20MyBool(false)),
		c20TimeType,
	}
	c20StaticStructs = []reflect.Type{reflect.TypeOf(C20Outer{}), reflect.TypeOf(C20Inner{}), reflect.TypeOf(C20Small{}), reflect.TypeOf(C20Empty{}),
		reflect.TypeOf(c20AllHidden{}), reflect.TypeOf(C20PtrEmb{})}
	c20UnsupportedTypes = []reflect.Type{reflect.TypeOf(make(chan int)), reflect.TypeOf(func() {}), reflect.TypeOf([2]int{}), reflect.TypeOf(complex128(0)),
		reflect.TypeOf(uintptr(0)), reflect.TypeOf(unsafe.Pointer(nil)), reflect.TypeOf(complex64(0))}
	c20BadKeyTypes = []reflect.Type{reflect.TypeOf(0), reflect.TypeOf(false), c20EmptyIface, reflect.TypeOf(1.5), reflect.TypeOf([1]string{})}
	c20ValueTypes  = []reflect.Type{reflect.TypeOf(data.Int(0)), reflect.TypeOf(data.Float(0)), reflect.TypeOf(data.String("")), reflect.TypeOf(data.Bool(false)),
		reflect.TypeOf(data.Null{}), reflect.TypeOf(data.Undefined{}), reflect.TypeOf(data.List{}), reflect.TypeOf(data.Map{})}
)

// ---------- description of a generated Go value (ground truth for the oracle) ----------

type c20Node struct {
	kind     string // nil bool int uint float str time slice map badmap struct ptr iface marshal value unsupported
	width    int
	b        bool
	i        int64
	u        uint64
	f        float64
	s        string
	isNil    bool
	elems    []*c20Node // slice elements / map values / field values
	keys     []string   // map keys / field names (parallel to elems)
	exported []bool
	embedded []bool
	n        int        // badmap: number of entries
	val      data.Value // marshal / value
	ptrRecv  bool       // marshal: the marshaler is the pointer type itself
	under    *c20Node   // marshal: the same Go value as reflection sees it when MarshalValue is not consulted (a struct)
	nilTo    string     // nil ptr: "marshal" = the element type is a value-receiver Marshaler, "value" = one of the data.Value types
	rv       reflect.Value
}

type c20Gen struct {
	r      *hx.Rand
	ids    *idTable      // identities of the data.Values placed inside inputs
	pool   []data.Value  // existing collections that may be reused (shared identity)
	lower  map[rune]rune // tablegen's ToLower sample (runes the model knows)
	uppers []rune        // sample runes that are upper case (exported first letters)
	others []rune        // sample runes that are letters but not upper case
}

func (g *c20Gen) sexp(n *c20Node) string {
	switch n.kind {
	case "nil":
		return "gnil"
	case "bool":
		return "(gb " + b01(n.b) + ")"
	case "int":
		return fmt.Sprintf("(gi %d %d)", n.width, n.i)
	case "uint":
		return fmt.Sprintf("(gu %d %d)", n.width, n.u)
	case "float":
		return fmt.Sprintf("(gf %d %s)", n.width, flSexp(n.f))
	case "str":
		return "(gs " + sx(n.s) + ")"
	case "time":
		return "(gt " + sx(n.s) + ")"
	case "slice":
		if n.isNil {
			return "gslicenil"
		}
		parts := []string{"gslice"}
		for _, c := range n.elems {
			parts = append(parts, g.sexp(c))
		}
		return "(" + strings.Join(parts, " ") + ")"
	case "map":
		if n.isNil {
			return "gmapnil"
		}
		ix := make([]int, len(n.keys))
		for i := range ix {
			ix[i] = i
		}
		sort.Slice(ix, func(a, c int) bool { return n.keys[ix[a]] < n.keys[ix[c]] })
		parts := []string{"gmap"}
		for _, i := range ix {
			parts = append(parts, "("+sx(n.keys[i])+" "+g.sexp(n.elems[i])+")")
		}
		return "(" + strings.Join(parts, " ") + ")"
	case "badmap":
		return fmt.Sprintf("(gbadmap %d)", n.n)
	case "struct":
		parts := []string{"gstruct"}
		for i, c := range n.elems {
			parts = append(parts, "("+sx(n.keys[i])+" "+b01(n.exported[i])+" "+b01(n.embedded[i])+" "+g.sexp(c)+")")
		}
		return "(" + strings.Join(parts, " ") + ")"
	case "ptr":
		if n.isNil {
			switch n.nilTo {
			case "marshal":
				return "(gnilptrto 1)"
			case "value":
				return "(gnilptrto 0)"
			}
			return "gptrnil"
		}
		return "(gptr " + g.sexp(n.elems[0]) + ")"
	case "iface":
		if n.isNil {
			return "gifacenil"
		}
		return "(giface " + g.sexp(n.elems[0]) + ")"
	case "marshal":
		if n.ptrRecv {
			// the Marshaler is the pointer type *C20MarshalP
			return "(gptr (gmarshal " + valueSexp(n.val, g.ids) + " " + g.sexp(n.under) + "))"
		}
		return "(gmarshal " + valueSexp(n.val, g.ids) + " " + g.sexp(n.under) + ")"
	case "value":
		return "(gval " + valueSexp(n.val, g.ids) + ")"
	}
	return "gunsupported"
}

// irregular mirrors Spec/ConvertSpec.v ptr_to_value: somewhere NewWith looks at the dynamic type of a POINTER (nil or
// not) to one of the data.Value types and returns that pointer as a data.Value (the model answers OutOfModel there).
func c20Irregular(n *c20Node, ctx int) bool { // ctx: 0 slot, 1 one pointer below, 2 deeper
	down := func(ctx int) int {
		if ctx == 0 {
			return 1
		}
		return 2
	}
	switch n.kind {
	case "ptr":
		if n.isNil {
			return n.nilTo == "value" && ctx == 0
		}
		return c20Irregular(n.elems[0], down(ctx))
	case "iface":
		if n.isNil {
			return false
		}
		nc := 2
		if ctx == 0 {
			nc = 0
		}
		return c20Irregular(n.elems[0], nc)
	case "marshal":
		if n.ptrRecv {
			ctx = down(ctx)
		}
		return ctx == 2 && c20Irregular(n.under, 2)
	case "value":
		return ctx == 1
	case "slice", "map":
		for _, c := range n.elems {
			if c20Irregular(c, 0) {
				return true
			}
		}
	case "struct":
		for i, c := range n.elems {
			if n.exported[i] && c20Irregular(c, 0) {
				return true
			}
		}
	}
	return false
}

// expectPanic: does the description contain, in a converted position, a kind the converter rejects?
func c20ExpectPanic(n *c20Node) bool { return c20ExpectPanicAt(n, 0, false) }

// nilMarshaler: trigger of known finding nil-marshaler-panics -- where NewWith looks at the dynamic type there is a nil
// pointer to a value-receiver Marshaler (the pinned tree calls MarshalValue through it; notes/pending/C20-nil-marshaler.diff)
func c20NilMarshaler(n *c20Node) bool { return c20ExpectPanicAt(n, 0, true) }

func c20ExpectPanicAt(n *c20Node, ctx int, nilMar bool) bool {
	down := func(ctx int) int {
		if ctx == 0 {
			return 1
		}
		return 2
	}
	switch n.kind {
	case "unsupported":
		return !nilMar
	case "badmap":
		return !nilMar && n.n > 0
	case "ptr":
		if n.isNil {
			return nilMar && n.nilTo == "marshal" && ctx == 0
		}
		return c20ExpectPanicAt(n.elems[0], down(ctx), nilMar)
	case "iface":
		if n.isNil {
			return false
		}
		nc := 2
		if ctx == 0 {
			nc = 0
		}
		return c20ExpectPanicAt(n.elems[0], nc, nilMar)
	case "marshal":
		if n.ptrRecv {
			ctx = down(ctx)
		}
		return ctx == 2 && c20ExpectPanicAt(n.under, 2, nilMar)
	case "slice", "map":
		for _, c := range n.elems {
			if c20ExpectPanicAt(c, 0, nilMar) {
				return true
			}
		}
	case "struct":
		for i, c := range n.elems {
			if n.exported[i] && c20ExpectPanicAt(c, 0, nilMar) {
				return true
			}
		}
	}
	return false
}

// marshalUnder describes C20MarshalV{V: v, Ignore: ig} / C20MarshalP{V: v} as the plain structs they are.
func marshalUnder(v data.Value, ig int, withIgnore bool) *c20Node {
	vn := &c20Node{kind: "iface", elems: []*c20Node{{kind: "value", val: v, rv: reflect.ValueOf(v)}}}
	u := &c20Node{kind: "struct", keys: []string{"V"}, exported: []bool{true}, embedded: []bool{false}, elems: []*c20Node{vn}}
	if withIgnore {
		u.keys = append(u.keys, "Ignore")
		u.exported = append(u.exported, true)
		u.embedded = append(u.embedded, false)
		u.elems = append(u.elems, &c20Node{kind: "int", width: 64, i: int64(ig)})
	}
	return u
}

// ---------- generator ----------

var c20Ints = []int64{0, 1, -1, 2, 7, -8, 42, 127, -128, 255, 256, 32767, -32768, 65535, 1 << 31, -(1 << 31), (1 << 31) - 1, 1 << 32,
	1 << 53, (1 << 53) - 1, (1 << 53) + 1, -(1 << 53), -(1 << 53) - 1, math.MaxInt64, math.MinInt64, math.MaxInt64 - 1, 1e15, 123456789}
var c20Uints = []uint64{0, 1, 2, 255, 256, 65535, 65536, 1<<32 - 1, 1 << 32, 1 << 53, 1<<63 - 1, 1 << 63, 1<<63 + 1, math.MaxUint64, math.MaxUint64 - 1, 1<<64 - 1<<10}
var c20Floats = []float64{0, math.Copysign(0, -1), 1, -1, 0.5, -0.25, 1.5, 3, 100, 1e6, 999999, 123456.75, 1 << 53, (1 << 53) + 2, -(1 << 53), 1e100, -1e-100,
	math.MaxFloat64, -math.MaxFloat64, math.SmallestNonzeroFloat64, math.MaxFloat32, math.SmallestNonzeroFloat32, math.Inf(1), math.Inf(-1), math.NaN(),
	0.1, 1.0 / 3, 2.5e-7, 4294967296, 9.5, 1e15, -7}
var c20Strs = []string{"", "a", "0", "false", "null", "hello world", "é", "日本語", "\x00", "\xff\xfe", "a\x80b", "<b>&'\"", "line\nbreak", "k: v, x", " ", "\U0001F600"}

func (g *c20Gen) randString() string {
	if g.r.Chance(60) {
		return g.r.Pick(c20Strs)
	}
	n := g.r.Intn(12)
	bs := make([]byte, n)
	for i := range bs {
		if g.r.Chance(70) {
			bs[i] = byte(32 + g.r.Intn(95))
		} else {
			bs[i] = byte(g.r.Intn(256))
		}
	}
	return string(bs)
}

func (g *c20Gen) randKey() string {
	if g.r.Chance(50) {
		return g.r.Pick([]string{"a", "b", "ab", "a ", "a:", "a: b", "k", "key", "", "Name", "name", "é", "\xff", "z", "a\x00", "0", "10", "9"})
	}
	return g.randString()
}

func c20IntRange(bits int) (int64, int64) {
	if bits == 64 {
		return math.MinInt64, math.MaxInt64
	}
	return -(1 << (bits - 1)), (1 << (bits - 1)) - 1
}

func (g *c20Gen) randInt(bits int) int64 {
	lo, hi := c20IntRange(bits)
	switch g.r.Intn(4) {
	case 0:
		return []int64{lo, hi, lo + 1, hi - 1, 0, 1, -1}[g.r.Intn(7)]
	case 1:
		v := c20Ints[g.r.Intn(len(c20Ints))]
		if v >= lo && v <= hi {
			return v
		}
		return 0
	default:
		v := int64(g.r.U64())
		if bits < 64 {
			v >>= uint(64 - bits)
		}
		if g.r.Chance(50) {
			v %= 1000
		}
		return v
	}
}

func (g *c20Gen) randUint(bits int) uint64 {
	max := uint64(math.MaxUint64)
	if bits < 64 {
		max = 1<<uint(bits) - 1
	}
	switch g.r.Intn(4) {
	case 0:
		return []uint64{0, 1, max, max - 1, max/2 + 1, max / 2}[g.r.Intn(6)]
	case 1:
		v := c20Uints[g.r.Intn(len(c20Uints))]
		if v <= max {
			return v
		}
		return max
	default:
		v := g.r.U64()
		if bits < 64 {
			v >>= uint(64 - bits)
		}
		if g.r.Chance(50) {
			v %= 1000
		}
		return v
	}
}

func (g *c20Gen) randFloat(bits int) float64 {
	var f float64
	switch g.r.Intn(4) {
	case 0, 1:
		f = c20Floats[g.r.Intn(len(c20Floats))]
	case 2:
		f = float64(g.r.Intn(4001)-2000) / float64(int(1)<<uint(g.r.Intn(8)))
	default:
		f = math.Float64frombits(g.r.U64())
	}
	if bits == 32 {
		f = float64(float32(f))
	}
	return f
}

func (g *c20Gen) randTime() time.Time {
	secs := int64(g.r.Intn(4_000_000_000)) - 1_000_000_000
	ns := int64(0)
	if g.r.Chance(50) {
		ns = int64(g.r.Intn(1_000_000_000))
	}
	t := time.Unix(secs, ns)
	switch g.r.Intn(3) {
	case 0:
		return t.UTC()
	case 1:
		return t.In(time.FixedZone("", (g.r.Intn(27)-12)*3600+g.r.Intn(2)*1800))
	}
	return t.In(time.FixedZone("X", 0))
}

// randDataValue builds an existing data.Value (what a caller may already hold).
func (g *c20Gen) randDataValue(depth int) data.Value {
	if len(g.pool) > 0 && g.r.Chance(15) {
		return g.pool[g.r.Intn(len(g.pool))]
	}
	k := g.r.Intn(12)
	if depth <= 0 && k >= 8 {
		k = g.r.Intn(8)
	}
	switch k {
	case 0:
		return data.Null{}
	case 1:
		return data.Undefined{}
	case 2:
		return data.Bool(g.r.Bool())
	case 3:
		return data.Int(g.randInt(64))
	case 4:
		return data.Float(g.randFloat(64))
	case 5, 6:
		return data.String(g.randString())
	case 7:
		return []data.Value{data.List(nil), data.List{}, data.Map(nil), data.Map{}}[g.r.Intn(4)]
	case 8, 9:
		l := make(data.List, 1+g.r.Intn(4))
		for i := range l {
			l[i] = g.randDataValue(depth - 1)
		}
		g.pool = append(g.pool, l)
		return l
	default:
		m := data.Map{}
		for i, n := 0, g.r.Intn(5); i < n; i++ {
			m[g.randKey()] = g.randDataValue(depth - 1)
		}
		g.pool = append(g.pool, m)
		return m
	}
}

func (g *c20Gen) fieldName(exported bool) string {
	tails := []string{"", "a", "Name", "_x", "1", "é", "B2"}
	if exported {
		if g.r.Chance(55) || len(g.uppers) == 0 {
			return string(rune('A'+g.r.Intn(26))) + g.r.Pick(tails)
		}
		return string(g.uppers[g.r.Intn(len(g.uppers))]) + g.r.Pick(tails)
	}
	if g.r.Chance(60) || len(g.others) == 0 {
		return g.r.Pick([]string{"a", "z", "_", "_X", "name", "x1"}) + g.r.Pick(tails)
	}
	return string(g.others[g.r.Intn(len(g.others))]) + g.r.Pick(tails)
}

// randType draws a Go type; special = may be a Marshaler / data.Value / unsupported type.
func (g *c20Gen) randType(depth int, bad bool) reflect.Type {
	k := g.r.Intn(100)
	if depth <= 0 && k >= 45 && k < 85 {
		k = g.r.Intn(45)
	}
	switch {
	case k < 35:
		return c20ScalarTypes[g.r.Intn(len(c20ScalarTypes))]
	case k < 45:
		return c20EmptyIface
	case k < 55:
		return reflect.SliceOf(g.randType(depth-1, bad))
	case k < 63:
		kt := reflect.TypeOf("")
		if g.r.Chance(20) {
			kt = reflect.TypeOf(c20MyStr(""))
		}
		return reflect.MapOf(kt, g.randType(depth-1, bad))
	case k < 71:
		return reflect.PtrTo(g.randType(depth-1, bad))
	case k < 77:
		return c20StaticStructs[g.r.Intn(len(c20StaticStructs))]
	case k < 85:
		return g.randStructType(depth-1, bad)
	case k < 88:
		if g.r.Chance(50) {
			return c20PlainMarshalers[g.r.Intn(len(c20PlainMarshalers))]
		}
		return c20MarshalVType
	case k < 90:
		return c20MarshalPType
	case k < 93:
		return c20ValueIface
	case k < 95:
		return c20ValueTypes[g.r.Intn(len(c20ValueTypes))]
	case k < 96:
		return []reflect.Type{reflect.TypeOf(c20MySlice{}), reflect.TypeOf(c20MyMap{}), c20MarshalIface}[g.r.Intn(3)]
	}
	if !bad {
		return c20ScalarTypes[g.r.Intn(len(c20ScalarTypes))]
	}
	if g.r.Chance(50) {
		return c20UnsupportedTypes[g.r.Intn(len(c20UnsupportedTypes))]
	}
	return reflect.MapOf(c20BadKeyTypes[g.r.Intn(len(c20BadKeyTypes))], c20ScalarTypes[g.r.Intn(len(c20ScalarTypes))])
}

func (g *c20Gen) randStructType(depth int, bad bool) reflect.Type {
	n := g.r.Intn(5)
	var fs []reflect.StructField
	seen := map[string]bool{}
	for i := 0; i < n; i++ {
		exported := g.r.Chance(70)
		name := g.fieldName(exported)
		if seen[name] {
			continue
		}
		seen[name] = true
		f := reflect.StructField{Name: name}
		if exported {
			f.Type = g.randType(depth, bad)
		} else {
			f.PkgPath = "soyverif/c20"
			// skipped fields may hold anything, also kinds the converter rejects
			f.Type = g.randType(depth, true)
		}
		fs = append(fs, f)
	}
	var t reflect.Type
	func() {
		defer func() {
			if recover() != nil {
				t = reflect.TypeOf(C20Small{})
			}
		}()
		t = reflect.StructOf(fs)
	}()
	return t
}

// set stores v into the (addressable) slot, also when the slot is an unexported field.
func c20Set(slot, v reflect.Value) {
	if !slot.CanSet() {
		slot = reflect.NewAt(slot.Type(), unsafe.Pointer(slot.UnsafeAddr())).Elem()
	}
	slot.Set(v)
}

// gen builds a value of static type t.
func (g *c20Gen) gen(t reflect.Type, depth int) *c20Node {
	n := &c20Node{}
	rv := reflect.New(t).Elem()
	n.rv = rv
	switch {
	case t == c20TimeType:
		tm := g.randTime()
		rv.Set(reflect.ValueOf(tm))
		n.kind, n.s = "time", tm.Format(c20TimeFormat)
		return n
	case t == c20MarshalVType:
		v := g.randDataValue(depth)
		ig := g.r.Intn(9)
		rv.Set(reflect.ValueOf(C20MarshalV{V: v, Ignore: ig}))
		n.kind, n.val, n.under = "marshal", v, marshalUnder(v, ig, true)
		return n
	case t.Kind() != reflect.Struct && t.Kind() != reflect.Ptr && t.Kind() != reflect.Interface && t.PkgPath() != "" && t.Implements(c20MarshalIface):
		// one of the named scalar / slice Marshalers: generate the plain value, then ask it what it marshals to
		var u *c20Node
		switch t.Kind() {
		case reflect.Int:
			z := g.randInt(64)
			rv.SetInt(z)
			u = &c20Node{kind: "int", width: 64, i: z}
		case reflect.Bool:
			x := g.r.Bool()
			rv.SetBool(x)
			u = &c20Node{kind: "bool", b: x}
		case reflect.String:
			x := g.randString()
			rv.SetString(x)
			u = &c20Node{kind: "str", s: x}
		case reflect.Float64:
			x := float64(int64(g.r.Intn(4096))-2048) / float64(int64(1)<<uint(g.r.Intn(8)))
			rv.SetFloat(x)
			u = &c20Node{kind: "float", width: 64, f: x}
		default: // C20Items
			cnt := g.r.Intn(4)
			sl := reflect.MakeSlice(t, cnt, cnt)
			u = &c20Node{kind: "slice"}
			for i := 0; i < cnt; i++ {
				z := g.randInt(32)
				sl.Index(i).SetInt(z)
				u.elems = append(u.elems, &c20Node{kind: "int", width: 32, i: z})
			}
			if cnt == 0 && g.r.Bool() {
				u.isNil = true
			} else {
				rv.Set(sl)
			}
		}
		n.kind, n.val, n.under = "marshal", rv.Interface().(data.Marshaler).MarshalValue(), u
		return n
	case t == c20MarshalPType:
		v := g.randDataValue(depth)
		rv.Set(reflect.ValueOf(&C20MarshalP{V: v}))
		n.kind, n.val, n.ptrRecv, n.under = "marshal", v, true, marshalUnder(v, 0, false)
		return n
	case t.Kind() != reflect.Interface && t.Kind() != reflect.Ptr && t.Implements(c20ValueIface):
		// one of the eight data.Value types as a static type
		var v data.Value
		for tries := 0; ; tries++ {
			v = g.randDataValue(depth)
			if reflect.TypeOf(v) == t {
				break
			}
			if tries > 40 {
				v = reflect.Zero(t).Interface().(data.Value)
				break
			}
		}
		rv.Set(reflect.ValueOf(v))
		n.kind, n.val = "value", v
		return n
	}
	switch t.Kind() {
	case reflect.Bool:
		n.kind, n.b = "bool", g.r.Bool()
		rv.SetBool(n.b)
	case reflect.Int, reflect.Int8, reflect.Int16, reflect.Int32, reflect.Int64:
		n.kind, n.width = "int", t.Bits()
		n.i = g.randInt(n.width)
		rv.SetInt(n.i)
	case reflect.Uint, reflect.Uint8, reflect.Uint16, reflect.Uint32, reflect.Uint64:
		n.kind, n.width = "uint", t.Bits()
		n.u = g.randUint(n.width)
		rv.SetUint(n.u)
	case reflect.Float32, reflect.Float64:
		n.kind, n.width = "float", t.Bits()
		n.f = g.randFloat(n.width)
		rv.SetFloat(n.f)
	case reflect.String:
		n.kind, n.s = "str", g.randString()
		rv.SetString(n.s)
	case reflect.Slice:
		n.kind = "slice"
		if g.r.Chance(15) {
			n.isNil = true
			return n
		}
		cnt := g.r.Intn(4)
		if g.r.Chance(15) {
			cnt = 0
		}
		s := reflect.MakeSlice(t, cnt, cnt+g.r.Intn(2))
		for i := 0; i < cnt; i++ {
			c := g.gen(t.Elem(), depth-1)
			s.Index(i).Set(c.rv)
			n.elems = append(n.elems, c)
		}
		rv.Set(s)
	case reflect.Map:
		if t.Key().Kind() != reflect.String {
			n.kind = "badmap"
			if g.r.Chance(25) {
				if g.r.Bool() {
					rv.Set(reflect.MakeMap(t))
				}
				return n
			}
			m := reflect.MakeMap(t)
			var k reflect.Value
			switch t.Key().Kind() {
			case reflect.Int:
				k = reflect.ValueOf(g.r.Intn(5))
			case reflect.Bool:
				k = reflect.ValueOf(g.r.Bool())
			case reflect.Float64:
				k = reflect.ValueOf(1.5)
			case reflect.Array:
				k = reflect.ValueOf([1]string{"k"})
			default:
				k = reflect.ValueOf("str-in-iface")
			}
			kk := reflect.New(t.Key()).Elem()
			kk.Set(k)
			m.SetMapIndex(kk, g.gen(t.Elem(), 0).rv)
			n.n = 1
			rv.Set(m)
			return n
		}
		n.kind = "map"
		if g.r.Chance(15) {
			n.isNil = true
			return n
		}
		m := reflect.MakeMap(t)
		cnt := g.r.Intn(4)
		seen := map[string]bool{}
		for i := 0; i < cnt; i++ {
			k := g.randKey()
			if seen[k] {
				continue
			}
			seen[k] = true
			c := g.gen(t.Elem(), depth-1)
			m.SetMapIndex(reflect.ValueOf(k).Convert(t.Key()), c.rv)
			n.keys = append(n.keys, k)
			n.elems = append(n.elems, c)
		}
		rv.Set(m)
	case reflect.Struct:
		n.kind = "struct"
		for i := 0; i < t.NumField(); i++ {
			f := t.Field(i)
			var c *c20Node
			if f.Type.Kind() == reflect.Ptr && f.Type.Elem() == t && (depth <= 0 || g.r.Bool()) {
				c = &c20Node{kind: "ptr", isNil: true, rv: reflect.Zero(f.Type)} // recursive type: make sure it ends
			} else {
				c = g.gen(f.Type, depth-1)
			}
			c20Set(rv.Field(i), c.rv)
			n.keys = append(n.keys, f.Name)
			n.exported = append(n.exported, f.PkgPath == "")
			n.embedded = append(n.embedded, f.Anonymous)
			n.elems = append(n.elems, c)
		}
	case reflect.Ptr:
		n.kind = "ptr"
		if g.r.Chance(20) || depth < -3 {
			n.isNil = true
			switch {
			case t.Elem().Kind() != reflect.Interface && t.Elem().Kind() != reflect.Ptr && t.Elem().Implements(c20MarshalIface):
				n.nilTo = "marshal" // a Marshaler whose value method cannot be called: a panic where NewWith looks at the dynamic type
			case t.Elem().Kind() != reflect.Interface && t.Elem().Implements(c20ValueIface):
				n.nilTo = "value" // a nil *data.Int is itself a data.Value
			}
			return n
		}
		c := g.gen(t.Elem(), depth-1)
		p := reflect.New(t.Elem())
		p.Elem().Set(c.rv)
		rv.Set(p)
		n.elems = []*c20Node{c}
	case reflect.Interface:
		n.kind = "iface"
		if g.r.Chance(15) {
			n.isNil = true
			return n
		}
		var dt reflect.Type
		switch t {
		case c20ValueIface:
			v := g.randDataValue(depth)
			rv.Set(reflect.ValueOf(v))
			n.elems = []*c20Node{{kind: "value", val: v, rv: reflect.ValueOf(v)}}
			return n
		case c20MarshalIface:
			dt = []reflect.Type{c20MarshalVType, c20MarshalPType}[g.r.Intn(2)]
		default:
			for {
				dt = g.randType(depth-1, false)
				if dt.Kind() != reflect.Interface {
					break
				}
			}
		}
		c := g.gen(dt, depth-1)
		rv.Set(c.rv)
		n.elems = []*c20Node{c}
	default:
		n.kind = "unsupported"
		switch t.Kind() {
		case reflect.Chan:
			if g.r.Bool() {
				rv.Set(reflect.MakeChan(t, 0))
			}
		case reflect.Func:
			if g.r.Bool() {
				rv.Set(reflect.MakeFunc(t, func([]reflect.Value) []reflect.Value { return nil }))
			}
		}
	}
	return n
}

// ---------- the implementation under test ----------

func c20Convert(lowerCamel bool, x interface{}) (v data.Value, panicked string) {
	defer func() {
		if r := recover(); r != nil {
			v, panicked = nil, fmt.Sprint(r)
			if panicked == "" {
				panicked = "panic"
			}
		}
	}()
	return data.NewWith(data.StructOptions{LowerCamel: lowerCamel, TimeFormat: c20TimeFormat}, x), ""
}

func c20String(v data.Value) (s string, panicked bool) {
	defer func() {
		if recover() != nil {
			s, panicked = "", true
		}
	}()
	return v.String(), false
}

func c20Ptr(v data.Value) uintptr {
	switch v := v.(type) {
	case data.List:
		return reflect.ValueOf(v).Pointer()
	case data.Map:
		return reflect.ValueOf(v).Pointer()
	}
	return 0
}

// identical: the same Soy value, bit for bit and object for object.
func c20Identical(a, b data.Value) bool {
	if reflect.TypeOf(a) != reflect.TypeOf(b) {
		return false
	}
	switch x := a.(type) {
	case data.Float:
		y := b.(data.Float)
		return math.Float64bits(float64(x)) == math.Float64bits(float64(y)) || (math.IsNaN(float64(x)) && math.IsNaN(float64(y)))
	case data.List:
		y := b.(data.List)
		if (x == nil) != (y == nil) || len(x) != len(y) || c20Ptr(x) != c20Ptr(y) {
			return false
		}
		for i := range x {
			if !c20Identical(x[i], y[i]) {
				return false
			}
		}
		return true
	case data.Map:
		y := b.(data.Map)
		if (x == nil) != (y == nil) || len(x) != len(y) || c20Ptr(x) != c20Ptr(y) {
			return false
		}
		for k, xv := range x {
			yv, ok := y[k]
			if !ok || !c20Identical(xv, yv) {
				return false
			}
		}
		return true
	case nil:
		return b == nil
	}
	return a == b
}

// lowerCamel of a field name, written independently of data/convert.go:
// the first code point lowered, the remaining bytes untouched.
func c20LowerFirst(name string) string {
	for i, r := range name {
		_ = i
		rest := name[utf8.RuneLen(r):]
		return string(unicode.ToLower(r)) + rest
	}
	return name
}

type c20Walk struct {
	lowerCamel bool
	bigUint    bool // a uint >= 2^63 was met and converted to the wrapped (negative) Int
}

// walk checks that v has the structure and the scalar values of n; it returns
// a description of the first difference, or "".
func (w *c20Walk) walk(n *c20Node, v data.Value, path string) string { return w.walkAt(n, v, path, 0) }

// ctx: 0 = where NewWith looks at the dynamic type, 1 = one pointer below, 2 = reached by the drilling loop only
func (w *c20Walk) walkAt(n *c20Node, v data.Value, path string, ctx int) string {
	bad := func(want string) string {
		return fmt.Sprintf("at %s: Go value is %s, Soy value is %T(%s)", path, want, v, c20Show(v))
	}
	switch n.kind {
	case "nil":
		if _, ok := v.(data.Null); !ok {
			return bad("nil")
		}
	case "bool":
		if x, ok := v.(data.Bool); !ok || bool(x) != n.b {
			return bad(fmt.Sprint("bool ", n.b))
		}
	case "int":
		if x, ok := v.(data.Int); !ok || int64(x) != n.i {
			return bad(fmt.Sprintf("int%d %d", n.width, n.i))
		}
	case "uint":
		if f, isF := v.(data.Float); isF && n.u >= 1<<63 && float64(f) == float64(n.u) {
			return "" // repaired converter (C20-uint64-float): the nearest Float
		}
		x, ok := v.(data.Int)
		if ok && n.u >= 1<<63 && int64(x) == int64(n.u) {
			w.bigUint = true // the value is NOT preserved (known finding uint64-wraps), the rest is still walked
			return ""
		}
		if !ok || int64(x) < 0 || uint64(x) != n.u {
			return bad(fmt.Sprintf("uint%d %d", n.width, n.u))
		}
	case "float":
		x, ok := v.(data.Float)
		if !ok || !(math.Float64bits(float64(x)) == math.Float64bits(n.f) || (math.IsNaN(float64(x)) && math.IsNaN(n.f))) {
			return bad(fmt.Sprintf("float%d %v", n.width, n.f))
		}
	case "str", "time":
		if x, ok := v.(data.String); !ok || string(x) != n.s {
			return bad(fmt.Sprintf("%s %q", n.kind, n.s))
		}
	case "slice":
		l, ok := v.(data.List)
		if !ok || (l == nil) != n.isNil || len(l) != len(n.elems) {
			return bad(fmt.Sprintf("slice (nil=%v) of %d elements", n.isNil, len(n.elems)))
		}
		for i, c := range n.elems {
			if d := w.walkAt(c, l[i], fmt.Sprintf("%s[%d]", path, i), 0); d != "" {
				return d
			}
		}
	case "map":
		m, ok := v.(data.Map)
		if !ok || m == nil || len(m) != len(n.elems) {
			return bad(fmt.Sprintf("map of %d entries", len(n.elems)))
		}
		for i, c := range n.elems {
			x, ok := m[n.keys[i]]
			if !ok {
				return fmt.Sprintf("at %s: key %q is missing", path, n.keys[i])
			}
			if d := w.walkAt(c, x, fmt.Sprintf("%s[%q]", path, n.keys[i]), 0); d != "" {
				return d
			}
		}
	case "badmap":
		m, ok := v.(data.Map)
		if !ok || m == nil || len(m) != 0 || n.n != 0 {
			return bad("empty map with non-string keys")
		}
	case "struct":
		m, ok := v.(data.Map)
		if !ok || m == nil {
			return bad("struct")
		}
		want := map[string]*c20Node{} // later fields overwrite earlier ones with the same key
		for i, c := range n.elems {
			if !n.exported[i] {
				continue
			}
			k := n.keys[i]
			if w.lowerCamel {
				k = c20LowerFirst(k)
			}
			want[k] = c
		}
		if len(m) != len(want) {
			return fmt.Sprintf("at %s: struct with %d visible fields gave a map with %d keys (%s)", path, len(want), len(m), c20Show(v))
		}
		for k, c := range want {
			x, ok := m[k]
			if !ok {
				return fmt.Sprintf("at %s: field key %q is missing (%s)", path, k, c20Show(v))
			}
			if d := w.walkAt(c, x, path+"."+k, 0); d != "" {
				return d
			}
		}
	case "ptr", "iface":
		if n.isNil {
			if _, ok := v.(data.Null); !ok {
				return bad("nil " + n.kind)
			}
			return ""
		}
		nc := 2
		if ctx == 0 && n.kind == "ptr" {
			nc = 1
		} else if ctx == 0 {
			nc = 0
		}
		return w.walkAt(n.elems[0], v, path, nc)
	case "marshal":
		if n.ptrRecv && ctx < 2 {
			ctx++ // the description stands for the pointer *C20MarshalP
		}
		if ctx == 2 {
			// behind two pointers the method set has no MarshalValue: the plain struct
			return w.walkAt(n.under, v, path, 2)
		}
		if !c20Identical(n.val, v) {
			return bad(n.kind + " " + c20Show(n.val))
		}
	case "value":
		if ctx < 2 {
			if !c20Identical(n.val, v) {
				return bad(n.kind + " " + c20Show(n.val))
			}
			return ""
		}
		// reached by the drilling loop: converted by its underlying type
		switch x := n.val.(type) {
		case data.Null, data.Undefined:
			if m, ok := v.(data.Map); !ok || m == nil || len(m) != 0 {
				return bad("empty struct (data.Null / data.Undefined behind two pointers)")
			}
		case data.List:
			l, ok := v.(data.List)
			if !ok || (l == nil) != (x == nil) || len(l) != len(x) {
				return bad("data.List behind two pointers")
			}
			for i := range x {
				if !c20Identical(x[i], l[i]) {
					return bad("data.List behind two pointers (element " + strconv.Itoa(i) + ")")
				}
			}
		case data.Map:
			m, ok := v.(data.Map)
			if !ok || m == nil || len(m) != len(x) {
				return bad("data.Map behind two pointers")
			}
			for k, xv := range x {
				if mv, ok := m[k]; !ok || !c20Identical(xv, mv) {
					return bad("data.Map behind two pointers (key " + k + ")")
				}
			}
		default:
			if !c20Identical(n.val, v) {
				return bad(n.kind + " " + c20Show(n.val))
			}
		}
	default:
		return bad("unsupported kind (a panic was expected)")
	}
	return ""
}

func c20Show(v data.Value) string {
	if v == nil {
		return "<nil Value>"
	}
	return valueSexp(v, newIDTable())
}

// subvalues appends v and everything below it.
func c20Subvalues(v data.Value, acc []data.Value) []data.Value {
	acc = append(acc, v)
	switch x := v.(type) {
	case data.List:
		for _, c := range x {
			acc = c20Subvalues(c, acc)
		}
	case data.Map:
		keys := make([]string, 0, len(x))
		for k := range x {
			keys = append(keys, k)
		}
		sort.Strings(keys)
		for _, k := range keys {
			acc = c20Subvalues(x[k], acc)
		}
	}
	return acc
}

func c20Kind(v data.Value) int {
	switch v.(type) {
	case data.Undefined:
		return 0
	case data.Null:
		return 1
	case data.Bool:
		return 2
	case data.Int:
		return 3
	case data.Float:
		return 4
	case data.String:
		return 5
	case data.List:
		return 6
	case data.Map:
		return 7
	}
	return -1
}

// exact comparison of an int64 with a float64 as real numbers
func c20NumEq(i int64, f float64) bool {
	if math.IsNaN(f) || math.IsInf(f, 0) {
		return false
	}
	bf := new(big.Float).SetPrec(2000).SetFloat64(f)
	bi := new(big.Float).SetPrec(2000).SetInt64(i)
	return bf.Cmp(bi) == 0
}

func c20Abs53(i int64) bool { return i >= -(1<<53) && i <= 1<<53 }

// exactly representable as float64 (then float64(i) is exact whatever its size)
func c20IntExact(i int64) bool {
	return int64(float64(i)) == i && float64(i) < 9.3e18 && new(big.Float).SetInt64(i).Cmp(new(big.Float).SetFloat64(float64(i))) == 0
}

// ---------- running ----------

func newC20Gen(e *env) *c20Gen {
	g := &c20Gen{r: e.rng, ids: newIDTable(), lower: map[rune]rune{}}
	var tb struct {
		Sample [][3]int `json:"gen_to_lower_sample"`
	}
	if bs, err := os.ReadFile(e.tables); err == nil {
		json.Unmarshal(bs, &tb)
	}
	for _, row := range tb.Sample {
		r := rune(row[0])
		g.lower[r] = rune(row[1])
		switch {
		case row[2] == 1 && unicode.IsUpper(r):
			g.uppers = append(g.uppers, r)
		case unicode.IsLetter(r) && !unicode.IsUpper(r):
			g.others = append(g.others, r)
		}
	}
	return g
}

func runC20(e *env) {
	e.res.Rule = "conversion: random nested Go values (reflect) over bool, all int/uint/float kinds with boundary values, strings of any bytes, time.Time, nil/non-nil slices, maps, pointers (also pointer to pointer), interfaces holding each kind, static and reflect.StructOf structs with exported/unexported/embedded fields and non-ASCII first letters, value- and pointer-receiver Marshalers, existing data.Values, rejected kinds; each under LowerCamel true and false. Laws: all ordered pairs of pools of produced values and their sub-values plus boundary scalars. Non-trivial = the input is not a bare scalar (conversion) / the pair has comparable kinds (laws); distinct by serialised input."
	g := newC20Gen(e)
	if e.replay != "" {
		c20Replay(e, g)
		return
	}
	c20Fixed(e, g)
	c20PointerChains(e, g)
	c20Conversions(e, g)
	c20Laws(e, g)
	c20BigMaps(e, g)
	c20Probes(e, g)
	c20RenderPath(e, g)
}

type c20Case struct {
	n     *c20Node
	sexp  string
	keep  int
	ids   *idTable
	lc    bool
	v     data.Value
	panic string
}

func (c *c20Case) json() map[string]interface{} {
	return map[string]interface{}{"kind": "convert", "lower_camel": c.lc, "goval": c.sexp, "go_type": fmt.Sprint(c.n.rv.Type())}
}

func c20Input(n *c20Node) interface{} {
	if !n.rv.IsValid() || (n.rv.Kind() == reflect.Interface && n.rv.IsNil()) {
		return nil
	}
	return n.rv.Interface()
}

// checkConversion runs the oracles on one conversion; resp is the model's answer (nil = skip the correspondence).
func c20CheckConversion(e *env, c *c20Case, resp []string) {
	irregular := c20Irregular(c.n, 0)
	expectPanic := c20ExpectPanic(c.n)
	cj := c.json()
	if c.panic != "" && c20NilMarshaler(c.n) && strings.Contains(c.panic, "called using nil") {
		// the model describes the converter after notes/pending/C20-nil-marshaler.diff
		e.res.Fail(hx.Violation{Kind: "oracle", What: "converting a nil pointer to a value-receiver Marshaler panicked", Case: cj, Observed: c.panic}, "nil-marshaler-panics")
		return
	}
	if irregular {
		e.res.Histogram["convert:a pointer to a data.Value is returned as it is (model OutOfModel, see probes)"]++
		if resp != nil && resp[0] != "outofmodel" && resp[0] != "err" {
			e.res.Fail(hx.Violation{Kind: "mismatch", What: "harness classifies the input as irregular, the model converts it", Case: cj, Expected: strings.Join(resp, " ")}, "")
		}
		return
	}
	oracleFailed := false
	switch {
	case c.panic != "" && !expectPanic:
		oracleFailed = true
		e.res.Fail(hx.Violation{Kind: "oracle", What: "converting a JSON-like Go value panicked", Case: cj, Observed: c.panic}, "")
	case c.panic == "" && !expectPanic:
		w := &c20Walk{lowerCamel: c.lc}
		if d := w.walk(c.n, c.v, "$"); d != "" {
			oracleFailed = true
			e.res.Fail(hx.Violation{Kind: "oracle", What: "the Soy value does not have the structure and scalar values of the Go value: " + d, Case: cj, Observed: c20Show(c.v)}, "")
		} else if w.bigUint {
			// the model describes the converter after notes/pending/C20-uint64-float.diff: no correspondence on this input until it is applied
			oracleFailed = true
			e.res.Fail(hx.Violation{Kind: "oracle", What: "an unsigned integer >= 2^63 became a negative Int", Case: cj, Observed: c20Show(c.v)}, "uint64-wraps")
		}
		v2, p2 := c20Convert(c.lc, c.v)
		if p2 != "" || !c20Identical(c.v, v2) {
			oracleFailed = true
			e.res.Fail(hx.Violation{Kind: "oracle", What: "converting the converted value again changes it", Case: cj, Expected: c20Show(c.v), Observed: c20Show(v2) + p2}, "")
		}
	}
	if resp == nil || oracleFailed {
		return
	}
	got := "panic"
	if c.panic == "" {
		got = "ok " + canonIDs(valueSexp(c.v, c.ids), c.keep)
	}
	want := resp[0]
	switch resp[0] {
	case "ok":
		want = "ok " + canonIDs(strings.Join(resp[1:], " "), c.keep)
	case "err":
		want = "panic"
	}
	if got != want {
		e.res.Fail(hx.Violation{Kind: "mismatch", What: "data.NewWith differs from the model's convert", Case: cj, Expected: want, Observed: got + " " + c.panic}, "")
	}
}

func c20Conversions(e *env, g *c20Gen) {
	n := 3000 * e.scale
	var cases []*c20Case
	var reqs []string
	for i := 0; i < n; i++ {
		g.ids = newIDTable()
		t := g.randType(3, g.r.Chance(12))
		node := g.gen(t, 3)
		sexp := g.sexp(node)
		keep := g.ids.next - 1
		in := c20Input(node)
		for _, lc := range []bool{true, false} {
			c := &c20Case{n: node, sexp: sexp, keep: keep, ids: g.ids, lc: lc}
			c.v, c.panic = c20Convert(lc, in)
			cases = append(cases, c)
			reqs = append(reqs, "convert "+hx.B(lc)+" "+sexp)
			scalar := map[string]bool{"nil": true, "bool": true, "int": true, "uint": true, "float": true, "str": true}[node.kind]
			e.res.Count("conv:"+hx.B(lc)+sexp, !scalar, "convert:"+node.kind)
		}
		if i%400 == 0 {
			c := cases[len(cases)-2]
			e.res.Sample(map[string]interface{}{"kind": "convert", "go_type": fmt.Sprint(t), "goval": sexp, "result": c20Show(c.v), "panic": c.panic})
		}
	}
	resp := e.m.Batch(reqs)
	for i, c := range cases {
		c20CheckConversion(e, c, resp[i])
	}
}

// ---------- laws ----------

var c20Specials = []data.Value{
	data.Float(math.NaN()), data.Float(0), data.Float(math.Copysign(0, -1)), data.Int(0), data.String(""), data.Bool(false), data.Null{}, data.Undefined{},
	data.Bool(true), data.Int(1), data.Float(1), data.Int(-1), data.Float(-1), data.Float(0.5), data.String("0"), data.String("a"), data.String("false"),
	data.Float(math.Inf(1)), data.Float(math.Inf(-1)), data.Int(1 << 53), data.Float(1 << 53), data.Int(1<<53 + 1), data.Int(-(1 << 53)), data.Float(-(1 << 53)),
	data.Int(math.MaxInt64), data.Int(math.MinInt64), data.Float(9223372036854775808.0), data.Float(-9223372036854775808.0), data.Int(3), data.Float(3),
	data.List(nil), data.List{}, data.List{}, data.Map(nil), data.Map{}, data.Map{}, data.List{data.Int(1)}, data.List{data.Int(1)}, data.Map{"a": data.Int(1)},
	data.Float(math.SmallestNonzeroFloat64), data.Float(1e300), data.Int(1e15), data.Float(1e15),
}

func c20Falsy(v data.Value) bool {
	switch x := v.(type) {
	case data.Undefined, data.Null:
		return true
	case data.Bool:
		return !bool(x)
	case data.Int:
		return x == 0
	case data.Float:
		return x == 0 || math.IsNaN(float64(x))
	case data.String:
		return len(x) == 0
	}
	return false
}

func c20CheckTruthy(e *env, v data.Value, sexp string, resp []string) {
	got := v.Truthy()
	cj := map[string]interface{}{"kind": "truthy", "value": sexp}
	if got == c20Falsy(v) {
		e.res.Fail(hx.Violation{Kind: "oracle", What: fmt.Sprintf("truthiness table: %T(%s).Truthy() = %v", v, sexp, got), Case: cj,
			Expected: fmt.Sprint(!c20Falsy(v)), Observed: fmt.Sprint(got)}, "")
		return
	}
	if resp != nil && resp[0] != hx.B(got) {
		e.res.Fail(hx.Violation{Kind: "mismatch", What: "Truthy differs from the model", Case: cj, Expected: resp[0], Observed: hx.B(got)}, "")
	}
}

func c20CheckString(e *env, v data.Value, sexp string, resp []string) {
	cj := map[string]interface{}{"kind": "string", "value": sexp}
	s0, p0 := c20String(v)
	for i := 0; i < 20; i++ {
		s, p := c20String(v)
		if s != s0 || p != p0 {
			e.res.Fail(hx.Violation{Kind: "oracle", What: "String() of the same value gave two different texts", Case: cj, Expected: hx.Q(s0), Observed: hx.Q(s)}, "")
			return
		}
	}
	if resp == nil {
		return
	}
	switch resp[0] {
	case "ok":
		if p0 || hx.UnH(resp[1]) != s0 {
			e.res.Fail(hx.Violation{Kind: "mismatch", What: "String() differs from the model's value_string", Case: cj, Expected: hx.Q(hx.UnH(resp[1])), Observed: hx.Q(s0)}, "")
		}
	case "err":
		if !p0 {
			e.res.Fail(hx.Violation{Kind: "mismatch", What: "the model's value_string panics (undefined), String() returned", Case: cj, Observed: hx.Q(s0)}, "")
		}
	}
}

// checkPair: the laws on one ordered pair; modelEq is the model's equals (-1 = not asked).
func c20CheckPair(e *env, a, b data.Value, sa, sb string, modelEq int) {
	cj := map[string]interface{}{"kind": "equals", "a": sa, "b": sb}
	ab, ba := a.Equals(b), b.Equals(a)
	if ab != ba {
		e.res.Fail(hx.Violation{Kind: "oracle", What: "Equals is not symmetric", Case: cj, Expected: fmt.Sprint("a.Equals(b) = ", ab), Observed: fmt.Sprint("b.Equals(a) = ", ba)}, "")
		return
	}
	inDomain := true
	if x, ok := a.(data.Int); ok {
		if f, ok := b.(data.Float); ok {
			if c20Abs53(int64(x)) && ab != c20NumEq(int64(x), float64(f)) {
				e.res.Fail(hx.Violation{Kind: "oracle", What: "Int and Float are not compared numerically", Case: cj, Expected: fmt.Sprint(c20NumEq(int64(x), float64(f))), Observed: fmt.Sprint(ab)}, "")
				return
			}
			inDomain = c20IntExact(int64(x))
		}
	}
	if x, ok := b.(data.Int); ok {
		if _, ok := a.(data.Float); ok {
			inDomain = c20IntExact(int64(x))
		}
	}
	ka, kb := c20Kind(a), c20Kind(b)
	comparable := ka == kb || (ka == 3 && kb == 4) || (ka == 4 && kb == 3)
	if !comparable && ab {
		e.res.Fail(hx.Violation{Kind: "oracle", What: "values of incomparable kinds are equal", Case: cj, Observed: "true"}, "")
		return
	}
	if modelEq >= 0 && inDomain && (modelEq == 1) != ab {
		e.res.Fail(hx.Violation{Kind: "mismatch", What: "Equals differs from the model", Case: cj, Expected: fmt.Sprint(modelEq == 1), Observed: fmt.Sprint(ab)}, "")
	}
}

func c20CheckRefl(e *env, a data.Value, sa string) {
	nan := false
	if f, ok := a.(data.Float); ok {
		nan = math.IsNaN(float64(f))
	}
	if a.Equals(a) == nan {
		e.res.Fail(hx.Violation{Kind: "oracle", What: "Equals is reflexive exactly on values other than NaN", Case: map[string]interface{}{"kind": "equals", "a": sa, "b": sa},
			Expected: fmt.Sprint(!nan), Observed: fmt.Sprint(a.Equals(a))}, "")
	}
}

func c20Fixed(e *env, g *c20Gen) {
	t := newIDTable()
	var reqs, sexps []string
	for _, v := range c20Specials {
		s := valueSexp(v, t)
		sexps = append(sexps, s)
		reqs = append(reqs, "truthy "+s)
	}
	resp := e.m.Batch(reqs)
	for i, v := range c20Specials {
		e.res.Count("fixed-truthy:"+sexps[i], true, "truthy")
		c20CheckTruthy(e, v, sexps[i], resp[i])
	}
}

// c20PointerChains: every kind of pointee behind 0..4 pointers, bare, inside an interface{} slot and behind a pointer to an
// interface: value- and pointer-receiver Marshalers, each of the eight data.Value types, time, scalars, a struct, and the
// typed nil pointers.  Go's method sets make the first two levels special (Model/Convert.v cctx); the model covers every depth.
func c20PointerChains(e *env, g *c20Gen) {
	wrapPtr := func(c *c20Node) *c20Node {
		p := reflect.New(c.rv.Type())
		p.Elem().Set(c.rv)
		return &c20Node{kind: "ptr", elems: []*c20Node{c}, rv: p}
	}
	wrapIface := func(c *c20Node) *c20Node {
		rv := reflect.New(c20EmptyIface).Elem()
		if in := c20Input(c); in != nil {
			rv.Set(reflect.ValueOf(in))
		}
		return &c20Node{kind: "iface", elems: []*c20Node{c}, rv: rv}
	}
	nilPtr := func(x interface{}, to string) *c20Node {
		return &c20Node{kind: "ptr", isNil: true, nilTo: to, rv: reflect.ValueOf(x)}
	}
	type base struct {
		name string
		mk   func() *c20Node
	}
	bases := []base{
		{"marshaler(value receiver)", func() *c20Node { return g.gen(c20MarshalVType, 1) }},
		{"marshaler(pointer receiver)", func() *c20Node { return g.gen(c20MarshalPType, 1) }},
		{"marshaler(named int)", func() *c20Node { return g.gen(c20PlainMarshalers[0], 1) }},
		{"marshaler(named slice)", func() *c20Node { return g.gen(c20PlainMarshalers[4], 1) }},
		{"slice of marshalers(named int)", func() *c20Node { return g.gen(reflect.SliceOf(c20PlainMarshalers[0]), 1) }},
		{"slice of marshalers(named string)", func() *c20Node { return g.gen(reflect.SliceOf(c20PlainMarshalers[2]), 1) }},
		{"time", func() *c20Node { return g.gen(c20TimeType, 1) }},
		{"int32", func() *c20Node { return g.gen(reflect.TypeOf(int32(0)), 1) }},
		{"uint64", func() *c20Node { return g.gen(reflect.TypeOf(uint64(0)), 1) }},
		{"struct", func() *c20Node { return g.gen(reflect.TypeOf(C20Small{}), 1) }},
		{"nil *int", func() *c20Node { return nilPtr((*int)(nil), "") }},
		{"nil *Marshaler", func() *c20Node { return nilPtr((*C20MarshalV)(nil), "marshal") }},
		{"nil *data.Int", func() *c20Node { return nilPtr((*data.Int)(nil), "value") }},
		{"nil *data.Map", func() *c20Node { return nilPtr((*data.Map)(nil), "value") }},
	}
	for _, vt := range c20ValueTypes {
		vt := vt
		bases = append(bases, base{"data." + vt.Name(), func() *c20Node { return g.gen(vt, 1) }})
	}
	var cases []*c20Case
	var reqs []string
	for rep := 0; rep < 2*e.scale; rep++ {
		for _, b := range bases {
			for depth := 0; depth <= 4; depth++ {
				for shape := 0; shape < 3; shape++ { // 0 bare chain, 1 the chain inside an interface{} slot, 2 pointer -> interface -> chain
					g.ids = newIDTable()
					node := b.mk()
					for i := 0; i < depth; i++ {
						node = wrapPtr(node)
					}
					switch shape {
					case 1:
						node = wrapIface(node)
					case 2:
						node = wrapPtr(wrapIface(node))
					}
					sexp := g.sexp(node)
					keep := g.ids.next - 1
					in := c20Input(node)
					lc := rep%2 == 0
					c := &c20Case{n: node, sexp: sexp, keep: keep, ids: g.ids, lc: lc}
					c.v, c.panic = c20Convert(lc, in)
					cases = append(cases, c)
					reqs = append(reqs, "convert "+hx.B(lc)+" "+sexp)
					e.res.Count("chain:"+hx.B(lc)+sexp, true, "pointer-chain:"+b.name)
					e.res.Histogram[fmt.Sprintf("pointer-chain depth %d", depth+[]int{0, 0, 1}[shape])]++
				}
			}
		}
	}
	resp := e.m.Batch(reqs)
	for i, c := range cases {
		c20CheckConversion(e, c, resp[i])
	}
}

func c20Laws(e *env, g *c20Gen) {
	rounds := 30 * e.scale
	for round := 0; round < rounds; round++ {
		g.ids = newIDTable()
		pool := append([]data.Value(nil), c20Specials...)
		for len(pool) < 75 {
			node := g.gen(g.randType(2, false), 2)
			if c20Irregular(node, 0) || c20ExpectPanic(node) {
				continue
			}
			v, p := c20Convert(g.r.Bool(), c20Input(node))
			if p != "" || v == nil {
				continue
			}
			subs := c20Subvalues(v, nil)
			if len(subs) > 12 {
				subs = subs[:12]
			}
			pool = append(pool, subs...)
		}
		ok := true
		for _, v := range pool {
			if c20Kind(v) < 0 {
				ok = false
			}
		}
		if !ok {
			continue
		}
		sexps := make([]string, len(pool))
		for i, v := range pool {
			sexps[i] = valueSexp(v, g.ids)
		}
		reqs := []string{"equals_all (" + strings.Join(sexps, " ") + ")"}
		for _, s := range sexps {
			reqs = append(reqs, "truthy "+s, "value_string "+s)
		}
		resp := e.m.Batch(reqs)
		bits := ""
		if len(resp[0]) == 1 && strings.HasPrefix(resp[0][0], "b") && len(resp[0][0]) == 1+len(pool)*len(pool) {
			bits = resp[0][0][1:]
		} else {
			e.res.Fail(hx.Violation{Kind: "mismatch", What: "model equals_all failed", Case: reqs[0], Observed: strings.Join(resp[0], " ")}, "")
		}
		for i, a := range pool {
			c20CheckTruthy(e, a, sexps[i], resp[1+2*i])
			c20CheckString(e, a, sexps[i], resp[2+2*i])
			c20CheckRefl(e, a, sexps[i])
			e.res.Count("truthy:"+sexps[i], true, "truthy+string")
			for j, b := range pool {
				me := -1
				if bits != "" {
					me = int(bits[i*len(pool)+j] - '0')
				}
				c20CheckPair(e, a, b, sexps[i], sexps[j], me)
				ka, kb := c20Kind(a), c20Kind(b)
				e.res.Count("eq:"+sexps[i]+"|"+sexps[j], ka == kb || (ka == 3 && kb == 4) || (ka == 4 && kb == 3), "equals-pair")
			}
		}
		if round == 0 {
			e.res.Sample(map[string]interface{}{"kind": "laws", "pool_size": len(pool), "first_values": sexps[len(c20Specials) : len(c20Specials)+3]})
		}
	}
}

// maps with many keys: String() must not depend on Go's map iteration order,
// nor on the order in which the map was filled.
func c20BigMaps(e *env, g *c20Gen) {
	for i := 0; i < 25*e.scale; i++ {
		nkeys := 20 + g.r.Intn(150)
		keys := map[string]data.Value{}
		for len(keys) < nkeys {
			k := g.randKey()
			if g.r.Chance(70) {
				k += strconv.Itoa(g.r.Intn(500))
			}
			switch g.r.Intn(5) {
			case 0:
				keys[k] = data.Int(g.r.Intn(100))
			case 1:
				keys[k] = data.String(g.randString())
			case 2:
				keys[k] = data.Map{"x": data.Int(1), "y": data.Map{"q": data.Null{}, "p": data.Bool(true)}, g.randKey(): data.Float(0.5)}
			case 3:
				keys[k] = data.List{data.Map{"b": data.Int(2), "a": data.Int(1), "c": data.Undefined{}}}
			default:
				keys[k] = data.Undefined{}
			}
		}
		m1 := data.Map{}
		for k, v := range keys {
			m1[k] = v
		}
		sorted := make([]string, 0, len(keys))
		for k := range keys {
			sorted = append(sorted, k)
		}
		sort.Strings(sorted)
		m2 := make(data.Map, 1)
		for j := len(sorted) - 1; j >= 0; j-- {
			m2[sorted[j]] = keys[sorted[j]]
		}
		t := newIDTable()
		s1 := valueSexp(m1, t)
		resp := e.m.Batch([]string{"value_string " + s1})
		e.res.Count("bigmap:"+s1, true, "string:big-map")
		c20CheckString(e, m1, s1, resp[0])
		a, _ := c20String(m1)
		b, _ := c20String(m2)
		if a != b {
			e.res.Fail(hx.Violation{Kind: "oracle", What: "two maps with the same entries, filled in different orders, print differently", Case: map[string]interface{}{"kind": "string", "value": s1},
				Expected: hx.Q(a), Observed: hx.Q(b)}, "")
		}
	}
}

// ---------- probes: irregular corners, reported as notes only ----------

func c20Probes(e *env, g *c20Gen) {
	opts := func(x interface{}) string {
		v, p := c20Convert(true, x)
		if p != "" {
			return "panic: " + p
		}
		if c20Kind(v) < 0 {
			return fmt.Sprintf("%T (not one of the eight value types)", v)
		}
		return c20Show(v)
	}
	mv := C20MarshalV{V: data.String("marshalled")}
	pmv := &mv
	var nilMV *C20MarshalV
	di := data.Int(3)
	var iface interface{} = mv
	tm := time.Date(2020, 1, 2, 3, 4, 5, 0, time.UTC)
	e.res.Note("probe: data.New(**T), T a value-receiver Marshaler returning 'marshalled' -> %s (Marshaler is only consulted on the argument's own dynamic type)", opts(&pmv))
	e.res.Note("probe: data.New(*interface{} holding that Marshaler) -> %s", opts(&iface))
	e.res.Note("probe: data.New((*T)(nil)), T a value-receiver Marshaler -> %s", opts(nilMV))
	e.res.Note("probe: data.New(&data.Int(3)) -> %s", opts(&di))
	e.res.Note("probe: data.New((*data.Bool)(nil)) -> %s", opts((*data.Bool)(nil)))
	e.res.Note("probe: data.New(uintptr(1)) -> %s", opts(uintptr(1)))
	e.res.Note("probe: data.New([2]int{1,2}) -> %s", opts([2]int{1, 2}))
	v, p := func() (v data.Value, p string) {
		defer func() {
			if r := recover(); r != nil {
				p = fmt.Sprint(r)
			}
		}()
		return data.NewWith(data.StructOptions{LowerCamel: false}, tm), ""
	}()
	e.res.Note("probe: data.NewWith(StructOptions{LowerCamel:false} (TimeFormat empty), 2020-01-02T03:04:05Z) -> %s %s (the field's comment promises ISO-8601)", c20Show(v), p)
}

// ---------- replay ----------

// fromSexp rebuilds a Go value (and its description) from the goval syntax.
func (g *c20Gen) fromSexp(n *sexpNode, objs map[int]data.Value) (*c20Node, error) {
	mk := func(kind string, x interface{}) *c20Node {
		return &c20Node{kind: kind, rv: reflect.ValueOf(x)}
	}
	bad := fmt.Errorf("bad goval %s", n)
	if !n.isList {
		switch n.atom {
		case "gnil", "gifacenil":
			c := &c20Node{kind: "iface", isNil: true, rv: reflect.New(c20EmptyIface).Elem()}
			if n.atom == "gnil" {
				c.kind = "nil"
			}
			return c, nil
		case "gslicenil":
			c := mk("slice", []interface{}(nil))
			c.isNil = true
			return c, nil
		case "gmapnil":
			c := mk("map", map[string]interface{}(nil))
			c.isNil = true
			return c, nil
		case "gptrnil":
			c := mk("ptr", (*int)(nil))
			c.isNil = true
			return c, nil
		case "gunsupported":
			return mk("unsupported", make(chan int)), nil
		}
		return nil, bad
	}
	atomAt := func(i int) string {
		if i < len(n.list) && !n.list[i].isList {
			return n.list[i].atom
		}
		return ""
	}
	switch n.head() {
	case "gb":
		c := mk("bool", atomAt(1) != "0")
		c.b = atomAt(1) != "0"
		return c, nil
	case "gi", "gu":
		w, _ := strconv.Atoi(atomAt(1))
		var t reflect.Type
		signed := n.head() == "gi"
		for _, st := range c20ScalarTypes[1:11] {
			if st.Bits() == w && (st.Kind() <= reflect.Int64) == signed && st.Kind() != reflect.Int && st.Kind() != reflect.Uint {
				t = st
			}
		}
		if t == nil {
			return nil, bad
		}
		rv := reflect.New(t).Elem()
		c := &c20Node{kind: "int", width: w, rv: rv}
		if signed {
			z, err := strconv.ParseInt(atomAt(2), 10, 64)
			if err != nil {
				return nil, err
			}
			c.i = z
			rv.SetInt(z)
		} else {
			z, err := strconv.ParseUint(atomAt(2), 10, 64)
			if err != nil {
				return nil, err
			}
			c.kind, c.u = "uint", z
			rv.SetUint(z)
		}
		return c, nil
	case "gf":
		if len(n.list) != 3 {
			return nil, bad
		}
		f, err := flFromSexp(n.list[2])
		if err != nil {
			return nil, err
		}
		c := mk("float", f)
		c.width, c.f = 64, f
		if atomAt(1) == "32" {
			c.rv, c.width = reflect.ValueOf(float32(f)), 32
		}
		return c, nil
	case "gs":
		s, err := unsx(atomAt(1))
		c := mk("str", s)
		c.s = s
		return c, err
	case "gt":
		s, err := unsx(atomAt(1))
		if err != nil {
			return nil, err
		}
		tm, err := time.Parse(c20TimeFormat, s)
		c := mk("time", tm)
		c.s = s
		return c, err
	case "gslice":
		c := &c20Node{kind: "slice"}
		sl := make([]interface{}, len(n.list)-1)
		rv := reflect.ValueOf(sl)
		for i, cn := range n.list[1:] {
			ch, err := g.fromSexp(cn, objs)
			if err != nil {
				return nil, err
			}
			if ch.kind != "nil" && !(ch.kind == "iface" && ch.isNil) {
				rv.Index(i).Set(ch.rv)
			}
			c.elems = append(c.elems, ch)
		}
		c.rv = rv
		return c, nil
	case "gmap":
		c := &c20Node{kind: "map"}
		m := map[string]interface{}{}
		for _, en := range n.list[1:] {
			if !en.isList || len(en.list) != 2 || en.list[0].isList {
				return nil, bad
			}
			k, err := unsx(en.list[0].atom)
			if err != nil {
				return nil, err
			}
			ch, err := g.fromSexp(en.list[1], objs)
			if err != nil {
				return nil, err
			}
			m[k] = c20Input(ch)
			c.keys = append(c.keys, k)
			c.elems = append(c.elems, ch)
		}
		c.rv = reflect.ValueOf(m)
		return c, nil
	case "gbadmap":
		cnt, _ := strconv.Atoi(atomAt(1))
		m := map[int]int{}
		for i := 0; i < cnt; i++ {
			m[i] = i
		}
		c := mk("badmap", m)
		c.n = cnt
		return c, nil
	case "gstruct":
		c := &c20Node{kind: "struct"}
		var fs []reflect.StructField
		for _, fn := range n.list[1:] {
			if !fn.isList || len(fn.list) != 4 {
				return nil, bad
			}
			name, err := unsx(fn.list[0].atom)
			if err != nil {
				return nil, err
			}
			ch, err := g.fromSexp(fn.list[3], objs)
			if err != nil {
				return nil, err
			}
			ex := fn.list[1].atom != "0"
			f := reflect.StructField{Name: name, Type: ch.rv.Type()}
			if !ex {
				f.PkgPath = "soyverif/c20"
			}
			fs = append(fs, f)
			c.keys = append(c.keys, name)
			c.exported = append(c.exported, ex)
			c.embedded = append(c.embedded, fn.list[2].atom != "0")
			c.elems = append(c.elems, ch)
		}
		rv := reflect.New(reflect.StructOf(fs)).Elem()
		for i, ch := range c.elems {
			c20Set(rv.Field(i), ch.rv)
		}
		c.rv = rv
		return c, nil
	case "gptr", "giface":
		if len(n.list) != 2 {
			return nil, bad
		}
		ch, err := g.fromSexp(n.list[1], objs)
		if err != nil {
			return nil, err
		}
		if n.head() == "giface" {
			rv := reflect.New(c20EmptyIface).Elem()
			if in := c20Input(ch); in != nil {
				rv.Set(reflect.ValueOf(in))
			}
			return &c20Node{kind: "iface", elems: []*c20Node{ch}, rv: rv}, nil
		}
		p := reflect.New(ch.rv.Type())
		p.Elem().Set(ch.rv)
		return &c20Node{kind: "ptr", elems: []*c20Node{ch}, rv: p}, nil
	case "gnilptrto":
		if atomAt(1) == "1" {
			c := mk("ptr", (*C20MarshalV)(nil))
			c.isNil, c.nilTo = true, "marshal"
			return c, nil
		}
		c := mk("ptr", (*data.Int)(nil))
		c.isNil, c.nilTo = true, "value"
		return c, nil
	case "gmarshal", "gval":
		if len(n.list) < 2 || len(n.list) > 3 {
			return nil, bad
		}
		v, err := nodeToValue(n.list[1], objs)
		if err != nil {
			return nil, err
		}
		if n.head() == "gval" {
			c := mk("value", v)
			c.val = v
			return c, nil
		}
		c := mk("marshal", C20MarshalV{V: v})
		c.val, c.under = v, marshalUnder(v, 0, true)
		return c, nil
	}
	return nil, bad
}

func c20Replay(e *env, g *c20Gen) {
	var rp struct {
		Case map[string]interface{} `json:"case"`
	}
	bs, err := os.ReadFile(e.replay)
	if err == nil {
		err = json.Unmarshal(bs, &rp)
	}
	if err != nil {
		e.res.Fail(hx.Violation{Kind: "mismatch", What: "cannot read the replay file: " + err.Error(), Case: e.replay}, "")
		return
	}
	str := func(k string) string { s, _ := rp.Case[k].(string); return s }
	objs := map[int]data.Value{}
	e.res.Count("replay", true, "replay")
	switch str("kind") {
	case "truthy", "string":
		v, err := sexpToValue(str("value"), objs)
		if err != nil {
			e.res.Fail(hx.Violation{Kind: "mismatch", What: "replay: " + err.Error(), Case: rp.Case}, "")
			return
		}
		if str("kind") == "truthy" {
			c20CheckTruthy(e, v, str("value"), e.m.Call("truthy", str("value")))
		} else {
			c20CheckString(e, v, str("value"), e.m.Call("value_string", str("value")))
		}
	case "equals":
		a, err1 := sexpToValue(str("a"), objs)
		b, err2 := sexpToValue(str("b"), objs)
		if err1 != nil || err2 != nil {
			e.res.Fail(hx.Violation{Kind: "mismatch", What: "replay: cannot parse the values", Case: rp.Case}, "")
			return
		}
		r := e.m.Call("equals", "("+str("a")+" "+str("b")+")")
		c20CheckPair(e, a, b, str("a"), str("b"), int(hx.UnI(r[0])))
		c20CheckRefl(e, a, str("a"))
	case "convert":
		sn, err := parseSexp(str("goval"))
		var node *c20Node
		if err == nil {
			node, err = g.fromSexp(sn, objs)
		}
		if err != nil {
			e.res.Fail(hx.Violation{Kind: "mismatch", What: "replay: " + err.Error(), Case: rp.Case}, "")
			return
		}
		g.ids = newIDTable()
		sexp := g.sexp(node)
		lc, _ := rp.Case["lower_camel"].(bool)
		c := &c20Case{n: node, sexp: sexp, keep: g.ids.next - 1, ids: g.ids, lc: lc}
		c.v, c.panic = c20Convert(lc, c20Input(node))
		c20CheckConversion(e, c, e.m.Call("convert", hx.B(lc), sexp))
	default:
		e.res.Fail(hx.Violation{Kind: "mismatch", What: "replay: unknown case kind", Case: rp.Case}, "")
	}
}
