//go:build c05

package main

// C05: running the real scanner and parser where a hang or a crash of the scanner
// goroutine cannot take the harness down.
//
// Worker protocol (`soyverif worker c05 <casefile> <from> <to>`): the case file
// has one case per line, `<op> <hex input>`; for each case index i in [from,to)
// the worker prints `S <i>`, runs the case, prints `D <i> <result>`, and after the
// last one `END`.  hang = no `D` within the timeout (re-confirmed alone with a
// longer timeout before it is reported); crash = the process ends without `END`
// (the first lines of its stderr are kept).
//
// ops:  L0 / L1  parse.VerifLex in file / expression mode -> `<n> typ:pos:hex ...`
//       P0 / P1  parse.SoyFile / parse.Expr                -> `tree` | `error` | `panic <hex>`
//       T0 / T1  the same, timed: best of 3 runs           -> `<class> <nanoseconds>`

import (
	"bufio"
	"bytes"
	"encoding/hex"
	"fmt"
	"os"
	"os/exec"
	"path/filepath"
	"strconv"
	"strings"
	"sync"
	"sync/atomic"
	"time"

	"github.com/robfig/soy/parse"
)

func init() { workers["c05"] = c05Worker }

type c05Case struct {
	Op string // L0 L1 P0 P1 T0 T1
	In string
}

type c05Res struct {
	Class  string // ok | hang | crash
	Out    string // the worker's result text (class ok)
	Detail string // panic text of a crash
}

func c05ParseClass(op, in string) (cls string) {
	defer func() {
		if r := recover(); r != nil {
			cls = "panic " + hex.EncodeToString([]byte(fmt.Sprint(r)))
		}
	}()
	var err error
	if op[1] == '1' {
		_, err = parse.Expr(in)
	} else {
		_, err = parse.SoyFile("f.soy", in)
	}
	if err != nil {
		return "error"
	}
	return "tree"
}

func c05RunCase(op, in string) string {
	switch op[0] {
	case 'L':
		items := parse.VerifLex("f.soy", in, op[1] == '1')
		var sb strings.Builder
		sb.WriteString(strconv.Itoa(len(items)))
		for _, it := range items {
			v := "-"
			if it.Val != "" {
				v = hex.EncodeToString([]byte(it.Val))
			}
			fmt.Fprintf(&sb, " %d:%d:%s", it.Typ, it.Pos, v)
		}
		return sb.String()
	case 'P':
		return c05ParseClass(op, in)
	case 'T':
		best := time.Duration(1 << 62)
		cls := ""
		for k := 0; k < 3; k++ {
			t0 := time.Now()
			cls = c05ParseClass(op, in)
			if d := time.Since(t0); d < best {
				best = d
			}
		}
		return strings.Fields(cls)[0] + " " + strconv.FormatInt(best.Nanoseconds(), 10)
	}
	return "badop"
}

func c05Worker(args []string) {
	if len(args) != 3 {
		return
	}
	from, _ := strconv.Atoi(args[1])
	to, _ := strconv.Atoi(args[2])
	f, err := os.Open(args[0])
	if err != nil {
		fmt.Println("ERR", err)
		return
	}
	defer f.Close()
	sc := bufio.NewScanner(f)
	sc.Buffer(make([]byte, 1<<20), 1<<28)
	w := bufio.NewWriterSize(os.Stdout, 1<<16)
	i := -1
	for sc.Scan() {
		i++
		if i < from {
			continue
		}
		if i >= to {
			break
		}
		line := sc.Text()
		sp := strings.IndexByte(line, ' ')
		op, hx := line[:sp], line[sp+1:]
		in := ""
		if hx != "-" {
			bs, _ := hex.DecodeString(hx)
			in = string(bs)
		}
		fmt.Fprintf(w, "S %d\n", i)
		w.Flush()
		r := c05RunCase(op, in)
		fmt.Fprintf(w, "D %d %s\n", i, r)
		w.Flush()
	}
	fmt.Fprintln(w, "END")
	w.Flush()
}

// ---------- parent side ----------

var c05FileSeq int
var c05FileMu sync.Mutex

func c05WriteCases(cases []c05Case) string {
	c05FileMu.Lock()
	c05FileSeq++
	n := c05FileSeq
	c05FileMu.Unlock()
	dir := os.Getenv("VERIF_BUILD")
	if dir == "" {
		dir = os.TempDir()
	}
	dir = filepath.Join(dir, "logs")
	os.MkdirAll(dir, 0o755)
	path := filepath.Join(dir, fmt.Sprintf("c05-cases-%d-%d.txt", os.Getpid(), n))
	var buf bytes.Buffer
	for _, c := range cases {
		buf.WriteString(c.Op)
		buf.WriteByte(' ')
		if c.In == "" {
			buf.WriteByte('-')
		} else {
			buf.WriteString(hex.EncodeToString([]byte(c.In)))
		}
		buf.WriteByte('\n')
	}
	os.WriteFile(path, buf.Bytes(), 0o644)
	return path
}

// c05RunRange runs cases [from,to) of the case file in one worker; it returns the
// results it got, the index it stopped at, and why ("end", "hang", "crash").
func (e *env) c05RunRange(path string, from, to int, timeout time.Duration, res []c05Res) (stop int, why string, detail string) {
	cmd := exec.Command(e.self, "worker", "c05", path, strconv.Itoa(from), strconv.Itoa(to))
	var stderr bytes.Buffer
	cmd.Stderr = &stderr
	stdout, err := cmd.StdoutPipe()
	if err != nil {
		return from, "crash", err.Error()
	}
	if err := cmd.Start(); err != nil {
		return from, "crash", err.Error()
	}
	lines := make(chan string, 1024)
	go func() {
		rd := bufio.NewReaderSize(stdout, 1<<20)
		for {
			line, err := rd.ReadString('\n')
			if line != "" {
				lines <- strings.TrimRight(line, "\n")
			}
			if err != nil {
				close(lines)
				return
			}
		}
	}()
	cur := from // the case being run (last S seen), or the next one expected
	timer := time.NewTimer(timeout)
	defer timer.Stop()
	for {
		select {
		case line, ok := <-lines:
			if !ok {
				cmd.Wait()
				return cur, "crash", c05FirstLines(stderr.String(), 3)
			}
			if line == "END" {
				cmd.Wait()
				return to, "end", ""
			}
			if strings.HasPrefix(line, "S ") {
				cur, _ = strconv.Atoi(line[2:])
			} else if strings.HasPrefix(line, "D ") {
				rest := line[2:]
				sp := strings.IndexByte(rest, ' ')
				i, _ := strconv.Atoi(rest[:sp])
				res[i] = c05Res{Class: "ok", Out: rest[sp+1:]}
				cur = i + 1
			}
			if !timer.Stop() {
				select {
				case <-timer.C:
				default:
				}
			}
			timer.Reset(timeout)
		case <-timer.C:
			cmd.Process.Kill()
			cmd.Wait()
			return cur, "hang", ""
		}
	}
}

func c05FirstLines(s string, n int) string {
	ls := strings.Split(strings.TrimSpace(s), "\n")
	if len(ls) > n {
		ls = ls[:n]
	}
	return strings.Join(ls, " | ")
}

const (
	c05BatchTimeout = 3 * time.Second
	c05SoloTimeout  = 10 * time.Second
)

// c05ExecSeq runs all cases of one chunk sequentially in workers, restarting after
// a hang or crash.  A hang is re-run alone with the long timeout before it counts.
func (e *env) c05ExecSeq(cases []c05Case, res []c05Res, abort func() bool, bad *int32) {
	path := c05WriteCases(cases)
	defer os.Remove(path)
	from := 0
	for from < len(cases) {
		if abort != nil && abort() {
			for i := from; i < len(cases); i++ {
				res[i] = c05Res{Class: "skipped"}
			}
			return
		}
		stop, why, detail := e.c05RunRange(path, from, len(cases), c05BatchTimeout, res)
		switch why {
		case "end":
			return
		case "crash":
			if stop >= len(cases) {
				return
			}
			res[stop] = c05Res{Class: "crash", Detail: detail}
			atomic.AddInt32(bad, 1)
			from = stop + 1
		case "hang":
			if stop >= len(cases) {
				return
			}
			// re-confirm alone
			solo := make([]c05Res, len(cases))
			_, why2, detail2 := e.c05RunRange(path, stop, stop+1, c05SoloTimeout, solo)
			switch why2 {
			case "end":
				res[stop] = solo[stop]
			case "crash":
				res[stop] = c05Res{Class: "crash", Detail: detail2}
				atomic.AddInt32(bad, 1)
			default:
				res[stop] = c05Res{Class: "hang"}
				atomic.AddInt32(bad, 1)
			}
			from = stop + 1
		}
	}
}

// c05Exec runs the cases in up to par workers at once.
func (e *env) c05Exec(cases []c05Case, par int, abort func() bool, bad *int32) []c05Res {
	res := make([]c05Res, len(cases))
	if len(cases) == 0 {
		return res
	}
	if par < 1 {
		par = 1
	}
	chunk := (len(cases) + par - 1) / par
	if chunk < 64 {
		chunk = 64
	}
	var wg sync.WaitGroup
	for a := 0; a < len(cases); a += chunk {
		z := a + chunk
		if z > len(cases) {
			z = len(cases)
		}
		wg.Add(1)
		go func(a, z int) {
			defer wg.Done()
			e.c05ExecSeq(cases[a:z], res[a:z], abort, bad)
		}(a, z)
	}
	wg.Wait()
	return res
}
