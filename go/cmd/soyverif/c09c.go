//go:build c09

package main

// C09: the parser invariant behind the one REVIEWED LATENT HAZARD of the package-state review
// (coq/Model/ConcGlobals.v, reviewed_latent_writes; found by the callee analysis of
// go/cmd/tablegen/pkgvars.go).
//
// ast.(*MsgNode).Placeholder -- called at render time by soyhtml's and at generation time by soyjs's
// evalMsgParts -- walks the message body with a queue that starts as n.Body.Children(), for a ListNode the
// node's own Nodes slice, which every render of the compiled bundle shares, and appends the children of
// every parent node that is not a placeholder to it.  With spare capacity behind the queue that append
// would write into the shared array.  It never has any: the only non-placeholder parent node in a message
// body is a plural node, the parser rejects a body that holds a plural node and anything else, and it
// builds that body by one append to a nil slice (length = capacity = 1), so the queue has capacity 0 when
// the append happens.  The static tie tolerates the site because of this invariant; here the invariant is
// checked on every bundle the race harness compiles, so that a parser change that breaks it fails with a
// real input (and the concurrent renders / generations of plural messages of the harness then run the
// append under the race detector).

import (
	"fmt"

	"github.com/robfig/soy/ast"
	"github.com/robfig/soy/template"
)

// c09PlaceholderQueueInvariant: for every message node of the registry whose body has a parent child that
// is not a placeholder (the nodes Placeholder appends the children of), the body's child slice has no
// spare capacity.  Returns the first violation, or nil.
func c09PlaceholderQueueInvariant(reg *template.Registry) error {
	if reg == nil {
		return nil
	}
	var bad error
	for _, sf := range reg.SoyFiles {
		walkAst(sf, func(n ast.Node) {
			m, ok := n.(*ast.MsgNode)
			if !ok || m.Body == nil || bad != nil {
				return
			}
			kids := m.Body.Children()
			appends := false
			for _, k := range kids {
				if _, ph := k.(*ast.MsgPlaceholderNode); ph {
					continue
				}
				if _, parent := k.(ast.ParentNode); parent {
					appends = true
				}
			}
			if appends && cap(kids) != len(kids) {
				bad = fmt.Errorf("C09 reviewed latent hazard is live: the body of the message %q (id %d) has a non-placeholder parent child and a child slice with spare capacity (len %d, cap %d): ast.(*MsgNode).Placeholder would append into the shared slice",
					m.Desc, m.ID, len(kids), cap(kids))
			}
		})
	}
	return bad
}
