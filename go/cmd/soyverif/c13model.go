//go:build c13

package main

// Model vs implementation for C13: the bundle (globals maps, files parsed one
// by one, in a given insertion order) goes to Model/Compile.v through the op
// "c13" (ocaml/ops_compile.ml), once with every key-order oracle the identity
// and once with every oracle reversing.  Compared: accept/reject; for a
// rejected bundle the error (class, unit and the names it mentions -- the Go
// text is rebuilt from the model's fields wherever the text does not print a
// node); for an accepted bundle the template Registry.Template returns for
// every name, every message's id and placeholder names, and the ES6 import
// text of every file (Model/JsGen.v run on the file as Model/Compile.v's Add left it).

import (
	"fmt"
	"reflect"
	"regexp"
	"strconv"
	"strings"

	"github.com/robfig/soy/ast"
	"github.com/robfig/soy/data"
	"github.com/robfig/soy/parse"
	"github.com/robfig/soy/template"
	"soyverif/internal/hx"
)

func c13WalkAll(n ast.Node, f func(ast.Node)) {
	if n == nil || isNilNode(n) {
		return
	}
	f(n)
	if p, ok := n.(ast.ParentNode); ok {
		for _, c := range p.Children() {
			c13WalkAll(c, f)
		}
	}
}

func isNilNode(n ast.Node) bool {
	v := reflect.ValueOf(n)
	return v.Kind() == reflect.Ptr && v.IsNil()
}

// c13FileSexp parses one file on its own (a fresh tree: Registry.Add rewrites the tree it is given).
// The value of every global is filled in beforehand: Model/Compile.v keeps the
// values SetGlobals stores in a side table and never reads this field, but the
// generator model (Model/JsGen.v) prints it.
func c13FileSexp(f srcFile, globals data.Map) (s string, ok bool) {
	defer func() {
		if r := recover(); r != nil {
			s, ok = "", false
		}
	}()
	tree, err := parse.SoyFile(f.Name, f.Text)
	if err != nil {
		return "(file " + sx(f.Name) + " " + sx(f.Text) + " (err " + sx(err.Error()) + "))", true
	}
	ids := newIDTable()
	var nodes, strs []string
	for _, n := range tree.Body {
		c13WalkAll(n, func(x ast.Node) {
			if g, isG := x.(*ast.GlobalNode); isG {
				if v, def := globals[g.Name]; def {
					g.Value = v
				}
			}
		})
		nodes = append(nodes, nodeSexp(n, ids))
		c13WalkAll(n, func(x ast.Node) {
			switch x.(type) {
			case *ast.MsgPlaceholderNode, *ast.MsgPluralNode:
				strs = append(strs, "("+nodeSexp(x, ids)+" "+sx(x.String())+")")
			}
		})
	}
	return "(file " + sx(f.Name) + " " + sx(f.Text) + " (ok " + strings.Join(nodes, " ") + ") (strs " + strings.Join(strs, " ") + "))", true
}

func c13BundleSexp(c *c13Case, perm []int, fileSexps []string) (string, bool) {
	ids := newIDTable()
	var gms []string
	for _, gs := range c.Globals {
		m, err := c13GlobalsMap(gs)
		if err != nil {
			return "", false
		}
		var items []string
		for _, g := range gs { // a Go map: the order inside one map carries no meaning
			if v, ok := m[g.Name]; ok {
				items = append(items, "("+sx(g.Name)+" "+valueSexp(v, ids)+")")
			}
		}
		gms = append(gms, "(gm "+strings.Join(items, " ")+")")
	}
	var fs []string
	for _, i := range perm {
		fs = append(fs, fileSexps[i])
	}
	return "(bundle (globals " + strings.Join(gms, " ") + ") (files " + strings.Join(fs, " ") + "))", true
}

// ---------- the implementation's side of the comparison ----------

type c13View struct {
	Err     string
	Lookup  map[string]string // name -> file:pos
	Msgs    []string          // per template in registry order: "name id [names] id [names] ..."
	Imports []string          // per file in insertion order: "file ok <ES6 text>" | "file err" | "file skip"
}

func c13GoView(c *c13Case, perm []int) c13View {
	reg, err := c13Compile(c, perm)
	if err != nil {
		return c13View{Err: err.Error()}
	}
	v := c13View{Lookup: map[string]string{}}
	pos := map[*ast.TemplateNode]string{}
	for _, f := range reg.SoyFiles {
		for _, n := range f.Body {
			if tn, ok := n.(*ast.TemplateNode); ok {
				pos[tn] = fmt.Sprintf("%s:%d", f.Name, tn.Pos)
			}
		}
	}
	for _, t := range reg.Templates {
		if _, seen := v.Lookup[t.Node.Name]; !seen {
			first, _ := reg.Template(t.Node.Name)
			v.Lookup[t.Node.Name] = pos[first.Node]
		}
		var sb strings.Builder
		sb.WriteString(t.Node.Name)
		c13WalkMsgs(t.Node, func(m *ast.MsgNode) {
			var names []string
			c13Names(m.Body.Children(), &names)
			fmt.Fprintf(&sb, " %d %q", m.ID, names)
		})
		v.Msgs = append(v.Msgs, sb.String())
	}
	for _, f := range reg.SoyFiles {
		js := c13WriteJS(f, c13ES6)
		if strings.HasPrefix(js, "ERROR") {
			v.Imports = append(v.Imports, f.Name+" err")
			continue
		}
		v.Imports = append(v.Imports, f.Name+" ok "+js)
	}
	return v
}

// ---------- decoding the model's answer ----------

type c13Tok struct {
	f []string
	i int
}

func (t *c13Tok) next() string {
	if t.i >= len(t.f) {
		return "#0"
	}
	t.i++
	return t.f[t.i-1]
}
func (t *c13Tok) n() int      { return int(hx.UnI(t.next())) }
func (t *c13Tok) s() string   { return hx.UnH(t.next()) }
func (t *c13Tok) raw() string { return t.next() }

func c13ModelView(r []string) (c13View, []string, string) {
	if len(r) == 0 {
		return c13View{}, nil, "empty answer"
	}
	if strings.HasPrefix(r[0], "!") {
		return c13View{}, nil, r[0]
	}
	t := &c13Tok{f: r, i: 1}
	switch r[0] {
	case "err":
		var fields []string
		for t.i < len(r) {
			f := t.raw()
			if strings.HasPrefix(f, "#") {
				fields = append(fields, f[1:])
			} else {
				fields = append(fields, hx.UnH(f))
			}
		}
		return c13View{Err: "rejected"}, fields, ""
	case "ok":
		v := c13View{Lookup: map[string]string{}}
		for k := t.n(); k > 0; k-- {
			name, file, p := t.s(), t.s(), t.n()
			v.Lookup[name] = fmt.Sprintf("%s:%d", file, p)
		}
		for k := t.n(); k > 0; k-- {
			var sb strings.Builder
			sb.WriteString(t.s())
			for m := t.n(); m > 0; m-- {
				id := strings.TrimPrefix(t.raw(), "#")
				names := []string{}
				for q := t.n(); q > 0; q-- {
					names = append(names, t.s())
				}
				fmt.Fprintf(&sb, " %s %q", id, names)
			}
			v.Msgs = append(v.Msgs, sb.String())
		}
		for k := t.n(); k > 0; k-- {
			file, st, x := t.s(), t.raw(), t.s()
			switch st {
			case "ok":
				v.Imports = append(v.Imports, file+" ok "+x)
			case "err":
				v.Imports = append(v.Imports, file+" err")
			default: // outofmodel / fuel / crash: the generator model does not cover the file
				v.Imports = append(v.Imports, file+" skip "+st)
			}
		}
		return v, nil, ""
	}
	return c13View{}, nil, "unexpected answer " + r[0]
}

func c13List(s string) []string {
	if s == "" {
		return nil
	}
	return strings.Split(s, ",")
}

// c13ErrMatches says whether the Go error text is the one the model's error stands for.
func c13ErrMatches(text string, f []string) (bool, string) {
	for len(f) < 6 {
		f = append(f, "")
	}
	exact := func(want string) (bool, string) { return text == want, want }
	prefix := func(want string) (bool, string) { return strings.HasPrefix(text, want), want + "..." }
	switch f[0] {
	case "globals-redefined":
		return exact(fmt.Sprintf("global %q already defined as %q", f[1], f[2]))
	case "parse":
		return exact(f[2])
	case "add:namespace-expected":
		return prefix("expected namespace, found ")
	case "add:namespace-required":
		return exact("namespace required")
	case "add:both-params":
		return exact("template may not have both soydoc and header params specified")
	case "add:duplicate":
		return exact(fmt.Sprintf("template %q is defined more than once (in %s and in %s)", f[2], f[3], f[4]))
	case "check:let-ij":
		return exact(fmt.Sprintf("template %v: Invalid variable name in 'let' command text: '$ij'", f[1]))
	case "check:call-not-found":
		return exact(fmt.Sprintf("template %v: {call}: template %q not found", f[1], f[2]))
	case "check:undeclared-params":
		return exact(fmt.Sprintf("template %v: Params %q are not declared by the callee.", f[1], c13List(f[2])))
	case "check:missing-params":
		return prefix(fmt.Sprintf("template %v: Required params %q are not passed by the call: ", f[1], c13List(f[2])))
	case "check:unused-lets":
		return exact(fmt.Sprintf("template %v: {let} variables %q are not used.", f[1], c13List(f[2])))
	case "check:dataref":
		re := regexp.MustCompile("^" + regexp.QuoteMeta(fmt.Sprintf("template %v: data ref %q not found. params: ", f[1], f[2])) + `\[[^\]]*\]` +
			regexp.QuoteMeta(fmt.Sprintf(", variables in scope: %v", c13List(f[3]))) + "$")
		return re.MatchString(text), re.String()
	case "check:header-param":
		return exact(fmt.Sprintf("template %v: unexpected {@param ...} tag found", f[1]))
	case "check:unused-params":
		return exact(fmt.Sprintf("template %v: params %q are unused", f[1], c13List(f[2])))
	case "check:loop-func":
		return exact(fmt.Sprintf("template %v: function %s: $%s is not the variable of an enclosing loop", f[1], f[2], f[3]))
	case "check:loop-func-arity": // C14-loopfunc-shape: not exactly one argument
		return exact(fmt.Sprintf("template %v: function %s takes the variable of an enclosing loop, got %s arguments", f[1], f[2], f[3]))
	case "check:loop-func-arg": // C14-loopfunc-shape: the argument is printed by its String(), which the model does not rebuild
		want := fmt.Sprintf("template %v: function %s: ", f[1], f[2])
		return strings.HasPrefix(text, want) && strings.HasSuffix(text, " is not the variable of an enclosing loop"), want + "... is not the variable of an enclosing loop"
	case "check:bad-call-param":
		return exact(fmt.Sprintf("template %v: unexpected call param type", f[1]))
	case "global:undefined":
		return exact(fmt.Sprintf("template %v: global %q is undefined", f[1], f[2]))
	}
	return false, "(model outcome " + f[0] + " has no Go text)"
}

// c13ErrMentions is the fall-back when the text is not the one rebuilt from the
// model's fields: the error still names the same unit and the same identifiers
// (every field but the class; lists item by item).  Errors without such fields
// (namespace, soydoc+header params) are only compared on accept/reject.
func c13ErrMentions(text string, f []string) bool {
	switch f[0] {
	case "parse", "add:crash", "add:outofmodel", "check:fuel", "global:fuel":
		return false
	case "add:namespace-expected", "add:namespace-required", "add:both-params":
		return true
	}
	fields := f[1:]
	if strings.HasPrefix(f[0], "add:") && len(fields) > 0 {
		fields = fields[1:] // the file being added is not part of any Add error text by itself
	}
	if f[0] == "globals-redefined" && len(fields) > 1 {
		fields = fields[:1]
	}
	if f[0] == "check:missing-params" && len(fields) > 2 {
		fields = fields[:2] // the position of the call is not printed
	}
	for _, fld := range fields {
		for _, item := range strings.Split(fld, ",") {
			if item != "" && !strings.Contains(text, item) {
				return false
			}
		}
	}
	return true
}

// ---------- Registry.Add on a tree that Add has rewritten ----------

// c13AddView is what one Registry.Add (on an empty registry) makes of a tree.
func c13AddView(tree *ast.SoyFileNode) (s string) {
	defer func() {
		if r := recover(); r != nil {
			s = fmt.Sprint("PANIC: ", r)
		}
	}()
	var reg template.Registry
	if err := reg.Add(tree); err != nil {
		return "error: " + err.Error()
	}
	var sb strings.Builder
	for _, t := range reg.Templates {
		fmt.Fprintf(&sb, "%s(", t.Node.Name)
		for _, p := range t.Doc.Params {
			fmt.Fprintf(&sb, "%s:%v@%d,", p.Name, p.Optional, p.Pos)
		}
		fmt.Fprintf(&sb, ")=%q\n", t.Node.Body.String())
	}
	return sb.String()
}

// c13Documented: every template whose body starts with {@param} nodes has a
// SoyDoc node directly in front of it (Spec/Determinism.v headers_documented).
func c13Documented(tree *ast.SoyFileNode) (documented bool, headers int) {
	documented = true
	for i, n := range tree.Body {
		tn, ok := n.(*ast.TemplateNode)
		if !ok || tn.Body == nil || len(tn.Body.Nodes) == 0 {
			continue
		}
		if _, hp := tn.Body.Nodes[0].(*ast.HeaderParamNode); !hp {
			continue
		}
		headers++
		if i == 0 {
			documented = false
		} else if _, isDoc := tree.Body[i-1].(*ast.SoyDocNode); !isDoc {
			documented = false
		}
	}
	return
}

// c13Readd replays C13_add_of_rewritten_tree / C13_add_rewriting_idempotent on
// the implementation: every file of the case is parsed once and the SAME tree is
// handed to Registry.Add three times (each time to an empty registry).  Second
// and third Add always agree; when every template with header params has a
// SoyDoc in front they agree with the first as well (templates, params with
// positions, bodies, or the error text).  A disagreement is a mismatch between
// the model's account of Add's in-place rewriting and the code -- not a
// violation of the property, which Bundle.Compile meets by parsing anew.
func c13Readd(e *env, c *c13Case) {
	for _, f := range c.Files {
		tree, err := func() (t *ast.SoyFileNode, err error) {
			defer func() {
				if r := recover(); r != nil {
					t, err = nil, fmt.Errorf("panic")
				}
			}()
			return parse.SoyFile(f.Name, f.Text)
		}()
		if err != nil || tree == nil {
			continue
		}
		documented, headers := c13Documented(tree)
		v1 := c13AddView(tree)
		v2 := c13AddView(tree)
		v3 := c13AddView(tree)
		e.res.Histogram["readd:files"]++
		if headers > 0 {
			e.res.Histogram["readd:files-with-header-params"]++
		}
		cs := c13Replay{Case: c13Case{Files: []srcFile{f}}}
		if v2 != v3 {
			x, y := c13Around(v2, v3)
			e.res.Fail(hx.Violation{Kind: "mismatch", What: "Registry.Add is not idempotent on the tree it has rewritten (second and third Add of one tree differ; model: C13_add_rewriting_idempotent)",
				Case: cs, Expected: hx.Q(x), Observed: hx.Q(y)}, "")
			return
		}
		if documented {
			if headers > 0 {
				e.res.Histogram["readd:documented-header-params-compared"]++
			}
			if v1 != v2 {
				x, y := c13Around(v1, v2)
				e.res.Fail(hx.Violation{Kind: "mismatch", What: "Registry.Add of a tree it has rewritten before differs from the first Add although every template with header params has a soydoc in front (model: C13_add_of_rewritten_tree)",
					Case: cs, Expected: hx.Q(x), Observed: hx.Q(y)}, "")
				return
			}
		} else if v1 != v2 {
			e.res.Histogram["readd:undocumented-header-params-lost-on-second-add"]++ // the refuted full statement, on the code
		} else {
			e.res.Histogram["readd:undocumented-same(error)"]++
		}
	}
}

// ---------- the comparison ----------

func c13Model(e *env, c *c13Case, orders [][]int, first *c13Obs, reg *template.Registry) {
	c13Readd(e, c)
	if e.m == nil {
		return
	}
	globals := data.Map{}
	for _, gs := range c.Globals {
		if m, err := c13GlobalsMap(gs); err == nil {
			for k, v := range m {
				if _, dup := globals[k]; !dup {
					globals[k] = v
				}
			}
		}
	}
	fileSexps := make([]string, len(c.Files))
	for i, f := range c.Files {
		s, ok := c13FileSexp(f, globals)
		if !ok {
			e.res.Histogram["model:skipped(parser panic)"]++
			return
		}
		fileSexps[i] = s
	}
	// the identity order and up to two others
	sel := [][]int{orders[0]}
	for k := 0; k < 2 && len(orders) > 1; k++ {
		sel = append(sel, orders[1+e.rng.Intn(len(orders)-1)])
	}
	for pi, p := range sel {
		bs, ok := c13BundleSexp(c, p, fileSexps)
		if !ok {
			e.res.Histogram["model:skipped(globals)"]++
			return
		}
		gv := c13GoView(c, p)
		// the JavaScript of the files is generated by the model for the identity order only
		// (the other orders hand the same files to the generator: C13_same_js_inputs)
		v0, v1 := "#0", "#1"
		if pi > 0 {
			v0, v1 = "#4", "#5"
		}
		resp := e.m.Batch([]string{"c13 " + v0 + " " + bs, "c13 " + v1 + " " + bs})
		e.res.Histogram["model:compared"]++
		cs := c13Replay{Case: *c, Order: p}
		for vi, r := range resp {
			mv, fields, problem := c13ModelView(r)
			tag := []string{"identity oracles", "reversing oracles"}[vi]
			if problem != "" {
				e.res.Fail(hx.Violation{Kind: "mismatch", What: "the model does not answer (" + tag + "): " + problem, Case: cs}, "")
				return
			}
			if (mv.Err == "") != (gv.Err == "") {
				e.res.Fail(hx.Violation{Kind: "mismatch", What: "model and implementation disagree on accept/reject (" + tag + ")", Case: cs,
					Expected: fmt.Sprint("model: ", mv.Err, " ", fields), Observed: hx.Q(gv.Err)}, "")
				return
			}
			if gv.Err != "" {
				e.res.Histogram["model:err:"+fields[0]]++
				if ok, want := c13ErrMatches(gv.Err, fields); !ok && c13ErrMentions(gv.Err, fields) {
					// the same unit and names, another wording: the property is not about the wording
					e.res.Histogram["model:err:wording-differs"]++
				} else if !ok {
					e.res.Fail(hx.Violation{Kind: "mismatch", What: "the compile error differs from the model's (" + tag + ")", Case: cs,
						Expected: hx.Q(want), Observed: hx.Q(gv.Err)}, "")
					return
				}
				continue
			}
			if fmt.Sprint(mv.Lookup) != fmt.Sprint(gv.Lookup) {
				e.res.Fail(hx.Violation{Kind: "mismatch", What: "template lookup differs from the model (" + tag + ")", Case: cs,
					Expected: fmt.Sprint(mv.Lookup), Observed: fmt.Sprint(gv.Lookup)}, "")
				return
			}
			if strings.Join(mv.Msgs, "\n") != strings.Join(gv.Msgs, "\n") {
				x, y := c13Around(strings.Join(mv.Msgs, "\n"), strings.Join(gv.Msgs, "\n"))
				e.res.Fail(hx.Violation{Kind: "mismatch", What: "message ids / placeholder names differ from the model (" + tag + ")", Case: cs,
					Expected: hx.Q(x), Observed: hx.Q(y)}, "")
				return
			}
			for fi := range mv.Imports {
				if fi >= len(gv.Imports) {
					break
				}
				if strings.Contains(mv.Imports[fi], " skip ") {
					e.res.Histogram["model:js:"+mv.Imports[fi][strings.Index(mv.Imports[fi], " skip ")+6:]]++
					continue
				}
				e.res.Histogram["model:js:compared"]++
				if mv.Imports[fi] != gv.Imports[fi] {
					x, y := c13Around(mv.Imports[fi], gv.Imports[fi])
					e.res.Fail(hx.Violation{Kind: "mismatch", What: "the generated ES6 JavaScript differs from the generator model run on the compile model's file (" + tag + ")", Case: cs,
						Expected: hx.Q(x), Observed: hx.Q(y)}, "")
					return
				}
			}
		}
	}
	_ = strconv.Itoa
}
