//go:build c13

package main

import "github.com/robfig/soy/template"

// c13Model compares the implementation with Model/Compile.v (filled in with the model).
func c13Model(e *env, c *c13Case, orders [][]int, first *c13Obs, reg *template.Registry) {}
