//go:build c01

package main

// C01 expression generator: typed expression trees over the Spec syntax of
// coq/Spec/Expr.v, their S-expression (read by ocaml/ops_exprspec.ml) and their
// Soy source text with minimal or redundant parentheses and randomised surface
// style.  The tree, not the text, is what the Spec evaluates.

import (
	"fmt"
	"math"
	"math/big"
	"os"
	"strconv"
	"strings"
	"unicode/utf8"

	"github.com/robfig/soy/data"
	"soyverif/internal/hx"
)

// ---------- trees ----------

type xacc struct {
	kind byte // 'k' .key, 'i' .N, 'x' [e]
	ns   bool
	key  string
	idx  int64
	e    *xe
}

type xe struct {
	op   string // null bool int float str list map global ref ij call neg not bin elvis tern
	b    bool
	i    int64
	f    float64
	s    string
	bop  string // mul div mod add sub lt gt le ge eq ne and or
	fn   string
	name string // global name / ref key
	accs []xacc
	kids []*xe
	keys []string // map literal keys
	lit  string   // surface text of a literal, fixed at generation time
}

var bopSym = map[string]string{"mul": "*", "div": "/", "mod": "%", "add": "+", "sub": "-", "lt": "<", "gt": ">", "le": "<=", "ge": ">=",
	"eq": "==", "ne": "!=", "and": "and", "or": "or"}
var bopLevel = map[string]int{"mul": 7, "div": 7, "mod": 7, "add": 6, "sub": 6, "lt": 5, "gt": 5, "le": 5, "ge": 5, "eq": 4, "ne": 4, "and": 3, "or": 2}
var allBops = []string{"mul", "div", "mod", "add", "sub", "lt", "gt", "le", "ge", "eq", "ne", "and", "or"}

// level of the outermost operator: ternary 0, elvis 1, or 2, and 3, == 4, < 5, + 6, * 7, unary 8, primary 9
func (e *xe) level() int {
	switch e.op {
	case "tern":
		return 0
	case "elvis":
		return 1
	case "bin":
		return bopLevel[e.bop]
	case "neg", "not":
		return 8
	}
	return 9
}

func (e *xe) sexp() string {
	switch e.op {
	case "null":
		return "enull"
	case "bool":
		return "(eb " + b01(e.b) + ")"
	case "int":
		return "(ei " + strconv.FormatInt(e.i, 10) + ")"
	case "float":
		return "(ef " + flSexp(e.f) + ")"
	case "str":
		return "(es " + sx(e.s) + ")"
	case "list":
		return "(el" + kidsSexp(e.kids) + ")"
	case "map":
		var b strings.Builder
		b.WriteString("(em")
		for i, k := range e.keys {
			b.WriteString(" (" + sx(k) + " " + e.kids[i].sexp() + ")")
		}
		b.WriteString(")")
		return b.String()
	case "global":
		return "(eg " + sx(e.name) + ")"
	case "ref":
		return "(er " + sx(e.name) + accsSexp(e.accs) + ")"
	case "ij":
		return "(eij" + accsSexp(e.accs) + ")"
	case "call":
		return "(ec " + e.fn + kidsSexp(e.kids) + ")"
	case "neg":
		return "(neg " + e.kids[0].sexp() + ")"
	case "not":
		return "(not " + e.kids[0].sexp() + ")"
	case "bin":
		return "(bin " + e.bop + " " + e.kids[0].sexp() + " " + e.kids[1].sexp() + ")"
	case "elvis":
		return "(elvis " + e.kids[0].sexp() + " " + e.kids[1].sexp() + ")"
	case "tern":
		return "(tern " + e.kids[0].sexp() + " " + e.kids[1].sexp() + " " + e.kids[2].sexp() + ")"
	}
	panic("sexp: " + e.op)
}

func kidsSexp(ks []*xe) string {
	var b strings.Builder
	for _, k := range ks {
		b.WriteString(" " + k.sexp())
	}
	return b.String()
}

func accsSexp(as []xacc) string {
	var b strings.Builder
	for _, a := range as {
		switch a.kind {
		case 'k':
			b.WriteString(" (k " + b01(a.ns) + " " + sx(a.key) + ")")
		case 'i':
			b.WriteString(" (i " + b01(a.ns) + " " + strconv.FormatInt(a.idx, 10) + ")")
		case 'x':
			b.WriteString(" (x " + b01(a.ns) + " " + a.e.sexp() + ")")
		}
	}
	return b.String()
}

// every data reference key used by the tree ("ij" excluded)
func (e *xe) refs(into map[string]bool) {
	if e.op == "ref" {
		into[e.name] = true
	}
	for _, a := range e.accs {
		if a.kind == 'x' {
			a.e.refs(into)
		}
	}
	for _, k := range e.kids {
		k.refs(into)
	}
}

func (e *xe) uses(op string) bool {
	if e.op == op {
		return true
	}
	for _, a := range e.accs {
		if a.kind == 'x' && a.e.uses(op) {
			return true
		}
	}
	for _, k := range e.kids {
		if k.uses(op) {
			return true
		}
	}
	return false
}

func (e *xe) size() int {
	n := 1
	for _, a := range e.accs {
		n++
		if a.kind == 'x' {
			n += a.e.size()
		}
	}
	for _, k := range e.kids {
		n += k.size()
	}
	return n
}

// constructs of the tree, for the histogram
func (e *xe) constructs(into map[string]bool) {
	switch e.op {
	case "bin":
		into["op:"+bopSym[e.bop]] = true
	case "call":
		into["fn:"+e.fn] = true
	case "int":
		if strings.HasPrefix(e.lit, "0x") {
			into["lit:hex"] = true
		} else if e.i < 0 {
			into["lit:negative-int"] = true
		} else {
			into["lit:int"] = true
		}
	case "float":
		if strings.Contains(e.lit, "e") {
			into["lit:float-exponent"] = true
		} else {
			into["lit:float"] = true
		}
	case "str":
		if strings.Contains(e.lit, "\\u") {
			into["lit:string-\\u"] = true
		} else if strings.Contains(e.lit, "\\") {
			into["lit:string-escape"] = true
		} else {
			into["lit:string"] = true
		}
	default:
		into[e.op] = true
	}
	for _, a := range e.accs {
		nm := map[byte]string{'k': ".key", 'i': ".N", 'x': "[e]"}[a.kind]
		if a.ns {
			nm = "?" + nm
		}
		into["acc:"+nm] = true
		if a.kind == 'x' {
			a.e.constructs(into)
		}
	}
	for _, k := range e.kids {
		k.constructs(into)
	}
}

// ---------- source text ----------

type xstyle struct {
	attr      bool // inside a quoted attribute: the text goes through Go's strconv.Unquote first, so no tab, backslash or double quote
	r         *hx.Rand
	redundant int // percent chance of a redundant pair of parentheses at a node
	tight     int // percent chance of omitting the spaces around a symbolic operator
}

func (st *xstyle) spaces() string {
	if st.r == nil {
		return " "
	}
	switch st.r.Intn(8) {
	case 0:
		return "  "
	case 1:
		if !st.attr {
			return " \t"
		}
	}
	return " "
}

// src prints e where an expression of level >= min may stand unparenthesised.
func (e *xe) src(st *xstyle, min int) string {
	s := e.src0(st)
	if e.level() < min || (st.r != nil && st.redundant > 0 && st.r.Chance(st.redundant)) {
		if st.r != nil && st.r.Chance(20) {
			return "( " + s + " )"
		}
		return "(" + s + ")"
	}
	return s
}

func startsNumeric(s string) bool {
	return s != "" && (s[0] >= '0' && s[0] <= '9')
}

func (e *xe) src0(st *xstyle) string {
	switch e.op {
	case "null":
		return "null"
	case "bool":
		if e.b {
			return "true"
		}
		return "false"
	case "int", "float", "str":
		return e.lit
	case "list":
		parts := make([]string, len(e.kids))
		for i, k := range e.kids {
			parts[i] = k.src(st, 0)
		}
		return "[" + strings.Join(parts, ","+st.optSpace()) + "]"
	case "map":
		if len(e.kids) == 0 {
			return "[:]"
		}
		parts := make([]string, len(e.kids))
		for i, k := range e.kids {
			parts[i] = soyQuote(st, e.keys[i]) + ":" + st.optSpace() + k.src(st, 0)
		}
		return "[" + strings.Join(parts, ","+st.optSpace()) + "]"
	case "global":
		return e.name
	case "ref":
		return "$" + e.name + accsSrc(st, e.accs)
	case "ij":
		return "$ij" + accsSrc(st, e.accs)
	case "call":
		parts := make([]string, len(e.kids))
		for i, k := range e.kids {
			parts[i] = k.src(st, 0)
		}
		return e.fn + "(" + strings.Join(parts, ","+st.optSpace()) + ")"
	case "neg":
		a := e.kids[0].src(st, 8)
		// "-5" is a literal, not a negation: separate the sign from a digit
		// ("-0x1F" in one piece is a lexical error by decision: parse TestScanNumber pins it as an invalid integer)
		if startsNumeric(a) {
			if st.r != nil && st.r.Chance(50) {
				return "-(" + a + ")"
			}
			return "- " + a
		}
		if st.r != nil && st.r.Chance(25) {
			return "- " + a
		}
		return "-" + a
	case "not":
		return "not" + st.spaces() + e.kids[0].src(st, 8)
	case "bin":
		lv := bopLevel[e.bop]
		l := e.kids[0].src(st, lv)
		r := e.kids[1].src(st, lv+1)
		sym := bopSym[e.bop]
		if sym != "and" && sym != "or" && st.r != nil && st.r.Chance(st.tight) {
			return l + sym + r
		}
		return l + st.spaces() + sym + st.spaces() + r
	case "elvis":
		// written left-associatively; a ternary operand is always parenthesised
		return e.kids[0].src(st, 1) + st.spaces() + "?:" + st.spaces() + e.kids[1].src(st, 2)
	case "tern":
		// the condition is parenthesised when it is itself a ternary or an elvis
		return e.kids[0].src(st, 2) + st.spaces() + "?" + st.spaces() + e.kids[1].src(st, 0) + st.spaces() + ":" + st.spaces() + e.kids[2].src(st, 0)
	}
	panic("src: " + e.op)
}

func (st *xstyle) optSpace() string {
	if st.r != nil && st.r.Chance(30) {
		return ""
	}
	return " "
}

func accsSrc(st *xstyle, as []xacc) string {
	var b strings.Builder
	for _, a := range as {
		q := ""
		if a.ns {
			q = "?"
		}
		switch a.kind {
		case 'k':
			b.WriteString(q + "." + a.key)
		case 'i':
			b.WriteString(q + "." + strconv.FormatInt(a.idx, 10))
		case 'x':
			b.WriteString(q + "[" + a.e.src(st, 0) + "]")
		}
	}
	return b.String()
}

// soyQuote writes a string literal; every character that has an escape is
// written raw or escaped at random (quote and backslash always escaped).
func soyQuote(st *xstyle, s string) string {
	var b strings.Builder
	b.WriteByte('\'')
	for _, r := range s {
		esc := st != nil && st.r != nil && !st.attr && st.r.Chance(35)
		switch {
		case r == '\'':
			if esc {
				b.WriteString(`\u0027`)
			} else {
				b.WriteString(`\'`)
			}
		case r == '\\':
			if esc {
				b.WriteString(`\u005C`)
			} else {
				b.WriteString(`\\`)
			}
		case r == '\n':
			b.WriteString(`\n`)
		case r == '\r':
			b.WriteString(`\r`)
		case r == '\t':
			if esc {
				b.WriteString(`\u0009`)
			} else {
				b.WriteString(`\t`)
			}
		case r == '\b':
			b.WriteString(`\b`)
		case r == '\f':
			b.WriteString(`\f`)
		case r < 0x20 || r == 0x7f:
			fmt.Fprintf(&b, `\u%04X`, r)
		case r < 0x10000 && esc:
			if st.r.Bool() {
				fmt.Fprintf(&b, `\u%04X`, r)
			} else {
				fmt.Fprintf(&b, `\u%04x`, r)
			}
		default:
			b.WriteRune(r)
		}
	}
	b.WriteByte('\'')
	return b.String()
}

// ---------- literals ----------

func xNull() *xe          { return &xe{op: "null"} }
func xBool(b bool) *xe    { return &xe{op: "bool", b: b} }
func xIntLit(i int64) *xe { return &xe{op: "int", i: i, lit: strconv.FormatInt(i, 10)} }
func xHex(i int64) *xe {
	return &xe{op: "int", i: i, lit: "0x" + strings.ToUpper(strconv.FormatInt(i, 16))}
}
func xStr(st *xstyle, s string) *xe {
	return &xe{op: "str", s: s, lit: soyQuote(st, s)}
}
func xRef(name string, accs ...xacc) *xe { return &xe{op: "ref", name: name, accs: accs} }
func xBin(op string, a, c *xe) *xe       { return &xe{op: "bin", bop: op, kids: []*xe{a, c}} }
func xCall(fn string, args ...*xe) *xe   { return &xe{op: "call", fn: fn, kids: args} }
func xNeg(a *xe) *xe                     { return &xe{op: "neg", kids: []*xe{a}} }
func xNot(a *xe) *xe                     { return &xe{op: "not", kids: []*xe{a}} }
func xElvis(a, c *xe) *xe                { return &xe{op: "elvis", kids: []*xe{a, c}} }
func xTern(c, a, d *xe) *xe              { return &xe{op: "tern", kids: []*xe{c, a, d}} }
func xList(items ...*xe) *xe             { return &xe{op: "list", kids: items} }
func xMap(keys []string, vals []*xe) *xe { return &xe{op: "map", keys: keys, kids: vals} }
func aKey(ns bool, k string) xacc        { return xacc{kind: 'k', ns: ns, key: k} }
func aIdx(ns bool, i int64) xacc         { return xacc{kind: 'i', ns: ns, idx: i} }
func aExpr(ns bool, e *xe) xacc          { return xacc{kind: 'x', ns: ns, e: e} }

// exact decimal expansion of a float64 (every finite float64 is a dyadic rational)
func decimalOf(f float64) string {
	r := new(big.Rat).SetFloat64(f)
	if r == nil {
		return "0"
	}
	s := r.FloatString(1100)
	if strings.Contains(s, ".") {
		s = strings.TrimRight(s, "0")
		s = strings.TrimSuffix(s, ".")
	}
	return s
}

// xFloatLit writes f (non-negative magnitude handled by the sign) in one of the literal
// forms of the grammar: digits.digits, or a mantissa with a lower-case exponent.
func xFloatLit(r *hx.Rand, f float64) *xe {
	neg := f < 0 || (f == 0 && math.Signbit(f))
	mag := math.Abs(f)
	dec := decimalOf(mag) // e.g. "150", "0.125", "12.5"
	ip, fp := dec, ""
	if i := strings.IndexByte(dec, '.'); i >= 0 {
		ip, fp = dec[:i], dec[i+1:]
	}
	lit := ""
	form := 0
	if r != nil {
		form = r.Intn(4)
	}
	switch form {
	case 0, 1: // plain: a fraction part is mandatory
		if fp == "" {
			fp = "0"
		}
		lit = ip + "." + fp
	case 2: // positive exponent: move the point k places to the left
		digits := strings.TrimLeft(ip, "0")
		if digits == "" {
			// below 1: use a negative exponent instead
			all := strings.TrimLeft(fp, "0")
			if all == "" {
				lit = "0e0"
			} else {
				lit = all + "e-" + strconv.Itoa(len(fp))
			}
			break
		}
		k := len(digits) - 1
		m := digits[:1]
		rest := strings.TrimRight(digits[1:]+fp, "0")
		if rest != "" {
			m += "." + rest
		}
		lit = m + "e" + strconv.Itoa(k)
		if r.Bool() {
			lit = m + "e+" + strconv.Itoa(k)
		}
	case 3: // negative exponent: an integer mantissa
		all := strings.TrimLeft(ip+fp, "0")
		if all == "" {
			all = "0"
		}
		lit = all + "e-" + strconv.Itoa(len(fp))
		if fp == "" {
			lit = all + "e0"
		}
	}
	if neg {
		lit = "-" + lit
	}
	return &xe{op: "float", f: f, lit: lit}
}

// ---------- data domains ----------

var xStrings = []string{"", "a", "hello", "x y", "<b>", "a&b", "it's", "q\"q", "é", "日本語", "😀", "line\nbreak", "tab\there", "back\\slash",
	"1", "0", "true", "null", "</script>", "&amp;", "<>&\"'", " ", "z\u0001", "k"}

func xPickString(r *hx.Rand) string { return xStrings[r.Intn(len(xStrings))] }

func xPickInt(r *hx.Rand) int64 {
	switch r.Intn(10) {
	case 0:
		return 0
	case 1:
		return -1
	case 2:
		return 1
	case 3: // 53-bit
		v := int64(r.U64() & ((1 << 53) - 1))
		if r.Bool() {
			v = -v
		}
		return v
	case 4:
		return (1 << 53) - 1 - int64(r.Intn(3))
	case 5:
		return int64(r.Intn(100000)) - 50000
	}
	return int64(r.Intn(41)) - 20
}

// floats of the data and of the literals.  Two thirds small dyadics (|x| < 2^11, at most 6 fraction bits: sums, products
// and most quotients of them stay exact); one third from the rest of the printing domain: magnitudes from 2^8 to 2^62 and
// from 2^-40 to 2^-12 (Go's exponent form from 10^6 up and below 10^-4), the thresholds themselves, and float64 values
// whose shortest decimal is not their exact expansion (0.1, 1e-7, 2^53+2 ...).
var xFloatSpecials = []float64{1e6, 999999.5, 999999.9375, 1e5, 1234567, 1e15, 1e21, 1 << 53, (1 << 53) + 2, 1 << 62, 0.0001220703125, 0.00006103515625,
	0.0001, 0.1, 0.3, 1e-7, 123456789.125, 4.35, 2.5e-5, 1e100, 33554432.5, 0.000091552734375}

// VERIF_C01_NARROW_FLOATS=1 restores the floats of the generator before Num.fl_to_string covered every float64
// (|x| < 2^11, at most 6 fraction bits), to measure the skipped fraction on the same cases as before.
var xNarrowFloats = os.Getenv("VERIF_C01_NARROW_FLOATS") != ""

func xPickFloat(r *hx.Rand) float64 {
	if xNarrowFloats {
		switch r.Intn(8) {
		case 0:
			return 0
		case 1:
			return 0.5
		case 2:
			return -1.5
		case 3:
			return float64(r.Intn(1000))
		}
		m := int64(r.Intn(1<<12)) - (1 << 11)
		k := r.Intn(7)
		return float64(m) / float64(int64(1)<<uint(k))
	}
	switch r.Intn(12) {
	case 0:
		return 0
	case 1:
		return 0.5
	case 2:
		return -1.5
	case 3:
		return float64(r.Intn(1000))
	case 8: // large
		return float64(int64(r.Intn(1<<12))-(1<<11)) * float64(int64(1)<<uint(8+r.Intn(43)))
	case 9: // small
		return float64(int64(r.Intn(1<<12))-(1<<11)) / float64(int64(1)<<uint(12+r.Intn(29)))
	case 10:
		f := xFloatSpecials[r.Intn(len(xFloatSpecials))]
		if r.Chance(30) {
			f = -f
		}
		return f
	}
	m := int64(r.Intn(1<<12)) - (1 << 11)
	k := r.Intn(7)
	return float64(m) / float64(int64(1)<<uint(k))
}

// xData is the data every case renders with; the template declares only the params its expression uses.
type xData struct {
	vals map[string]data.Value
	ij   data.Map
}

func xGenData(r *hx.Rand) *xData {
	d := &xData{vals: map[string]data.Value{}}
	d.vals["i1"] = data.Int(xPickInt(r))
	d.vals["i2"] = data.Int(int64(r.Intn(9)) - 2)
	d.vals["f1"] = data.Float(xPickFloat(r))
	d.vals["f2"] = data.Float(xPickFloat(r))
	d.vals["s1"] = data.String(xPickString(r))
	d.vals["s2"] = data.String(xPickString(r))
	d.vals["b1"] = data.Bool(r.Bool())
	d.vals["b2"] = data.Bool(r.Bool())
	d.vals["n"] = data.Null{}
	// "u" is never supplied: undefined
	l1 := data.List{}
	for i, n := 0, 1+r.Intn(4); i < n; i++ {
		l1 = append(l1, data.Int(xPickInt(r)))
	}
	d.vals["l1"] = l1
	d.vals["l2"] = data.List{data.String(xPickString(r)), data.Float(xPickFloat(r)), data.Null{}, data.Bool(r.Bool()),
		data.List{data.Int(1), data.String("in")}, data.Map{"k": data.Int(int64(r.Intn(5)))}}
	d.vals["le"] = data.List{}
	inner := data.Map{"x": data.Int(xPickInt(r)), "y": data.String(xPickString(r)), "l": data.List{data.Int(7), data.Int(8)}}
	m1 := data.Map{"a": data.Int(int64(r.Intn(20))), "b": data.String(xPickString(r)), "c": l1, "d": inner, "k": data.String("a"),
		"true": data.Int(11), "null": data.Int(12), "1.5": data.Int(13)}
	if r.Chance(50) {
		m1[""] = data.String("empty-key")
	}
	d.vals["m1"] = m1
	d.vals["m2"] = data.Map{"a": data.Float(xPickFloat(r)), "z": data.Bool(r.Bool()), "k": data.String(xPickString(r))}
	d.vals["me"] = data.Map{}
	d.ij = data.Map{"k": data.Int(xPickInt(r)), "s": data.String(xPickString(r)), "m": inner, "l": l1}
	return d
}

// ---------- typed generation ----------

type xkind int

const (
	xkInt xkind = iota
	xkFloat
	xkStr
	xkBool
	xkList
	xkMap
	xkNull
	xkUndef
	xkAny
)

var xkNames = []string{"int", "float", "string", "bool", "list", "map", "null", "undefined", "any"}

type xgen struct {
	r       *hx.Rand
	st      *xstyle
	ill     int                   // percent chance that a sub-expression is of a random kind instead
	globals map[string]data.Value // compile-time globals available
	noRand  bool                  // no randomInt (its value is not defined)
}

func (g *xgen) pick(l ...string) string { return l[g.r.Intn(len(l))] }

// atom: a literal or a data reference of the given kind
func (g *xgen) atom(k xkind) *xe {
	r := g.r
	switch k {
	case xkInt:
		switch r.Intn(10) {
		case 0:
			return xRef("i1")
		case 1:
			return xRef("i2")
		case 2:
			return xRef("l1", aExpr(false, xIntLit(0)))
		case 3:
			return xRef("m1", aKey(false, "a"))
		case 4:
			return xRef("m1", aKey(false, "d"), aKey(false, "x"))
		case 5:
			return &xe{op: "ij", accs: []xacc{aKey(false, "k")}}
		case 6:
			v := xPickInt(r)
			if v < 0 {
				v = -v
			}
			return xHex(v)
		case 7:
			if _, ok := g.globals["G_INT"]; ok {
				return &xe{op: "global", name: "G_INT"}
			}
		}
		return xIntLit(xPickInt(r))
	case xkFloat:
		switch r.Intn(6) {
		case 0:
			return xRef("f1")
		case 1:
			return xRef("f2")
		case 2:
			return xRef("m2", aKey(false, "a"))
		case 3:
			if _, ok := g.globals["G_FLOAT"]; ok {
				return &xe{op: "global", name: "G_FLOAT"}
			}
		}
		return xFloatLit(r, xPickFloat(r))
	case xkStr:
		switch r.Intn(7) {
		case 0:
			return xRef("s1")
		case 1:
			return xRef("s2")
		case 2:
			return xRef("m1", aKey(false, "b"))
		case 3:
			return &xe{op: "ij", accs: []xacc{aKey(false, "s")}}
		case 4:
			if _, ok := g.globals["G_STR"]; ok {
				return &xe{op: "global", name: "G_STR"}
			}
		}
		return xStr(g.st, xPickString(r))
	case xkBool:
		switch r.Intn(5) {
		case 0:
			return xRef("b1")
		case 1:
			return xRef("b2")
		case 2:
			return xRef("m2", aKey(false, "z"))
		}
		return xBool(r.Bool())
	case xkList:
		switch r.Intn(6) {
		case 0:
			return xRef("l1")
		case 1:
			return xRef("l2")
		case 2:
			return xRef("le")
		case 3:
			return xRef("m1", aKey(false, "c"))
		case 4:
			return xList()
		}
		return xList(g.atom(xkInt), g.atom(g.scalarKind()))
	case xkMap:
		switch r.Intn(6) {
		case 0:
			return xRef("m1")
		case 1:
			return xRef("m2")
		case 2:
			return xRef("me")
		case 3:
			return xRef("m1", aKey(false, "d"))
		case 4:
			return xMap(nil, nil)
		}
		return xMap([]string{"a", "q"}, []*xe{g.atom(xkInt), g.atom(g.scalarKind())})
	case xkNull:
		switch r.Intn(4) {
		case 0:
			return xRef("n")
		case 1:
			return xRef("u", aKey(true, "x"))
		case 2:
			return xRef("n", aExpr(true, xIntLit(0)), aKey(false, "y"))
		}
		return xNull()
	case xkUndef:
		switch r.Intn(5) {
		case 0:
			return xRef("l1", aExpr(false, xIntLit(99)))
		case 1:
			return xRef("m1", aKey(false, "nokey"))
		case 2:
			return xRef("le", aIdx(false, 0))
		case 3:
			return xRef("m1", aExpr(false, xStr(g.st, "absent")))
		}
		return xRef("u")
	}
	return g.atom(xkind(r.Intn(8)))
}

func (g *xgen) scalarKind() xkind { return []xkind{xkInt, xkFloat, xkStr, xkBool, xkNull}[g.r.Intn(5)] }
func (g *xgen) numKind() xkind {
	if g.r.Bool() {
		return xkInt
	}
	return xkFloat
}

// gen produces an expression intended to evaluate to kind k.
func (g *xgen) gen(k xkind, d int) *xe {
	r := g.r
	if g.ill > 0 && r.Chance(g.ill) {
		k = xkind(r.Intn(8))
	}
	if k == xkAny {
		k = xkind(r.Intn(7))
	}
	if d <= 0 || r.Chance(12) {
		return g.atom(k)
	}
	// kind-preserving wrappers available for every kind
	switch r.Intn(12) {
	case 0:
		return xTern(g.gen(xkAny, d-1), g.gen(k, d-1), g.gen(k, d-1))
	case 1:
		if r.Bool() {
			return xElvis(g.gen(k, d-1), g.gen(k, d-1))
		}
		return xElvis(g.gen(xkNull, d-1), g.gen(k, d-1))
	}
	switch k {
	case xkInt:
		switch r.Intn(10) {
		case 0, 1, 2:
			return xBin(g.pick("add", "sub", "mul"), g.gen(xkInt, d-1), g.gen(xkInt, d-1))
		case 3:
			return xBin("mod", g.gen(xkInt, d-1), g.gen(xkInt, d-1))
		case 4:
			return xNeg(g.gen(xkInt, d-1))
		case 5:
			return xCall("length", g.gen(xkList, d-1))
		case 6:
			return xCall(g.pick("round", "floor", "ceiling"), g.gen(g.numKind(), d-1))
		case 7:
			return xCall(g.pick("min", "max"), g.gen(xkInt, d-1), g.gen(xkInt, d-1))
		case 8:
			return xRef("l1", aExpr(false, g.gen(xkInt, d-1)))
		case 9:
			if !g.noRand && r.Chance(30) {
				return xCall("randomInt", g.gen(xkInt, d-1))
			}
			return xCall("round", g.gen(xkFloat, d-1), xIntLit(0))
		}
	case xkFloat:
		switch r.Intn(6) {
		case 0, 1:
			a, c := g.gen(xkFloat, d-1), g.gen(g.numKind(), d-1)
			if r.Bool() {
				a, c = c, a
			}
			return xBin(g.pick("add", "sub", "mul"), a, c)
		case 2:
			return xBin("div", g.gen(g.numKind(), d-1), g.gen(g.numKind(), d-1))
		case 3:
			return xNeg(g.gen(xkFloat, d-1))
		case 4:
			return xCall(g.pick("min", "max"), g.gen(xkFloat, d-1), g.gen(g.numKind(), d-1))
		case 5:
			return xBin("div", g.gen(xkInt, d-1), xIntLit([]int64{1, 2, 4, 8, -2}[r.Intn(5)]))
		}
	case xkStr:
		switch r.Intn(4) {
		case 0:
			return xBin("add", g.gen(xkStr, d-1), g.gen(xkStr, d-1))
		case 1:
			return xBin("add", g.gen(xkStr, d-1), g.gen(xkAny, d-1))
		case 2:
			return xBin("add", g.gen(xkAny, d-1), g.gen(xkStr, d-1))
		case 3:
			return xRef("m1", aExpr(false, g.gen(xkStr, d-1)))
		}
	case xkBool:
		switch r.Intn(10) {
		case 0, 1:
			return xBin(g.pick("lt", "gt", "le", "ge"), g.gen(g.numKind(), d-1), g.gen(g.numKind(), d-1))
		case 2, 3:
			kk := xkind(r.Intn(7))
			kk2 := kk
			if r.Chance(30) {
				kk2 = xkind(r.Intn(8))
			}
			return xBin(g.pick("eq", "ne"), g.gen(kk, d-1), g.gen(kk2, d-1))
		case 4, 5:
			return xBin(g.pick("and", "or"), g.gen(xkAny, d-1), g.gen(xkAny, d-1))
		case 6:
			return xNot(g.gen(xkAny, d-1))
		case 7:
			return xCall("isNonnull", g.gen(xkAny, d-1))
		case 8:
			return xCall("strContains", g.gen(xkStr, d-1), g.gen(xkStr, d-1))
		case 9:
			return xCall("hasData")
		}
	case xkList:
		switch r.Intn(5) {
		case 0:
			n := r.Intn(4)
			items := make([]*xe, n)
			for i := range items {
				items[i] = g.gen(xkAny, d-1)
			}
			return xList(items...)
		case 1:
			return xCall("range", xIntLit(int64(r.Intn(5))))
		case 2:
			return xCall("range", xIntLit(int64(r.Intn(9))-4), xIntLit(int64(r.Intn(7))))
		case 3:
			return xCall("range", xIntLit(int64(r.Intn(4))), xIntLit(int64(r.Intn(12))), xIntLit(int64(1+r.Intn(3))))
		case 4:
			return xCall("keys", g.gen(xkMap, d-1))
		}
	case xkMap:
		switch r.Intn(3) {
		case 0, 1:
			n := r.Intn(4)
			pool := []string{"a", "b", "k", "x y", "é", "", "<", "it's", "z9"}
			seen := map[string]bool{}
			var keys []string
			var vals []*xe
			for i := 0; i < n; i++ {
				key := pool[r.Intn(len(pool))]
				if seen[key] {
					continue
				}
				seen[key] = true
				keys = append(keys, key)
				vals = append(vals, g.gen(xkAny, d-1))
			}
			return xMap(keys, vals)
		case 2:
			return xCall("augmentMap", g.gen(xkMap, d-1), g.gen(xkMap, d-1))
		}
	case xkNull:
		if r.Bool() {
			return xRef("u", aExpr(true, g.gen(xkAny, d-1)))
		}
		return xRef("n", aKey(true, "q"), aExpr(false, g.gen(xkInt, d-1)))
	}
	return g.atom(k)
}

// ---------- the matrices ----------

// one representative operand per value kind and notable value
func (g *xgen) operandPool() []*xe {
	return []*xe{
		xRef("u"), xNull(), xBool(true), xBool(false), xIntLit(0), xIntLit(2), xIntLit(3), xIntLit(-7), xRef("i1"),
		xFloatLit(g.r, 0), xFloatLit(g.r, 2.5), xFloatLit(g.r, 3), xFloatLit(g.r, -7.5), xRef("f1"), xStr(g.st, ""), xStr(g.st, "ab"), xStr(g.st, "3"), xRef("s1"),
		xList(), xList(xIntLit(1)), xRef("l1"), xMap(nil, nil), xRef("m1"),
	}
}

func xClone(e *xe) *xe {
	c := *e
	c.kids = make([]*xe, len(e.kids))
	for i, k := range e.kids {
		c.kids[i] = xClone(k)
	}
	c.accs = make([]xacc, len(e.accs))
	for i, a := range e.accs {
		c.accs[i] = a
		if a.kind == 'x' {
			c.accs[i].e = xClone(a.e)
		}
	}
	return &c
}

// every operator on every pair of operand kinds
func (g *xgen) operatorMatrix() []*xe {
	var out []*xe
	pool := g.operandPool()
	for _, op := range allBops {
		for _, a := range pool {
			for _, c := range pool {
				out = append(out, xBin(op, xClone(a), xClone(c)))
			}
		}
	}
	for _, a := range pool {
		out = append(out, xNeg(xClone(a)), xNot(xClone(a)))
		for _, c := range pool {
			out = append(out, xElvis(xClone(a), xClone(c)))
		}
		out = append(out, xTern(xClone(a), xStr(g.st, "yes"), xStr(g.st, "no")))
	}
	return out
}

// every function on every combination of argument kinds (arity from the table, plus wrong arities)
func (g *xgen) functionMatrix() []*xe {
	var out []*xe
	pool := []*xe{xRef("u"), xNull(), xBool(true), xIntLit(0), xIntLit(4), xIntLit(-3), xFloatLit(g.r, 2.5), xFloatLit(g.r, -2.5), xFloatLit(g.r, -0.5), xFloatLit(g.r, 0.75),
		xStr(g.st, "ab"), xStr(g.st, ""), xStr(g.st, "b"), xList(), xRef("l1"), xRef("le"), xMap(nil, nil), xRef("m1"), xRef("m2")}
	fns := []struct {
		name    string
		arities []int
	}{{"isNonnull", []int{1}}, {"length", []int{1}}, {"keys", []int{1}}, {"augmentMap", []int{2}}, {"round", []int{1, 2}}, {"floor", []int{1}},
		{"ceiling", []int{1}}, {"min", []int{2}}, {"max", []int{2}}, {"strContains", []int{2}}, {"range", []int{1, 2, 3}}, {"hasData", []int{0}}, {"randomInt", []int{1}}}
	for _, f := range fns {
		for _, ar := range f.arities {
			switch ar {
			case 0:
				out = append(out, xCall(f.name))
			case 1:
				for _, a := range pool {
					out = append(out, xCall(f.name, xClone(a)))
				}
			case 2:
				for _, a := range pool {
					for _, c := range pool {
						out = append(out, xCall(f.name, xClone(a), xClone(c)))
					}
				}
			case 3:
				ints := []*xe{xIntLit(0), xIntLit(2), xIntLit(9), xIntLit(-4), xStr(g.st, "x"), xFloatLit(g.r, 1)}
				for _, a := range ints {
					for _, c := range ints {
						for _, s := range []*xe{xIntLit(1), xIntLit(3), xIntLit(0), xIntLit(-1), xFloatLit(g.r, 1), xNull()} { // step <= 0: no value (repaired under C06: 1d02d41)
							out = append(out, xCall(f.name, xClone(a), xClone(c), xClone(s)))
						}
					}
				}
			}
		}
		// wrong arities
		out = append(out, xCall(f.name, xIntLit(1), xIntLit(2), xIntLit(3), xIntLit(4)))
		if f.name != "hasData" && f.name != "range" && f.name != "round" {
			if f.arities[0] == 1 {
				out = append(out, xCall(f.name))
			} else {
				out = append(out, xCall(f.name, xIntLit(1)))
			}
		}
	}
	return out
}

// operand for an operator position, of the kind the operator works on
func (g *xgen) operandFor(op string) *xe {
	switch op {
	case "mul", "sub", "mod", "neg":
		return xIntLit(int64(2 + g.r.Intn(7)))
	case "div":
		return xIntLit([]int64{2, 4, 8}[g.r.Intn(3)])
	case "add":
		if g.r.Chance(25) {
			return xStr(g.st, g.pick("a", "b", "1"))
		}
		return xIntLit(int64(1 + g.r.Intn(9)))
	case "lt", "gt", "le", "ge":
		return xIntLit(int64(g.r.Intn(5)))
	case "eq", "ne":
		return g.atom([]xkind{xkInt, xkBool, xkInt}[g.r.Intn(3)])
	case "and", "or", "not", "tern":
		return g.atom([]xkind{xkBool, xkInt, xkStr, xkNull}[g.r.Intn(4)])
	case "elvis":
		return g.atom([]xkind{xkNull, xkInt, xkStr, xkUndef}[g.r.Intn(4)])
	}
	return xIntLit(1)
}

func (g *xgen) mk(op string, kids ...*xe) *xe {
	switch op {
	case "neg":
		return xNeg(kids[0])
	case "not":
		return xNot(kids[0])
	case "elvis":
		return xElvis(kids[0], kids[1])
	case "tern":
		return xTern(kids[0], kids[1], kids[2])
	}
	return xBin(op, kids[0], kids[1])
}

func arityOf(op string) int {
	switch op {
	case "neg", "not":
		return 1
	case "tern":
		return 3
	}
	return 2
}

// every operator nested in every operand position of every operator
func (g *xgen) nestingMatrix() []*xe {
	ops := append(append([]string{}, allBops...), "elvis", "tern", "neg", "not")
	var out []*xe
	for _, outer := range ops {
		for pos := 0; pos < arityOf(outer); pos++ {
			for _, inner := range ops {
				ik := make([]*xe, arityOf(inner))
				for i := range ik {
					ik[i] = g.operandFor(inner)
				}
				ok := make([]*xe, arityOf(outer))
				for i := range ok {
					if i == pos {
						ok[i] = g.mk(inner, ik...)
					} else {
						ok[i] = g.operandFor(outer)
					}
				}
				out = append(out, g.mk(outer, ok...))
			}
		}
	}
	return out
}

func validUTF8(s string) bool { return utf8.ValidString(s) }

// freshMaybeEmptyList: the expression may evaluate to a freshly created empty list
// (an empty list literal, range, keys): the statement does not say whether two such lists are identical.
func (e *xe) freshMaybeEmptyList() bool {
	switch e.op {
	case "list":
		return len(e.kids) == 0
	case "call":
		return e.fn == "range" || e.fn == "keys"
	case "elvis":
		return e.kids[0].freshMaybeEmptyList() || e.kids[1].freshMaybeEmptyList()
	case "tern":
		return e.kids[1].freshMaybeEmptyList() || e.kids[2].freshMaybeEmptyList()
	}
	return false
}

// comparesEmptyFresh: somewhere an == or != has a possibly empty fresh list on both sides
func (e *xe) comparesEmptyFresh() bool {
	if e.op == "bin" && (e.bop == "eq" || e.bop == "ne") && e.kids[0].freshMaybeEmptyList() && e.kids[1].freshMaybeEmptyList() {
		return true
	}
	for _, a := range e.accs {
		if a.kind == 'x' && a.e.comparesEmptyFresh() {
			return true
		}
	}
	for _, k := range e.kids {
		if k.comparesEmptyFresh() {
			return true
		}
	}
	return false
}

// NaN (0.0/0.0), the infinities (1/0, -1/0) and -0.0 as operands
func (g *xgen) specialFloats() []*xe {
	mk := []func() *xe{
		func() *xe { return xBin("div", xFloatLit(nil, 0), xFloatLit(nil, 0)) },
		func() *xe { return xBin("div", xIntLit(1), xIntLit(0)) },
		func() *xe { return xBin("div", xIntLit(-1), xIntLit(0)) },
		func() *xe { return xFloatLit(nil, math.Copysign(0, -1)) },
	}
	var out []*xe
	for _, x := range mk {
		out = append(out, x(), xNot(x()), xBin("and", x(), xBool(true)), xBin("or", x(), xBool(false)),
			xTern(x(), xStr(g.st, "y"), xStr(g.st, "n")), xBin("eq", x(), x()), xBin("ne", x(), xIntLit(0)), xBin("lt", x(), xIntLit(1)),
			xBin("ge", x(), x()), xBin("add", xStr(g.st, "s"), x()), xNeg(x()), xElvis(x(), xIntLit(1)), xCall("isNonnull", x()),
			xBin("eq", x(), xFloatLit(nil, 0)), xList(x()), xCall("min", x(), xFloatLit(nil, 0)), xCall("max", xFloatLit(nil, 0), x()))
	}
	return out
}

// the operand that must not be evaluated has no value: evaluation order and short-circuiting become visible
func (g *xgen) shortCircuit() []*xe {
	bad := []func() *xe{
		func() *xe { return xBin("lt", xIntLit(1), xStr(g.st, "a")) },
		func() *xe { return xBin("mod", xIntLit(1), xIntLit(0)) },
		func() *xe { return xRef("s1", aKey(false, "x")) },
		func() *xe { return xCall("length", xIntLit(3)) },
		func() *xe { return xNeg(xRef("u")) },
	}
	falsy := []func() *xe{func() *xe { return xBool(false) }, func() *xe { return xIntLit(0) }, func() *xe { return xStr(g.st, "") }, func() *xe { return xNull() },
		func() *xe { return xRef("u") }, func() *xe { return xFloatLit(nil, 0) }}
	truthy := []func() *xe{func() *xe { return xBool(true) }, func() *xe { return xIntLit(5) }, func() *xe { return xStr(g.st, "0") }, func() *xe { return xList() },
		func() *xe { return xRef("m1") }, func() *xe { return xFloatLit(nil, 0.5) }}
	var out []*xe
	for _, b := range bad {
		for _, f := range falsy {
			out = append(out, xBin("and", f(), b()), xBin("or", f(), b()), xTern(f(), b(), xIntLit(2)), xTern(f(), xIntLit(1), b()), xBin("and", b(), f()))
		}
		for _, t := range truthy {
			out = append(out, xBin("or", t(), b()), xBin("and", t(), b()), xTern(t(), xIntLit(1), b()), xTern(t(), b(), xIntLit(2)), xElvis(t(), b()), xBin("or", b(), t()))
		}
		out = append(out, xElvis(xNull(), b()), xElvis(xRef("u"), b()), xElvis(b(), xIntLit(1)), xRef("n", aExpr(true, b())), xRef("l1", aExpr(true, b())),
			xList(xIntLit(1), b()), xCall("isNonnull", b()), xBin("eq", b(), b()))
	}
	return out
}
