//go:build c06

package main

// C06 for the JavaScript generator: soyjs.Write on every file of an accepted
// bundle returns (nil or an error); no panic reaches the caller, the process
// is not killed (stack exhaustion is not recoverable) and the call ends.
//
// soyjs.Write runs under `defer errRecover(&err)`, and that handler recovers
// EVERY panic value (s.errorf's strings, run-time errors, a panic raised by the
// writer it is given) -- so "a panic escapes" can only mean: a fatal error of
// the run time (stack overflow of an unbounded recursion, which recover cannot
// catch), or a call that does not end.  Both are observable only from outside:
// every call happens in a worker subprocess with a time and memory limit.
//
// Cases: the ill-typed bundles of the render stream (any atom at any operand,
// wrong arities, loop functions outside loops, unknown directives cannot be
// compiled and are not cases) and the valid stream with nasty literals, each
// file x {ES5, ES6} x {no message bundle, a STALE bundle: a message for every id
// whose parts do not belong to the template: unknown placeholders, plural
// parts for a variable the message does not have, nested plurals} x {buffer, a
// writer failing at the k-th call, a writer that panics}.
// Observation: {ok, error, error whose text is a recovered run-time error,
// panic reached the caller, fatal, hang}.  Oracle: the last three are
// violations.  "error-runtime" (a Go run-time panic turned into the returned
// error: the model's Crash outcome) is counted in the histogram; it is not a
// violation of this property (the call returned an error).  Every such case is
// EXPLAINED in the worker: the file is searched for calls of a soyjs.Funcs entry
// with fewer arguments than its smallest valid count (the Apply functions index
// args[0] / args[1]; the compiler does not check arities of the JavaScript
// function table: C14 finding js-write-error-function-arity).  A recovered
// run-time error in a file without such a call would be a new member of the
// js-write-error-* family: it is counted as "jswrite:rterror-unexplained",
// noted and sampled (not a violation of C06).

import (
	"bufio"
	"bytes"
	"encoding/json"
	"errors"
	"fmt"
	"os"
	"sort"
	"strings"
	"time"

	"github.com/robfig/soy/ast"
	"github.com/robfig/soy/soyjs"
	"github.com/robfig/soy/soymsg"
	"soyverif/internal/hx"
)

func init() {
	workers["c06jswrite"] = c06JsWorker
}

type c06JsCase struct {
	Kind   string    `json:"kind"` // "jswrite"
	Files  []srcFile `json:"files"`
	ES6    bool      `json:"es6"`
	Stale  int       `json:"stale"`  // 0 = no bundle; k > 0 = stale bundle number k
	Writer int       `json:"writer"` // 0 buffer; k > 0 fails the k-th Write; -1 panics
	Tag    string    `json:"tag"`
}

// a bundle that has a "translation" for every id; the parts never belong to the message asked for
type c06StaleBundle struct{ k int }

func (b c06StaleBundle) Locale() string       { return "xx" }
func (b c06StaleBundle) PluralCase(n int) int { return n % 3 }
func (b c06StaleBundle) Message(id uint64) *soymsg.Message {
	raw := soymsg.RawTextPart{Text: "t'\"\\\n</script>"}
	ph := func(n string) soymsg.Part { return soymsg.PlaceholderPart{Name: n} }
	pl := func(v string, parts ...soymsg.Part) soymsg.Part {
		return soymsg.PluralPart{VarName: v, Cases: []soymsg.PluralCase{
			{Spec: soymsg.PluralSpec{Type: soymsg.PluralSpecExplicit, ExplicitValue: 1}, Parts: parts},
			{Spec: soymsg.PluralSpec{Type: soymsg.PluralSpecOther}, Parts: []soymsg.Part{raw}}}}
	}
	var parts []soymsg.Part
	switch (b.k + int(id%5)) % 6 {
	case 0:
		return nil
	case 1:
		parts = []soymsg.Part{raw}
	case 2:
		parts = []soymsg.Part{raw, ph("NO_SUCH_PLACEHOLDER")}
	case 3:
		parts = []soymsg.Part{pl("no_such_var", raw)}
	case 4:
		parts = []soymsg.Part{ph("XXX"), ph("START_LINK"), ph("A"), raw}
	case 5:
		parts = []soymsg.Part{pl("n", pl("n", ph("A"))), nil, 42}
	}
	return &soymsg.Message{ID: id, Parts: parts}
}

type c06JsWriter struct {
	buf   bytes.Buffer
	calls int
	mode  int
}

func (w *c06JsWriter) Write(p []byte) (int, error) {
	w.calls++
	switch {
	case w.mode < 0:
		panic("the writer panics")
	case w.mode > 0 && w.calls >= w.mode:
		return 0, errors.New("writer failed")
	}
	return w.buf.Write(p)
}

// the calls of a soyjs.Funcs entry with fewer arguments than its smallest valid count, as "name/args<min"
func c06JsUnderArity(root ast.Node) []string {
	var found []string
	var visit func(n ast.Node)
	visit = func(n ast.Node) {
		defer func() { _ = recover() }() // a typed nil child
		if n == nil {
			return
		}
		if fn, ok := n.(*ast.FunctionNode); ok && fn != nil {
			if f, ok := soyjs.Funcs[fn.Name]; ok && len(f.ValidArgLengths) > 0 {
				min := f.ValidArgLengths[0]
				for _, k := range f.ValidArgLengths {
					if k < min {
						min = k
					}
				}
				if len(fn.Args) < min {
					found = append(found, fmt.Sprintf("%s/%d<%d", fn.Name, len(fn.Args), min))
				}
			}
		}
		if p, ok := n.(ast.ParentNode); ok {
			for _, c := range p.Children() {
				visit(c)
			}
		}
	}
	visit(root)
	return found
}

func c06JsWorker(args []string) {
	c06LimitMemory()
	var in []c06JsCase
	c06Load(args[0], &in)
	start, end := c06Range(args, len(in))
	out := bufio.NewWriter(os.Stdout)
	for i := start; i < end; i++ {
		fmt.Fprintf(out, "S %d\n", i)
		out.Flush()
		c := in[i]
		res := ""
		rg, cerr := c06CompileReg(c.Files)
		switch {
		case cerr != nil && isPanicErr(cerr):
			res = "cpanic " + hx.H(cerr.Error())
		case cerr != nil:
			res = "cerror " + hx.H(firstLine(cerr.Error()))
		default:
			var parts []string
			for _, f := range rg.SoyFiles {
				opt := soyjs.Options{}
				if c.ES6 {
					opt.Formatter = &soyjs.ES6Formatter{}
				}
				if c.Stale > 0 {
					opt.Messages = c06StaleBundle{c.Stale}
				}
				w := &c06JsWriter{mode: c.Writer}
				r := func() (r string) {
					defer func() {
						if x := recover(); x != nil {
							r = "panic:" + hx.H(firstLine(fmt.Sprint(x)))
						}
					}()
					err := soyjs.Write(w, f, opt)
					switch {
					case err == nil:
						return "ok"
					case strings.Contains(err.Error(), "runtime error") || strings.Contains(err.Error(), "interface conversion") || strings.Contains(err.Error(), "unreachable"):
						why := "unexplained"
						if ua := c06JsUnderArity(f); len(ua) > 0 {
							why = "function-arity " + strings.Join(ua, " ")
						}
						return "rterror:" + hx.H(firstLine(err.Error())) + ":" + hx.H(why)
					default:
						return "error:" + hx.H(firstLine(err.Error()))
					}
				}()
				parts = append(parts, r)
			}
			res = "done " + strings.Join(parts, ",")
		}
		fmt.Fprintf(out, "D %d %s\n", i, res)
		out.Flush()
	}
	fmt.Fprintln(out, "END")
	out.Flush()
}

// the distinct explanations seen (reported once per run as a note)
var c06JsWhy = map[string]bool{}

func c06JsJudge(e *env, c c06JsCase, r c06Res) {
	key := fmt.Sprint("js:", c.Files, c.ES6, c.Stale, c.Writer)
	if r.Status != "done" {
		e.res.Count(key, true, "jswrite:"+r.Status)
		e.res.Fail(hx.Violation{Kind: "oracle", What: "soyjs.Write does not return normally (" + r.Status + ")", Case: c, Observed: r.Status + " " + r.Stderr}, "")
		return
	}
	f := strings.Fields(r.Out)
	if len(f) == 0 {
		e.res.Note("jswrite: empty worker answer")
		return
	}
	switch f[0] {
	case "cerror":
		e.res.Count(key, false, "jswrite:not-accepted")
		return
	case "cpanic":
		e.res.Count(key, true, "jswrite:compile-panic")
		e.res.Fail(hx.Violation{Kind: "oracle", What: "panic escaped Bundle.Compile", Case: c, Observed: hx.UnH(f[1])}, "")
		return
	}
	cls := "ok"
	unexplained := false
	if len(f) > 1 {
		for _, p := range strings.Split(f[1], ",") {
			k := p
			if j := strings.IndexByte(p, ':'); j >= 0 {
				k = p[:j]
			}
			switch k {
			case "panic":
				e.res.Count(key, true, "jswrite:panic")
				e.res.Fail(hx.Violation{Kind: "oracle", What: "panic escaped soyjs.Write", Case: c, Observed: hx.UnH(p[len(k)+1:])}, "")
				return
			case "rterror":
				cls = "error-runtime"
				msg, why := p[len(k)+1:], "unexplained"
				if j := strings.IndexByte(msg, ':'); j >= 0 {
					msg, why = msg[:j], hx.UnH(msg[j+1:])
				}
				e.res.Histogram["jswrite-rterror:"+hx.UnH(msg)]++
				if why == "unexplained" {
					unexplained = true
					e.res.Note("jswrite: a recovered run-time error (%s) in a file without an under-arity call of a soyjs.Funcs entry: candidate for the C14 js-write-error-* family; tag %s es6=%v stale=%d writer=%d", hx.UnH(msg), c.Tag, c.ES6, c.Stale, c.Writer)
				} else {
					e.res.Histogram["jswrite-rterror-explained:"+strings.Fields(why)[0]]++
					if len(c06JsWhy) < 12 {
						c06JsWhy[why] = true
					}
				}
			case "error":
				if cls == "ok" {
					cls = "error"
				}
			}
		}
	}
	wr := "buffer"
	if c.Writer > 0 {
		wr = "failing-writer"
	} else if c.Writer < 0 {
		wr = "panicking-writer"
	}
	st := "nobundle"
	if c.Stale > 0 {
		st = "stale-bundle"
	}
	e.res.Count(key, cls != "ok" || c.Writer != 0 || c.Stale > 0, "jswrite:"+cls+":"+wr+":"+st)
	if unexplained {
		e.res.Histogram["jswrite:rterror-unexplained"]++
		e.res.Sample(c)
	}
	if cls != "ok" && len(e.res.Samples) < 40 && e.rng.Chance(3) {
		e.res.Sample(c)
	}
}

func c06JsCases(e *env) []c06JsCase {
	var cases []c06JsCase
	add := func(files []srcFile, tag string) {
		// the plain call, and one drawn variant
		cases = append(cases, c06JsCase{Kind: "jswrite", Files: files, ES6: e.rng.Bool(), Tag: tag})
		v := c06JsCase{Kind: "jswrite", Files: files, ES6: e.rng.Bool(), Tag: tag}
		switch e.rng.Intn(4) {
		case 0:
			v.Stale = 1 + e.rng.Intn(6)
		case 1:
			v.Writer = 1 + e.rng.Intn(2)
		case 2:
			v.Writer = -1
		default:
			v.Stale = 1 + e.rng.Intn(6)
			v.Writer = e.rng.Intn(3) - 1
		}
		cases = append(cases, v)
	}
	n := 60 * e.scale
	for i := 0; i < n; i++ {
		o := progOpts{depth: 3, directives: true, illTyped: 12, exprHook: c06ExprHook, dirHook: c06DirHook}
		if i%3 == 0 {
			o = progOpts{depth: 3, directives: true, nastyLits: true}
		}
		files, _, _, _ := genBundle(e.rng, o)
		add(files, "random")
	}
	// hand-written: the shapes the generator's error paths and its recursion depend on
	deep := strings.Repeat("{if $a}", 300) + "x" + strings.Repeat("{/if}", 300)
	nest := strings.Repeat("(", 2000) + "1" + strings.Repeat(")", 2000)
	for _, body := range []string{
		"{msg desc=\"d\"}Hello {$a} and {$b.c}{/msg}",
		"{msg desc=\"d\"}{plural $n}{case 1}one {$a}{default}many {$n}{/plural}{/msg}",
		"{msg desc=\"d\"}<a href=\"{$a}\">x</a>{/msg}",
		"{foreach $x in $a}{index($x)}{isFirst($x)}{ifempty}e{/foreach}",
		"{for $i in range(1, 2, 3)}{$i}{/for}",
		"{let $l: [1, 'a', [:], ['k': $a]] /}{$l|json}",
		"{switch $a}{case 1, 'x'}a{default}b{/switch}",
		"{call .t data=\"all\"}{param a: 1 /}{param b}x{$a}{/param}{/call}",
		"{css $a, b}{css c}{log}x{$a}{/log}{debugger}",
		"{$a ?: $b ? 1.5e300 : -0.0}{1e21}{0.000001}",
		deep,
		"{" + nest + "}",
	} {
		files := []srcFile{{Name: "j.soy", Text: "{namespace a.b.c.d}\n/**\n * @param? a\n * @param? b\n * @param? n\n */\n{template .t}\n" + body + "\n{/template}\n"}}
		add(files, "hand")
		cases = append(cases, c06JsCase{Kind: "jswrite", Files: files, Stale: 1 + e.rng.Intn(6), Tag: "hand"},
			c06JsCase{Kind: "jswrite", Files: files, Stale: 1 + e.rng.Intn(6), ES6: true, Tag: "hand"})
	}
	return cases
}

func c06JsWrites(e *env, perCase time.Duration) {
	cases := c06JsCases(e)
	res := c06Run(e, "c06jswrite", len(cases), func(idx []int) []byte {
		sel := make([]c06JsCase, len(idx))
		for k, i := range idx {
			sel[k] = cases[i]
		}
		bs, _ := json.Marshal(sel)
		return bs
	}, perCase, nil)
	for i, c := range cases {
		c06JsJudge(e, c, res[i])
	}
	if len(c06JsWhy) > 0 {
		var ws []string
		for w := range c06JsWhy {
			ws = append(ws, w)
		}
		sort.Strings(ws)
		e.res.Note("jswrite: recovered run-time errors explained by under-arity calls (name/args<min): %s", strings.Join(ws, "; "))
	}
}

func c06ReplayJs(e *env, c c06JsCase, perCase time.Duration) {
	res := c06Run(e, "c06jswrite", 1, func([]int) []byte { bs, _ := json.Marshal([]c06JsCase{c}); return bs }, perCase, nil)
	c06JsJudge(e, c, res[0])
}
