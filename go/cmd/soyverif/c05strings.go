//go:build c05

package main

// C05 string-literal stream: a systematic enumeration of the contents of quoted strings,
// placed in every syntactic position where the parser decodes or scans a quoted string,
// for both entry points (parse.SoyFile, parse.Expr).  Nothing here is random.
//
// The bodies (text between the quotes) are built from the escape grammar of parse/quote.go
// unquoteString -- \\ \' \n \r \t \b \f \uXXXX -- plus the neighbouring forms it rejects
// (\" \a \0 \x41 ..., a lone backslash), not from any particular input:
//
//   S1  every escape form at every rune position of short plain strings (ASCII and non-ASCII);
//   S2  every ordered pair of escape forms, adjacent and separated by one plain character;
//   S3  \uXXXX with a hex value of every interesting class (boundaries of the 1/2/3-byte UTF-8
//       ranges, both ends of the high- and of the low-surrogate range, the values around them,
//       and values whose rune is itself a syntax character: quote, backslash, brace, newline),
//       in upper-, lower- and mixed-case hex digits, followed by a tail of 0..6 characters of
//       every kind: plain (non-hex letters, hex digits, the letter u, blanks, 2- and 4-byte
//       runes), prefixes of a run of simple escapes, and every prefix (1..6 characters) of a
//       second \uXXXX of every class, the complete second escape also followed by 1..2 more;
//   S4  truncated \u escapes (0..3 hex digits, upper / lower / mixed case) followed by nothing,
//       by a non-hex character, by a backslash, by another escape; \u followed by a sign,
//       a blank, an underscore, 0x, a non-hex letter or a multi-byte rune where hex digits
//       are expected.
//
// Whether the closing quote or the end of the input follows is decided by the context
// (c05StringContexts): every body is used closed and cut off.

import "strings"

// escape forms of unquoteString's table, then forms it rejects, then a lone backslash
var c05StrEscOK = []string{`\\`, `\'`, `\n`, `\r`, `\t`, `\b`, `\f`}
var c05StrEscBad = []string{`\"`, `\a`, `\v`, `\0`, `\x41`, `\101`, `\U00000041`, `\ `, `\é`, `\{`, `\}`, `\/`, "\\\n"}

// hex values by class (upper case); c05StrHexSyntax: runes that are syntax characters once decoded
var c05StrHexClasses = []string{"0000", "007F", "0080", "07FF", "0800", "D7FF", "D800", "DBFF", "DC00", "DFFF", "E000", "FFFF"}
var c05StrHexSyntax = []string{"0027", "0022", "005C", "007B", "007D", "000A"}

func c05MixedCase(h string) string {
	bs := []byte(strings.ToLower(h))
	for i := 0; i < len(bs); i += 2 {
		if bs[i] >= 'a' && bs[i] <= 'f' {
			bs[i] -= 'a' - 'A'
		}
	}
	return string(bs)
}

// c05RunePrefixes: the prefixes of s of 1..max runes.
func c05RunePrefixes(s string, max int) []string {
	var out []string
	n := 0
	for i := range s {
		if n > 0 {
			out = append(out, s[:i])
		}
		n++
		if n > max {
			return out
		}
	}
	return append(out, s)
}

// c05StringBodies returns the bodies in two tiers: core (used in every context) and the rest
// (used in the eight main contexts, see c05StringContexts).
func c05StringBodies() (core, rest []string) {
	seen := map[string]bool{}
	add := func(dst *[]string, b string) {
		if !seen[b] {
			seen[b] = true
			*dst = append(*dst, b)
		}
	}
	forms := append(append(append([]string(nil), c05StrEscOK...), `\u0041`, `\u00e9`, `\uD800`, `\uDC00`), c05StrEscBad...)
	forms = append(forms, `\`)

	// S1: every form at every rune position of short strings
	for _, base := range []string{"", "a", "ab", "abc", "é", "aé", "éa", "😀"} {
		pos := []int{}
		for i := range base {
			pos = append(pos, i)
		}
		pos = append(pos, len(base))
		for _, p := range pos {
			for _, f := range forms {
				add(&core, base[:p]+f+base[p:])
			}
		}
	}
	// S2: ordered pairs of forms (pairs of accepted forms in every context)
	nOK := len(c05StrEscOK) + 4
	for i, f := range forms {
		for j, g := range forms {
			if (i < nOK || f == `\`) && (j < nOK || g == `\`) {
				add(&core, f+g)
			} else {
				add(&rest, f+g)
			}
			add(&rest, f+"a"+g)
		}
	}

	// S3: \uXXXX of every class followed by 0..6 further characters of every kind
	plainKinds := []string{"ghijkl", "DE00de", "uuuuuu", "éééééé", "😀😀😀😀😀😀", "a\"b{c "}
	escRuns := []string{`\n\t\r\b\f\n`, `\\\\\\`, `\'\'\'`}
	// tails(second, cut): cut = every prefix of the second escape as well (otherwise complete ones only)
	tails := func(second []string, nPlain, nEsc int, cut bool) (ts []string) {
		ts = append(ts, "")
		for _, k := range plainKinds[:nPlain] {
			ts = append(ts, c05RunePrefixes(k, 6)...)
		}
		for _, k := range escRuns[:nEsc] {
			ts = append(ts, c05RunePrefixes(k, 6)...)
		}
		for _, h := range second {
			full := `\u` + h
			if cut {
				ts = append(ts, c05RunePrefixes(full, 6)...)
				ts = append(ts, full+"z", full+"zz", full+`\`, full+`\n`)
			} else {
				ts = append(ts, full)
			}
		}
		return
	}
	upper := append(append([]string(nil), c05StrHexClasses...), c05StrHexSyntax...)
	var lower, mixed []string
	for _, h := range upper {
		if l := strings.ToLower(h); l != h {
			lower = append(lower, l)
			mixed = append(mixed, c05MixedCase(h))
		}
	}
	// in every context: each class, a short tail of each kind, each complete second class, every cut of two second escapes
	coreTails := append(tails(c05StrHexClasses, 1, 1, false), c05RunePrefixes(`\uDC00`, 5)...)
	coreTails = append(coreTails, c05RunePrefixes(`\u0041`, 5)...)
	for _, h := range c05StrHexClasses {
		for _, t := range coreTails {
			add(&core, `\u`+h+t)
			add(&rest, "x"+`\u`+h+t)
		}
	}
	// at the entry points: every class in every case with every tail
	for _, h := range upper {
		for _, t := range tails(c05StrHexClasses, len(plainKinds), len(escRuns), true) {
			add(&rest, `\u`+h+t)
		}
	}
	for _, h := range lower {
		for _, t := range tails(lower, len(plainKinds), len(escRuns), true) {
			add(&rest, `\u`+h+t)
		}
	}
	for _, h := range mixed {
		for _, t := range tails(mixed, len(plainKinds), len(escRuns), false) {
			add(&rest, `\u`+h+t)
		}
	}
	// upper-case first escape with a lower-case second one and vice versa (complete pairs)
	for _, h := range c05StrHexClasses {
		for _, g := range c05StrHexClasses {
			add(&rest, `\u`+h+`\u`+strings.ToLower(g))
			add(&rest, `\u`+strings.ToLower(h)+`\u`+g)
		}
	}

	// S4: truncated and malformed \u escapes
	digitSets := []string{"1234", "ABCD", "abcd", "aBcD", "D83D", "d83d", "00e9", "DC00"}
	after := []string{"", "g", " ", `\`, `\n`, `\\`, `\'`, `\u0041`, `\uD800`, "é", "😀"}
	for _, ds := range digitSets {
		for n := 0; n <= 3; n++ {
			for _, a := range after {
				add(&core, `\u`+ds[:n]+a)
				for _, pre := range []string{"x", `\n`, `\u0041`} {
					add(&rest, pre+`\u`+ds[:n]+a)
				}
			}
		}
	}
	for _, m := range []string{"+041", "-041", "+04", "-0", "+", "-", " 041", "041 ", "0x41", "0X41", "_041", "0_41", "G041", "041G", "04g1", "04 1", "éé", "é12", "1é2", "12é", "😀", "中a", "a中", "12中", "1😀", "\x80\x80\x80\x80", "00\xff0", "０４１０"} {
		for _, a := range []string{"", "z", "0000", `\`, `\n`} {
			add(&core, `\u`+m+a)
			add(&rest, "x"+`\u`+m+a)
		}
	}
	return
}

const c05StrFileHead = "{namespace n}\n/** */\n{template .t}\n"
const c05StrFileTail = "\n{/template}\n"

// c05DoubleQuoteEmbed rewrites a single-quoted Soy string so that it survives strconv.Unquote of an
// enclosing double-quoted attribute value unchanged: backslashes and double quotes are escaped.
func c05DoubleQuoteEmbed(s string) string {
	return strings.ReplaceAll(strings.ReplaceAll(s, `\`, `\\`), `"`, `\"`)
}

// c05StringContexts places one body in the syntactic positions of a quoted string.  Every body: as an
// expression and as a printed literal, closed and cut off at the end of the input, as a map key at both
// entry points, as a double-quoted attribute value and as a literal inside a quoted attribute expression
// (nested scanner; backslashes doubled so that strconv.Unquote hands the body on unchanged).  all = the
// remaining positions as well.
func c05StringContexts(b string, all bool) []c05Input {
	file := func(fam, body string, closed bool) c05Input {
		if closed {
			return c05Input{fam, c05StrFileHead + body + c05StrFileTail, false}
		}
		return c05Input{fam, c05StrFileHead + body, false}
	}
	e := c05DoubleQuoteEmbed("'" + b + "'")
	out := []c05Input{
		{"string-expr", "'" + b + "'", true},
		{"string-expr-eof", "'" + b, true},
		file("string-print", "{print '"+b+"'}", true),
		file("string-print-eof", "{print '"+b, false),
		{"string-expr-mapkey", "['" + b + "': 1]", true},
		file("string-mapkey", "{call .u}{param p: ['"+b+"': 1, 'z': 2] /}{/call}", true),
		file("string-attr", "{msg desc=\""+b+"\"}x{/msg}", true),
		file("string-attr-literal", "{call .u data=\""+e+"\" /}", true),
	}
	if !all {
		return out
	}
	return append(out,
		c05Input{"string-expr-mapvalue", "[1: '" + b + "', 2: 'z']", true},
		c05Input{"string-expr-dquote", "\"" + b + "\"", true},
		c05Input{"string-expr-arg", "f('" + b + "', 'z')", true},
		file("string-case", "{switch $x}{case '"+b+"'}y{/switch}", true),
		file("string-directive-arg", "{$x|d:'"+b+"'}", true),
		file("string-attr-eof", "{msg desc=\""+b, false),
		file("string-attr-expr", "{call .u data=\""+b+"\" /}", true),
		file("string-attr-literal-raw", "{call .u data=\"'"+b+"'\" /}", true),
		file("string-attr-value", "{call .u}{param key=\"k\" value=\""+e+"\" /}{/call}", true),
		file("string-attr-mapkey", "{call .u data=\"["+e+": 1]\" /}", true),
	)
}

// c05StringInputs: the whole stream, and the subset handed to the parser-model tie.
func c05StringInputs() (ins []c05Input, nCore, nRest int) {
	core, rest := c05StringBodies()
	for _, b := range core {
		ins = append(ins, c05StringContexts(b, true)...)
	}
	for _, b := range rest {
		ins = append(ins, c05StringContexts(b, false)...)
	}
	return ins, len(core), len(rest)
}

// of the string stream, one input in c05StringLexEvery also goes through the token-level comparison
// with the scanner model (all of them in the thorough tier); the oracle sees every input.
const c05StringLexEvery = 3

// c05StringTieCases: the part of the stream handed to the parser-model tie (tree with the decoded
// string values, outcome class and error position against Model/Parser.v, whose string decoding is
// Model/Quote.v unquote_string): every all-context body as an expression, a printed literal and a map
// key, one in four inside a quoted attribute expression (nested scanner).
func c05StringTieCases() []ptCase {
	core, _ := c05StringBodies()
	var cs []ptCase
	for i, b := range core {
		cs = append(cs,
			ptCase{"expr", "'" + b + "'", "string-expr"},
			ptCase{"file", c05StrFileHead + "{print '" + b + "'}" + c05StrFileTail, "string-print"},
			ptCase{"expr", "['" + b + "': 1]", "string-mapkey"})
		if i%4 == 0 {
			cs = append(cs, ptCase{"file", c05StrFileHead + "{call .u data=\"" + c05DoubleQuoteEmbed("'"+b+"'") + "\" /}" + c05StrFileTail, "string-attr-literal"})
		}
	}
	return cs
}
