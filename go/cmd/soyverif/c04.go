//go:build c04

package main

// C04 - the Go renderer and the generated JavaScript produce the same output.
//
// Translation validation: every generated program of the common subset is
// translated by the REAL soyjs.Write, loaded by node together with
// soyjs/lib/soyutils.js, called with the same data and injected data, and the
// string it returns is compared with what the Go renderer writes (the
// property's own oracle).  Nothing here is a proof; the Coq side (MiniJS.v)
// covers expressions only.

import (
	"encoding/hex"
	"fmt"
	"math/bits"
	"os"
	"regexp"
	"sort"
	"strings"

	"github.com/robfig/soy/ast"
	"github.com/robfig/soy/data"
	"github.com/robfig/soy/soyhtml"
	"github.com/robfig/soy/soymsg"
	"github.com/robfig/soy/template"
	"soyverif/internal/hx"
)

func init() { props["C04"] = runC04 }

type c04Case struct {
	Files     []srcFile              `json:"files"`
	Template  string                 `json:"template"`
	Data      map[string]interface{} `json:"data"`
	IJ        map[string]interface{} `json:"ij,omitempty"`
	Translate int                    `json:"translate,omitempty"`
	Stream    string                 `json:"stream"`
}

type c04Unit struct {
	b      *c14Bundle
	entry  string
	msgs   bool
	calls  []c04Call
	node   jsNodeUnit
	reg    *template.Registry
	bound  int
	shapes map[string]bool
}

type c04Call struct {
	data, ij map[string]interface{}
	goOut    string
	goErr    error
}

// jsonOf converts a Soy value to what encoding/json will send to node.
func jsonOf(v data.Value) interface{} {
	switch v := v.(type) {
	case data.Null, data.Undefined:
		return nil
	case data.Bool:
		return bool(v)
	case data.Int:
		return int64(v)
	case data.Float:
		return float64(v)
	case data.String:
		return string(v)
	case data.List:
		l := make([]interface{}, len(v))
		for i, x := range v {
			l[i] = jsonOf(x)
		}
		return l
	case data.Map:
		m := map[string]interface{}{}
		for k, x := range v {
			m[k] = jsonOf(x)
		}
		return m
	}
	return nil
}

func jsonMap(m data.Map) map[string]interface{} {
	if m == nil {
		return nil
	}
	return jsonOf(m).(map[string]interface{})
}

// ---------- the subset predicate ----------

// c04Magnitude bounds, in bits, every integer the program can compute on the
// given data (Soy has no mutation: a value is an expression tree over data and
// literals, shared through let/param, so each + - adds at most one bit, a
// multiplication by a literal its size, a general multiplication doubles).
// A result >= 53 puts the case outside the subset (integers within 2^53).
func c04Magnitude(reg *template.Registry, sets []data.Map, ij data.Map) int {
	var maxAbs uint64 = 16
	noteInt := func(v int64) {
		u := uint64(v)
		if v < 0 {
			u = uint64(-v)
		}
		if u > maxAbs {
			maxAbs = u
		}
	}
	var noteVal func(v data.Value)
	noteVal = func(v data.Value) {
		switch v := v.(type) {
		case data.Int:
			noteInt(int64(v))
		case data.List:
			noteInt(int64(len(v)))
			for _, x := range v {
				noteVal(x)
			}
		case data.Map:
			noteInt(int64(len(v)))
			for _, x := range v {
				noteVal(x)
			}
		case data.String:
			noteInt(int64(len(v)))
		}
	}
	for _, d := range sets {
		noteVal(d)
	}
	if ij != nil {
		noteVal(ij)
	}
	adds, muls, litBits := 0, 0, 0
	var walk func(n ast.Node)
	walk = func(n ast.Node) {
		switch n := n.(type) {
		case *ast.IntNode:
			noteInt(n.Value)
		case *ast.StringNode:
			noteInt(int64(len(n.Value)))
		case *ast.RawTextNode:
			noteInt(int64(len(n.Text)))
		case *ast.AddNode, *ast.SubNode, *ast.NegateNode:
			adds++
		case *ast.MulNode:
			l, lok := n.Arg1.(*ast.IntNode)
			r, rok := n.Arg2.(*ast.IntNode)
			switch {
			case rok:
				litBits += bits.Len64(uint64(abs64(r.Value)))
			case lok:
				litBits += bits.Len64(uint64(abs64(l.Value)))
			default:
				muls++
			}
		case *ast.ListLiteralNode:
			noteInt(int64(len(n.Items)))
		}
		if p, ok := n.(ast.ParentNode); ok {
			for _, c := range p.Children() {
				if c != nil && !isNilNode(c) {
					walk(c)
				}
			}
		}
	}
	for _, t := range reg.Templates {
		walk(t.Node)
	}
	if muls > 4 {
		return 1000
	}
	// the recursive template subtracts once per level (at most 4 levels), loops add nothing (no accumulation)
	return (bits.Len64(maxAbs) + adds + 4 + litBits) << uint(muls)
}

func abs64(v int64) int64 {
	if v < 0 {
		return -v
	}
	return v
}

// c04Shapes lists the constructs of a bundle that the subset excludes or that known findings are keyed on.
func c04Shapes(reg *template.Registry) map[string]bool {
	has := map[string]bool{}
	var walk func(n ast.Node)
	walk = func(n ast.Node) {
		switch n := n.(type) {
		case *ast.FloatNode, *ast.DivNode:
			has["float"] = true
		case *ast.PrintNode:
			for _, d := range n.Directives {
				switch d.Name {
				case "escapeUri", "json", "escapeJsString", "insertWordBreaks", "changeNewlineToBr", "truncate", "bidiSpanWrap", "bidiUnicodeWrap":
					has["directive:"+d.Name] = true
				}
			}
			switch n.Arg.(type) {
			case *ast.ListLiteralNode, *ast.MapLiteralNode:
				has["print-collection"] = true
			case *ast.AndNode, *ast.OrNode:
				has["print-andor"] = true
			}
		case *ast.FunctionNode:
			switch n.Name {
			case "keys", "randomInt", "range", "bidiGlobalDir", "bidiDirAttr", "bidiStartEdge", "bidiEndEdge", "hasData":
				has["func:"+n.Name] = true
			}
		case *ast.MsgPluralNode:
			has["plural"] = true
		case *ast.LogNode:
			has["log"] = true
		}
		if p, ok := n.(ast.ParentNode); ok {
			for _, c := range p.Children() {
				if c != nil && !isNilNode(c) {
					walk(c)
				}
			}
		}
	}
	for _, t := range reg.Templates {
		walk(t.Node)
	}
	return has
}

// ---------- generation ----------

func c04Bundles(e *env, n int) []*c04Unit {
	var out []*c04Unit
	for i := 0; i < n; i++ {
		// helperNames: lets named like the generator's loop helpers (xList, xLimit_1, x1 ...) live with a loop over $x -- the
		// boundary of the freshness invariant of the generated names (ginv in Proofs/MiniJSCtl.v)
		o := progOpts{depth: 3, directives: true, jsSafe: true, core: true, useIj: i%4 == 0, noLog: i%5 != 0, helperNames: i%2 == 0}
		files, entry, dataSets, feats := genBundle(e.rng, o)
		b := &c14Bundle{Stream: "prog", Files: files, Feats: feats}
		if i%3 == 0 {
			b.Translate = 1 + e.rng.Intn(1000000)
		}
		var ij data.Map
		if o.useIj {
			ij = data.Map{"n": data.Int(e.rng.Intn(50)), "s": data.String(e.rng.Pick([]string{"inj", "<i>", "a&b", ""}))}
		}
		u := c04Prepare(e, b, entry, dataSets, ij)
		if u != nil {
			out = append(out, u...)
		}
	}
	return out
}

// ---------- floats (translation validation only: MiniJS is integer-only by design) ----------

var c04Exponent = regexp.MustCompile(`[0-9][eE][+-]?[0-9]`)

// c04FloatPool: doubles with short decimal expansions: the near-half family x.xx5 (just below or above the decimal
// number), exact halves and quarters, and ordinary ones
var c04FloatPool = []float64{1.005, 1.255, 4.145, 2.675, 1.45, 8.345, 5.015, 10.235, 999.995, 0.045, 0.5, 1.5, 2.5, 3.5, 0.25, 0.125, 0.375,
	3.14159, 89.5, 100.25, 0.1, 0.2, 0.3, 0.7, 12.5, 7.0, 1.1, 2.2, 33.335, 0.615}
var c04FloatLits = []string{"0.5", "1.5", "2.5", "1.005", "2.675", "1.255", "4.145", "0.125", "10.25", "0.045", "3.0", "0.1", "0.2", "8.345", "0.615"}

// c04FloatExpr: a non-negative float expression over $p, $q, the loop variable $x (when inLoop), float and small integer
// literals, + and * with a small operand, min / max; neg allows one subtraction at the top (floor / ceiling / min / max and
// printing agree on negative numbers; round's ties on negative numbers are the finding round-negative-tie)
func c04FloatExpr(e *env, d int, inLoop bool) string {
	r := e.rng
	atom := func() string {
		switch r.Intn(6) {
		case 0, 1:
			return r.Pick([]string{"$p", "$q"})
		case 2:
			if inLoop {
				return "$x"
			}
			return "$p"
		case 3:
			return fmt.Sprint(1 + r.Intn(9))
		default:
			return r.Pick(c04FloatLits)
		}
	}
	if d <= 0 || r.Chance(35) {
		return atom()
	}
	switch r.Intn(6) {
	case 0, 1:
		return "(" + c04FloatExpr(e, d-1, inLoop) + " + " + c04FloatExpr(e, d-1, inLoop) + ")"
	case 2:
		return "(" + c04FloatExpr(e, d-1, inLoop) + " * " + r.Pick([]string{"2", "3", "10", "100", "0.5", "1.5", "0.1"}) + ")"
	case 3:
		return r.Pick([]string{"min", "max"}) + "(" + c04FloatExpr(e, d-1, inLoop) + ", " + c04FloatExpr(e, d-1, inLoop) + ")"
	default:
		return atom()
	}
}

// c04FloatPrint: one print of a float expression through the numeric built-ins
func c04FloatPrint(e *env, inLoop bool) string {
	r := e.rng
	x := c04FloatExpr(e, 2, inLoop)
	switch r.Intn(10) {
	case 0, 1, 2:
		return "{round(" + x + ", " + r.Pick([]string{"2", "2", "1", "3", "0", "-1"}) + ")}"
	case 3:
		return "{round(" + x + ")}"
	case 4:
		return "{" + r.Pick([]string{"floor", "ceiling"}) + "(" + x + ")}"
	case 5:
		return "{" + r.Pick([]string{"floor", "ceiling"}) + "(" + x + " - " + c04FloatExpr(e, 1, inLoop) + ")}"
	case 6:
		return "{" + x + " - " + c04FloatExpr(e, 1, inLoop) + "}"
	case 7:
		return "{round(" + x + " * 100) / 100}"
	case 8:
		return "{if " + x + " < " + c04FloatExpr(e, 1, inLoop) + "}lt{else}ge{/if}"
	default:
		return "{" + x + "}"
	}
}

func c04FloatBundles(e *env, n int) []*c04Unit {
	var out []*c04Unit
	for i := 0; i < n; i++ {
		var body strings.Builder
		for k := 1 + e.rng.Intn(4); k > 0; k-- {
			body.WriteString(c04FloatPrint(e, false) + ";")
		}
		body.WriteString("{if $p < $q}<{/if}") // every declared parameter is used
		body.WriteString("{foreach $x in $l}")
		for k := 1 + e.rng.Intn(2); k > 0; k-- {
			body.WriteString(c04FloatPrint(e, true))
		}
		body.WriteString("{if not isLast($x)},{/if}{/foreach}")
		if e.rng.Chance(30) {
			body.WriteString("{let $v: " + c04FloatExpr(e, 2, false) + " /}{round($v, 2)}|{$v}")
		}
		src := "{namespace floats.c04}\n\n/**\n * @param p\n * @param q\n * @param l\n */\n{template .t}\n" + body.String() + "\n{/template}\n"
		b := &c14Bundle{Stream: "floats", Files: []srcFile{{"floats.soy", src}}}
		var sets []data.Map
		for k := 0; k < 2; k++ {
			fl := func() data.Value { return data.Float(c04FloatPool[e.rng.Intn(len(c04FloatPool))]) }
			var l data.List
			for j := e.rng.Intn(4); j > 0; j-- {
				l = append(l, fl())
			}
			if l == nil {
				l = data.List{}
			}
			sets = append(sets, data.Map{"p": fl(), "q": fl(), "l": l})
		}
		out = append(out, c04Prepare(e, b, "floats.c04.t", sets, nil)...)
	}
	return out
}

// c04RoundNegativeTrigger: the trigger of round-negative-tie: the bundle calls round() and a negative float is around
// (a negative float datum, or a negative literal / a subtraction inside a round call)
var c04RoundNeg = regexp.MustCompile(`round\([^)]*-`)

func c04RoundNegativeTrigger(u *c04Unit, c c04Call) bool {
	calls := false
	for _, f := range u.b.Files {
		if strings.Contains(f.Text, "round(") {
			calls = true
			if c04RoundNeg.MatchString(f.Text) {
				return true
			}
		}
	}
	if !calls {
		return false
	}
	var neg func(v interface{}) bool
	neg = func(v interface{}) bool {
		switch v := v.(type) {
		case float64:
			return v < 0
		case []interface{}:
			for _, x := range v {
				if neg(x) {
					return true
				}
			}
		case map[string]interface{}:
			for _, x := range v {
				if neg(x) {
					return true
				}
			}
		}
		return false
	}
	return neg(map[string]interface{}(c.data))
}

// hand-written cases for the divergences listed in DESIGN.md section 4 C04 / Appendix A (J1..J7, I11)
func c04Corpus(e *env) []*c04Unit {
	mk := func(name, params, body string, d data.Map) []*c04Unit {
		src := "{namespace corpus.c04}\n\n/**\n" + params + " */\n{template .t}\n" + body + "\n{/template}\n" +
			"\n/**\n * @param? p\n */\n{template .u}\n<{$p}>\n{/template}\n"
		b := &c14Bundle{Stream: "corpus:" + name, Files: []srcFile{{"corpus.soy", src}}}
		return c04Prepare(e, b, "corpus.c04.t", []data.Map{d}, nil)
	}
	var out []*c04Unit
	add := func(u []*c04Unit) { out = append(out, u...) }
	add(mk("J1-neg-nullsafe", " * @param a\n", "{-$a?.b}", data.Map{"a": data.Map{"b": data.Int(5)}}))
	add(mk("J1-nullsafe-length", " * @param a\n", "{length($a?.l)}{isNonnull($a?.b)}", data.Map{"a": data.Map{"b": data.Int(5), "l": data.List{data.Int(1)}}}))
	add(mk("J3-let-untaken-if", " * @param x\n * @param c\n", "{if $c}{let $x: 5 /}{$x}{/if}{$x}", data.Map{"x": data.Int(1), "c": data.Bool(false)}))
	add(mk("J3-let-taken-if", " * @param x\n * @param c\n", "{if $c}{let $x: 5 /}{$x}{/if}{$x}", data.Map{"x": data.Int(1), "c": data.Bool(true)}))
	add(mk("J3-let-in-loop", " * @param x\n * @param l\n", "{foreach $i in $l}{let $x: $i /}{$x}{/foreach}{$x}", data.Map{"x": data.Int(9), "l": data.List{data.Int(1), data.Int(2)}}))
	add(mk("J4-islast-outer", " * @param l\n", "{foreach $o in $l}{foreach $i in $l}{if isLast($o)}L{else}-{/if}{/foreach}{/foreach}", data.Map{"l": data.List{data.Int(1), data.Int(2)}}))
	add(mk("J4-index-outer", " * @param l\n", "{foreach $o in $l}{foreach $i in $l}{index($o)}{index($i)}{isFirst($o) ? 'F' : 'f'}{/foreach}{/foreach}", data.Map{"l": data.List{data.Int(1), data.Int(2), data.Int(3)}}))
	add(mk("J4-range-outer", "", "{for $o in range(3)}{for $i in range(2)}{index($o)}{isLast($o) ? 'L' : '-'}{/for}{/for}", data.Map{}))
	add(mk("J5-newline-to-br", " * @param s\n", "{$s|changeNewlineToBr}", data.Map{"s": data.String("a<b\nc")}))
	add(mk("J5-word-breaks", " * @param s\n", "{$s|insertWordBreaks:3}", data.Map{"s": data.String("ab<cdefgh")}))
	add(mk("J2-and-printed", "", "{'a' and 'b'}", data.Map{}))
	add(mk("J6-quote", " * @param s\n", "{$s}", data.Map{"s": data.String("q\"q")}))
	add(mk("J7-print-list", " * @param l\n", "{$l}", data.Map{"l": data.List{data.Int(1), data.Int(2)}}))
	add(mk("I11-float", " * @param a\n", "{$a * 1}{1000000.5}", data.Map{"a": data.Float(1500000.5)}))
	add(mk("name-collision", "", "{let $x1: 'A' /}{let $a: 2 /}{let $b: 3 /}{let $c: 4 /}{let $d: 5 /}{let $e: 6 /}{let $f: 7 /}{let $g: 8 /}{let $h: 9 /}{let $i: 10 /}{let $x: 'B' /}{$a}{$b}{$c}{$d}{$e}{$f}{$g}{$h}{$i}{$x1}{$x}", data.Map{}))
	add(mk("scoping-param-shadow", " * @param x\n", "{let $y: $x + 1 /}{let $x: $y + 1 /}{$x}{$y}", data.Map{"x": data.Int(1)}))
	add(mk("switch", " * @param x\n", "{switch $x}{case 1, 2}a{case 3}b{default}c{/switch}", data.Map{"x": data.Int(2)}))
	add(mk("switch-default-first", " * @param x\n", "{switch $x}{default}A{case 1}B{/switch}", data.Map{"x": data.Int(1)}))
	add(mk("switch-default-first-nohit", " * @param x\n", "{switch $x}{default}A{case 1}B{/switch}", data.Map{"x": data.Int(2)}))
	add(mk("switch-two-defaults", " * @param x\n", "{switch $x}{case 1}B{default}A{default}C{/switch}", data.Map{"x": data.Int(2)}))
	add(mk("switch-dup-case", " * @param x\n", "{switch $x}{case 1}A{case 1}B{/switch}", data.Map{"x": data.Int(1)}))
	add(mk("hidden-go-index", " * @param l\n * @param x__index\n * @param x__lastIndex\n", "{foreach $x in $l}{$x__index}{$x__lastIndex}{/foreach}", data.Map{"l": data.List{data.Int(7), data.Int(8)}, "x__index": data.String("p"), "x__lastIndex": data.String("r")}))
	add(mk("hidden-js-index", " * @param l\n * @param __index\n", "{foreach $x in $l}{$__index}{/foreach}", data.Map{"l": data.List{data.Int(7), data.Int(8)}, "__index": data.String("q")}))
	add(mk("hidden-js-var", " * @param l\n * @param __var\n", "{foreach $x in $l}{$__var}{/foreach}", data.Map{"l": data.List{data.Int(7), data.Int(8)}, "__var": data.String("v")}))
	add(mk("hidden-js-limit", " * @param __limit\n", "{for $x in range(2)}{$__limit}{/for}", data.Map{"__limit": data.String("m")}))
	add(mk("css", " * @param s\n", "{css foo}{css $s, bar}", data.Map{"s": data.String("base")}))
	// lets named like the helper variables of a loop over $x, live with the loop (outside and inside it), for every suffix
	// the generator derives helper names with; the boundary of the freshness invariant of the generated names
	xs := data.Map{"xs": data.List{data.String("a"), data.String("b")}}
	for _, sfx := range helperSuffixes() {
		add(mk("helper-name-outer-"+sfx, " * @param xs\n", "{let $x"+sfx+": 'kept' /}{foreach $x in $xs}[{$x}{index($x)}{isLast($x) ? 'L' : ''}]{/foreach}{sp}{$x"+sfx+"}", xs))
		add(mk("helper-name-inner-"+sfx, " * @param xs\n", "{foreach $x in $xs}{let $x"+sfx+": 'in' /}[{$x}{index($x)}{isLast($x) ? 'L' : ''}{$x"+sfx+"}]{/foreach}", xs))
		add(mk("helper-name-range-"+sfx, "", "{let $x"+sfx+": 'kept' /}{for $x in range(1, 6, 2)}{let $x"+sfx+"_1: 'in' /}[{$x}{index($x)}{isLast($x) ? 'L' : ''}{$x"+sfx+"_1}]{/for}{sp}{$x"+sfx+"}", data.Map{}))
	}
	// floats: the near-half family through round(x, 2), halves through round(x); negative ties are the finding round-negative-tie
	fl := func(xs ...float64) data.List {
		var l data.List
		for _, x := range xs {
			l = append(l, data.Float(x))
		}
		return l
	}
	add(mk("float-round-digits", " * @param l\n", "{foreach $p in $l}{round($p, 2)}{if not isLast($p)};{/if}{/foreach}", data.Map{"l": fl(3.14159, 1.005, 1.255, 4.145, 89.5, 2.675, 0.615)}))
	add(mk("float-round-halves", " * @param l\n", "{foreach $p in $l}{round($p)}/{round($p, 1)}/{floor($p)}/{ceiling($p)}{if not isLast($p)};{/if}{/foreach}", data.Map{"l": fl(0.5, 1.5, 2.5, 0.45, 1.25, 7.0)}))
	add(mk("float-round-negative-ties", " * @param l\n", "{foreach $p in $l}{round($p)}/{round($p, 1)}{if not isLast($p)};{/if}{/foreach}", data.Map{"l": fl(-0.5, -2.5, -1.25, -0.4)}))
	add(mk("float-arith", " * @param p\n * @param q\n", "{$p + $q};{$p * 3};{$p - $q};{min($p, $q)};{max($p, 2)};{floor($p - $q)};{ceiling($q - $p)}", data.Map{"p": data.Float(0.1), "q": data.Float(0.2)}))
	add(mk("helper-name-digits", " * @param xs\n", "{let $x_1: 'p' /}{let $x1: 'q' /}{foreach $x in $xs}{let $x_2: 'r' /}[{$x}{$x_2}]{/foreach}{$x_1}{$x1}", xs))
	add(mk("helper-name-param-buffer", "", "{let $param: 'kept' /}{call .u}{param p}[{$param}]{/param}{/call}{$param}", data.Map{}))
	return out
}

func c04PluralCase(n int) int {
	if n == 1 {
		return 0
	}
	return 1
}

type c04Msgs struct{ fakeMsgs }

func (c04Msgs) PluralCase(n int) int { return c04PluralCase(n) }

func c04Prepare(e *env, b *c14Bundle, entry string, sets []data.Map, ij data.Map) []*c04Unit {
	reg, err := jsCompile(b)
	key := fmt.Sprint(b.Files, b.Translate)
	if err != nil {
		e.res.Count(key, false, "rejected")
		return nil
	}
	tr := jsTranslations(b, reg)
	var units []*c04Unit
	cfgs := []bool{false}
	if tr != nil {
		cfgs = append(cfgs, true)
	}
	tofu := soyhtml.NewTofu(reg)
	for _, withMsgs := range cfgs {
		var mb soymsg.Bundle
		if withMsgs {
			fm := soyMsgBundle(tr).(fakeMsgs)
			mb = c04Msgs{fm}
		}
		u := &c04Unit{b: b, entry: entry, msgs: withMsgs, reg: reg}
		u.node.Mode = "es5"
		u.bound = c04Magnitude(reg, sets, ij)
		u.shapes = c04Shapes(reg)
		ok := true
		for _, sf := range reg.SoyFiles {
			code, werr := jsWrite(sf, false, mb)
			if werr != nil {
				e.res.Histogram["write-error:"+firstLine04(werr.Error())]++
				ok = false
				break
			}
			u.node.Files = append(u.node.Files, jsNodeFile{Name: sf.Name, Code: code, Templates: templatesOf(sf)})
		}
		if !ok {
			e.res.Count(key, false, "no-script")
			continue
		}
		for _, d := range sets {
			r := tofu.NewRenderer(entry)
			if ij != nil {
				r = r.Inject(ij)
			}
			if mb != nil {
				r = r.WithMessages(mb)
			}
			var sb strings.Builder
			gerr := func() (err error) {
				defer func() {
					if p := recover(); p != nil {
						err = fmt.Errorf("PANIC %v", p)
					}
				}()
				return r.Execute(&sb, d)
			}()
			c := c04Call{data: jsonMap(d), ij: jsonMap(ij), goOut: sb.String(), goErr: gerr}
			u.calls = append(u.calls, c)
			var ijv interface{}
			if ij != nil {
				ijv = c.ij
			}
			u.node.Calls = append(u.node.Calls, jsNodeCall{F: entry, D: c.data, IJ: ijv})
		}
		c14unitSeq04++
		u.node.ID = c14unitSeq04
		units = append(units, u)
	}
	return units
}

var c14unitSeq04 int

func firstLine04(s string) string {
	if i := strings.IndexByte(s, '\n'); i >= 0 {
		s = s[:i]
	}
	if len(s) > 100 {
		s = s[:100]
	}
	return s
}

// ---------- the run ----------

func runC04(e *env) {
	e.res.Rule = "program = bundle from the command grammar restricted to the common subset (no floats -- a separate stream prints float data and short decimal literals through round / floor / ceiling / min / max and + - * --, lets named like the generator's loop helpers live with the loop, integers bounded by construction and checked by a magnitude analysis, same-kind equality, range() only as a loop list, directives noAutoescape/id/escapeHtml; all call forms, let/foreach/for/switch/if, loop helpers, msg and plural with and without a translation bundle, css, $ij) x 2 data sets, plus a corpus of the known divergences; translated by the real soyjs.Write, run in node 20 with soyutils.js, compared with the Go render (exact string). Non-trivial = rendered without error on the Go side; distinct by sources+data."
	if e.replay != "" {
		c04Replay(e)
		return
	}
	var units []*c04Unit
	units = append(units, c04Corpus(e)...)
	units = append(units, c04Bundles(e, 800*e.scale)...)
	units = append(units, c04FloatBundles(e, 120*e.scale)...)
	c04Run(e, units)
	c04ExprTie(e, 3000*e.scale)
	c04StmtTie(e, 1500*e.scale)
	c04EscapeTie(e)
}

func c04Replay(e *env) {
	b, err := c14LoadReplay(e.replay)
	if err != nil {
		e.res.Fail(hx.Violation{Kind: "obligation", What: "cannot read replay: " + err.Error(), Case: e.replay}, "")
		return
	}
	var rp struct {
		Case c04Case `json:"case"`
	}
	readJSONFile(e.replay, &rp)
	d, _ := data.New(rp.Case.Data).(data.Map)
	var ij data.Map
	if rp.Case.IJ != nil {
		ij, _ = data.New(rp.Case.IJ).(data.Map)
	}
	b.Translate = rp.Case.Translate
	c04Run(e, c04Prepare(e, b, rp.Case.Template, []data.Map{d}, ij))
}

func c04Run(e *env, units []*c04Unit) {
	const batch = 200
	for i := 0; i < len(units); i += batch {
		j := i + batch
		if j > len(units) {
			j = len(units)
		}
		c04Node(e, units[i:j], fmt.Sprintf("b%d", i/batch))
	}
	e.res.Note("translation validation: %d units executed by node %s with soyjs/lib/soyutils.js (soy.$$pluralIndex supplied by the runner to match the test bundle's PluralCase)", len(units), "20")
}

const c04Prelude = "soy.$$pluralIndex = function(n) { return n == 1 ? 0 : 1; };\n"

func c04Node(e *env, units []*c04Unit, tag string) {
	var nu []jsNodeUnit
	for _, u := range units {
		n := u.node
		// the plural selector of the test bundle, defined before the generated files
		n.Files = append([]jsNodeFile{{Name: "prelude", Code: c04Prelude, Templates: []string{}}}, n.Files...)
		nu = append(nu, n)
	}
	res, err := jsRunNode(nu, tag, "C04")
	if err != nil {
		e.res.Fail(hx.Violation{Kind: "mismatch", What: "node could not be run", Case: "node batch " + tag, Observed: err.Error()}, "")
		return
	}
	for i, u := range units {
		r := res[i]
		cfg := "no bundle"
		if u.msgs {
			cfg = "with bundle"
		}
		mkCase := func(c c04Call) c04Case {
			tr := 0
			if u.msgs {
				tr = u.b.Translate
			}
			return c04Case{Files: u.b.Files, Template: u.entry, Data: c.data, IJ: c.ij, Translate: tr, Stream: u.b.Stream + " (" + cfg + ")"}
		}
		loadErr := ""
		for k, fr := range r.Files {
			if fr.Syntax != nil {
				loadErr = "syntax: " + *fr.Syntax
			} else if fr.Run != nil {
				loadErr = "load: " + *fr.Run
			} else if len(fr.Missing) > 0 && k > 0 {
				loadErr = "missing: " + strings.Join(fr.Missing, ",")
			}
		}
		if r.Fatal != "" || r.UtilsError != "" {
			loadErr = r.Fatal + r.UtilsError
		}
		for k, c := range u.calls {
			key := fmt.Sprint(u.b.Files, c.data, c.ij, u.msgs)
			cs := mkCase(c)
			if c.goErr != nil {
				// a render error on the Go side: the case is outside the subset both backends define
				e.res.Count(key, false, "go-error")
				continue
			}
			if u.bound >= 53 {
				e.res.Count(key, false, "outside-subset:integer-magnitude")
				continue
			}
			e.res.Count(key, true, "compared")
			for f := range u.b.Feats {
				e.res.Histogram["feat:"+f]++
			}
			if loadErr != "" {
				e.res.Fail(hx.Violation{Kind: "oracle", What: "the generated JavaScript does not load", Case: cs, Expected: hx.Q(c.goOut), Observed: loadErr}, "")
				continue
			}
			if k >= len(r.Calls) {
				continue
			}
			cr := r.Calls[k]
			got, _ := hex.DecodeString(cr.Hex)
			if cr.Err == "" && string(got) == c.goOut {
				if len(e.res.Samples) < 5 && i%40 == 0 {
					e.res.Sample(map[string]interface{}{"template": u.entry, "source": c14Trunc04(u.b.Files[0].Text), "data": c.data, "output": hx.Q(c.goOut)})
				}
				continue
			}
			obs := hx.Q(string(got))
			if cr.Err != "" {
				obs = "error: " + cr.Err
			}
			kk := c04Known(u, c, string(got), cr.Err)
			if os.Getenv("VERIF_TRACE") != "" {
				fmt.Fprintf(os.Stderr, "DIVERGE known=%q stream=%s\n  go=%s\n  js=%s\n  data=%v\n%s\n", kk, u.b.Stream, hx.Q(c.goOut), obs, c.data, u.b.Files[0].Text)
			}
			e.res.Histogram["diverge:"+strings.SplitN(u.b.Stream, ":", 2)[0]+":"+kk]++
			e.res.Fail(hx.Violation{Kind: "oracle", What: "the generated JavaScript returns a different string than the Go renderer writes", Case: cs, Expected: hx.Q(c.goOut), Observed: obs}, kk)
		}
	}
}

func c14Trunc04(s string) string {
	if len(s) > 1200 {
		return s[:1200] + "..."
	}
	return s
}

// c04Known attributes a divergence to a recorded finding: the trigger must hold on the input and the
// observed difference must be the recorded one.
func c04Known(u *c04Unit, c c04Call, got, jsErr string) string {
	if jsErr != "" {
		return ""
	}
	// J6: the double quote is &#34; in Go and &quot; in JavaScript
	if strings.Contains(got, "quot;") && strings.ReplaceAll(got, "quot;", "#34;") == c.goOut && c04HasQuote(u, c) {
		return "quote-entity"
	}
	// (js-param-buffer-binds-name was repaired as /repo 516f5ee: a fixed finding attributes nothing, and its trigger must
	// not pre-empt the findings below)
	if u.shapes["print-collection"] || c04PrintsCollection(u, c) {
		return "print-collection"
	}
	if u.shapes["print-andor"] {
		return "andor-operand-value"
	}
	// (round-negative-tie was repaired as /repo b45f25a: likewise)
	// I11: attributed only when the trigger really holds on a printed value: one side uses exponent notation
	if u.shapes["float"] && (c04Exponent.MatchString(c.goOut) || c04Exponent.MatchString(got)) {
		return "float-format"
	}
	return ""
}

// c04PrintsCollection: some data value printed directly is a list or a map (conservative: the bundle prints a variable whose value is a collection)
func c04PrintsCollection(u *c04Unit, c c04Call) bool {
	coll := map[string]bool{}
	for k, v := range c.data {
		switch v.(type) {
		case []interface{}, map[string]interface{}:
			coll[k] = true
		}
	}
	// ... or a variable that some {let} or {param} of the bundle binds to a list or map literal (by name: conservative)
	var bind func(n ast.Node)
	isColl := func(e ast.Node) bool {
		switch e.(type) {
		case *ast.ListLiteralNode, *ast.MapLiteralNode:
			return true
		}
		return false
	}
	bind = func(n ast.Node) {
		switch x := n.(type) {
		case *ast.LetValueNode:
			if isColl(x.Expr) {
				coll[x.Name] = true
			}
		case *ast.CallParamValueNode:
			if isColl(x.Value) {
				coll[x.Key] = true
			}
		}
		if p, ok := n.(ast.ParentNode); ok {
			for _, ch := range p.Children() {
				if ch != nil && !isNilNode(ch) {
					bind(ch)
				}
			}
		}
	}
	for _, t := range u.reg.Templates {
		bind(t.Node)
	}
	found := false
	var walk func(n ast.Node)
	walk = func(n ast.Node) {
		if p, ok := n.(*ast.PrintNode); ok {
			if dr, ok := p.Arg.(*ast.DataRefNode); ok && len(dr.Access) == 0 && coll[dr.Key] {
				found = true
			}
		}
		if p, ok := n.(ast.ParentNode); ok {
			for _, ch := range p.Children() {
				if ch != nil && !isNilNode(ch) {
					walk(ch)
				}
			}
		}
	}
	for _, t := range u.reg.Templates {
		walk(t.Node)
	}
	return found
}

var _ = sort.Strings

// c04ParamBufferTrigger: the trigger of js-param-buffer-binds-name (pending repair C04-11): some file refers to a Soy
// variable called exactly $param and has a content parameter
var c04DollarParam = regexp.MustCompile(`\$param([^A-Za-z0-9_]|$)`)

func c04ParamBufferTrigger(u *c04Unit) bool {
	for _, f := range u.b.Files {
		if c04DollarParam.MatchString(f.Text) && strings.Contains(f.Text, "{/param}") {
			return true
		}
	}
	return false
}

// c04HasQuote: the trigger of quote-entity: a double quote occurs in the sources or in the data
func c04HasQuote(u *c04Unit, c c04Call) bool {
	for _, f := range u.b.Files {
		if strings.Contains(f.Text, "\"") {
			return true
		}
	}
	return strings.Contains(fmt.Sprint(c.data, c.ij), "\"")
}
