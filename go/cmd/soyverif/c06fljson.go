//go:build c06

package main

// The model of encoding/json's float layout (Model/NumJson.v fl_to_json: shortest digits, 'f' layout for
// 1e-6 <= |x| < 1e21, else 'e' layout with the exponent cleaned up) against json.Marshal on a pool of floats:
// powers of two and ten with both neighbours (the two layout thresholds 1e-6 and 1e21, the digit-count
// boundaries, exponents of one, two and three digits), short decimals, 53-bit mantissas, integers, random bit
// patterns at moderate exponents.  The same text is what the |json directive writes for a data.Float
// (compared through render_xj by the json-values family).

import (
	"encoding/json"
	"fmt"
	"math"
	"strconv"
	"strings"

	"soyverif/internal/hx"
)

func c06FloatPool(r *hx.Rand, scale int) []float64 {
	var out []float64
	add := func(f float64) { out = append(out, f, -f) }
	for e := -40; e <= 80; e += 3 {
		p := math.Ldexp(1, e)
		add(p)
		add(math.Nextafter(p, 0))
		add(3 * p)
	}
	for _, e := range []int{-999, -340, 333, 899} {
		out = append(out, math.Ldexp(1, e), -math.Nextafter(math.Ldexp(1, e), math.Inf(1)))
	}
	for k := -24; k <= 24; k++ {
		p, _ := strconv.ParseFloat("1e"+strconv.Itoa(k), 64)
		add(p)
		add(math.Nextafter(p, 0))
		add(math.Nextafter(p, math.Inf(1)))
		q, _ := strconv.ParseFloat("9.999999999999999e"+strconv.Itoa(k), 64)
		add(q)
		q, _ = strconv.ParseFloat("1.25e"+strconv.Itoa(k), 64)
		add(q)
	}
	for _, f := range []float64{0, math.Copysign(0, -1), 1, 0.5, 0.1, 0.3, 1.0 / 3, 100, 999999.5, 1e6, 1234567.5, 1e-6, 0.000001, 9.999999999999999e-07, 1.0000000000000002e-06,
		1e21, 9.999999999999999e20, 1.0000000000000001e21, 1e20, 123456789012345678901, 1e-7, 1.5e-7, 1e-9, 1e-10, 1e-99, 1e-100, 1e99, 1e100, 1 << 53, (1 << 53) + 2, 1 << 63,
		5e-324, 2.2250738585072014e-308, 4.35, 8.41e21} {
		add(f)
	}
	n := 260 * scale
	for i := 0; i < n; i++ {
		var f float64
		switch i % 5 {
		case 0:
			bits := r.U64()
			ex := 1023 + r.Intn(200) - 100
			bits = bits&^(uint64(0x7ff)<<52) | uint64(ex)<<52
			f = math.Float64frombits(bits)
		case 1:
			f = float64(int64(r.Intn(1<<20))-(1<<19)) / float64(int64(1)<<uint(r.Intn(30)))
		case 2:
			f = math.Ldexp(float64(r.U64()&((1<<53)-1)), r.Intn(140)-90)
		case 3:
			f, _ = strconv.ParseFloat(fmt.Sprintf("%de%d", r.Intn(100000), r.Intn(60)-30), 64)
		case 4:
			f = float64(r.U64() >> uint(r.Intn(63)))
		}
		out = append(out, f)
	}
	return out
}

func c06FloatJSON(e *env) {
	pool := c06FloatPool(e.rng, e.scale)
	pool = append(pool, math.NaN(), math.Inf(1), math.Inf(-1))
	reqs := make([]string, len(pool))
	for i, f := range pool {
		reqs[i] = "c06_fl_json " + flSexp(f)
	}
	resp := e.m.Batch(reqs)
	for i, f := range pool {
		bs, err := json.Marshal(f)
		want := string(bs)
		e.res.Count("float-json|"+strconv.FormatUint(math.Float64bits(f), 16), true, "group:float-json")
		r := resp[i]
		switch {
		case err != nil:
			// NaN, +-Inf: UnsupportedValueError
			e.res.Histogram["float-json:unsupported-value"]++
			if !(len(r) == 1 && r[0] == "none") {
				e.res.Fail(hx.Violation{Kind: "mismatch", What: "json.Marshal refuses the float, the model (NumJson.fl_to_json) prints it", Case: fmt.Sprint(f), Observed: fmt.Sprint(r)}, "")
			}
		case len(r) == 1 && r[0] == "none":
			e.res.Histogram["float-json:outside-the-model(subnormal-or-huge)"]++
			if a := math.Abs(f); a > 1e-280 && a < 1e260 {
				e.res.Fail(hx.Violation{Kind: "mismatch", What: "NumJson.fl_to_json gives up inside its domain", Case: want}, "")
			}
		case len(r) == 1 && strings.HasPrefix(r[0], "s"):
			got := hx.UnH(strings.TrimPrefix(r[0][1:], "-"))
			if got != want {
				e.res.Fail(hx.Violation{Kind: "mismatch", What: "NumJson.fl_to_json and json.Marshal(float64) disagree", Case: fmt.Sprintf("%b", f), Expected: want, Observed: got}, "")
			}
			if strings.Contains(want, "e") {
				e.res.Histogram["float-json:exponent-layout"]++
			} else {
				e.res.Histogram["float-json:positional-layout"]++
			}
		default:
			e.res.Fail(hx.Violation{Kind: "mismatch", What: "model runner failed on c06_fl_json", Case: want, Observed: fmt.Sprint(r)}, "")
		}
	}
}
