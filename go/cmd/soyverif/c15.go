//go:build c15

package main

// C15 — template text is normalised by the line-joining rule and nothing else.
//  (1) byte level: parse.rawtext (through the verif hook VerifRawText) against the
//      proved model rawtext_run AND against the Spec's normalize, exhaustively over
//      an eight-symbol alphabet up to length 6 (7 in the thorough tier) under the
//      four flag pairs, plus random longer strings with NUL, stray 0x80/0xC3 and
//      multi-byte runes.  Oracle: the output's non-white-space bytes are the
//      input's, and (no NUL in the input) the output is the Spec's normalize.
//  (2) template level: text placed between every kind of neighbouring tag and
//      comment, compiled and rendered; the expected output is the Spec's
//      body_text of every brace-free stretch (evaluated by the extracted Coq
//      definition) between the known outputs of the tags; literal blocks and
//      special-character commands must emit exactly their characters.
//      What no longer rests on this check alone: a file that is ONE brace-free
//      stretch of text with comments -- scanner model + parser model give the
//      Spec's body_text (theorem C15_body_text_spec_partial; http://x clause:
//      C15_http_not_comment), and comment-free text between the commands
//      {sp} {nil} {\n} {\r} {\t} {lb} {rb} and {literal} blocks
//      (C15_body_special_chars_spec, C15_literal_exact).  Still by this check
//      only: comments next to tags, other tags as neighbours of text.

import (
	"encoding/hex"
	"encoding/json"
	"fmt"
	"os"
	"strings"

	"github.com/robfig/soy/data"
	"github.com/robfig/soy/parse"
	"soyverif/internal/hx"
)

func init() { props["C15"] = runC15 }

var c15Alphabet = []string{"a", "<", ">", " ", "\t", "\r", "\n", "\u00e9"}

var c15Flags = [4][2]bool{{false, false}, {false, true}, {true, false}, {true, true}}

func c15Nonspace(s string) string {
	var sb strings.Builder
	for i := 0; i < len(s); i++ {
		switch s[i] {
		case ' ', '\t', '\r', '\n':
		default:
			sb.WriteByte(s[i])
		}
	}
	return sb.String()
}

func c15RawText(s string, tb, ta bool) (out string, panicked string) {
	defer func() {
		if r := recover(); r != nil {
			panicked = fmt.Sprint(r)
		}
	}()
	return string(parse.VerifRawText(s, tb, ta)), ""
}

func runC15(e *env) {
	maxLen := 6
	if e.scale >= 10 {
		maxLen = 7
	}
	e.res.Rule = fmt.Sprintf("byte level: every string of length <= %d over {a < > space tab CR LF e-acute} x the four (trimBefore, trimAfter) pairs, each compared with the extracted Coq model rawtext_run and with the Spec normalize (all of them through the model runner, none sampled), plus random strings of length 8..60 with NUL, 0x80, a cut multi-byte sequence, NBSP and an astral rune; template level: a text x left neighbour x right neighbour (template start/end, print, if/else/endif, sp nil \\n \\r \\t lb rb, literal, call) x comment placement (// after white space, at line start, after a tag; /* */ before, after, inside; line ends LF CR CRLF), plus random bodies with nested if blocks; expected output = Spec body_text of each brace-free stretch (extracted Coq definition) between the tags' own outputs. Non-trivial = the text contains a line break or a comment (the rule or the comment stripping acts); distinct by input text and flags (byte level: by construction of the enumeration).", maxLen)
	if e.replay != "" {
		c15Replay(e)
		return
	}
	c15Exhaustive(e, maxLen)
	c15Random(e)
	c15Templates(e)
}

// ---------- byte level ----------

type c15Raw struct {
	s    string
	impl [4]string
	pan  [4]string
}

func c15RawCase(s string, k int) map[string]interface{} {
	return map[string]interface{}{"kind": "rawtext", "input": hx.Q(s), "input_hex": hx.H(s), "trimBefore": c15Flags[k][0], "trimAfter": c15Flags[k][1]}
}

// c15CheckRaw compares one string under the four flag pairs with the model
// response of "rawtext4".
func c15CheckRaw(e *env, c *c15Raw, resp []string) {
	hasNul := strings.IndexByte(c.s, 0) >= 0
	if len(resp) != 8 {
		e.res.Fail(hx.Violation{Kind: "mismatch", What: "model runner did not answer rawtext4", Case: c15RawCase(c.s, 0), Observed: strings.Join(resp, " ")}, "")
		return
	}
	for k := 0; k < 4; k++ {
		if c.pan[k] != "" {
			e.res.Fail(hx.Violation{Kind: "oracle", What: "rawtext panics", Case: c15RawCase(c.s, k), Observed: c.pan[k]}, "")
			continue
		}
		out := c.impl[k]
		if c15Nonspace(out) != c15Nonspace(c.s) {
			e.res.Fail(hx.Violation{Kind: "oracle", What: "rawtext changes the non-white-space bytes of the text",
				Case: c15RawCase(c.s, k), Expected: hx.Q(c15Nonspace(c.s)), Observed: hx.Q(out)}, "")
			continue
		}
		spec := hx.UnH(resp[2*k+1])
		if !hasNul && out != spec {
			e.res.Fail(hx.Violation{Kind: "oracle", What: "rawtext output is not the line-joining rule's (Spec normalize)",
				Case: c15RawCase(c.s, k), Expected: hx.Q(spec), Observed: hx.Q(out)}, "")
			continue
		}
		if resp[2*k] == "C" || hx.UnH(resp[2*k]) != out {
			e.res.Fail(hx.Violation{Kind: "mismatch", What: "model rawtext_run differs from parse.rawtext",
				Case: c15RawCase(c.s, k), Expected: resp[2*k], Observed: hx.Q(out)}, "")
		}
	}
}

func c15Exhaustive(e *env, maxLen int) {
	const chunk = 100000
	var cases []*c15Raw
	var reqs []string
	flush := func() {
		resp := e.m.Batch(reqs)
		for i, c := range cases {
			c15CheckRaw(e, c, resp[i])
		}
		cases, reqs = cases[:0], reqs[:0]
	}
	n := 0
	idx := make([]int, maxLen)
	for l := 0; l <= maxLen; l++ {
		for i := range idx {
			idx[i] = 0
		}
		for {
			var sb strings.Builder
			for i := 0; i < l; i++ {
				sb.WriteString(c15Alphabet[idx[i]])
			}
			s := sb.String()
			c := &c15Raw{s: s}
			for k := 0; k < 4; k++ {
				c.impl[k], c.pan[k] = c15RawText(s, c15Flags[k][0], c15Flags[k][1])
			}
			cases = append(cases, c)
			reqs = append(reqs, "rawtext4 "+hx.H(s))
			// bookkeeping without hashing: the enumeration yields each (string, flags) once
			e.res.Evaluations += 4
			e.res.Histogram["rawtext:exhaustive"] += 4
			if strings.ContainsAny(s, "\r\n") {
				e.res.Distinct += 4
			}
			if n%49999 == 7 {
				e.res.Sample(map[string]string{"kind": "rawtext", "input": hx.Q(s), "trimBefore": "false", "trimAfter": "true", "output": hx.Q(c.impl[1])})
			}
			n++
			if len(cases) >= chunk {
				flush()
			}
			// next index vector
			i := l - 1
			for i >= 0 {
				idx[i]++
				if idx[i] < len(c15Alphabet) {
					break
				}
				idx[i] = 0
				i--
			}
			if i < 0 {
				break
			}
		}
	}
	flush()
	e.res.Exhaustive = true
	e.res.Note("byte level: %d strings x 4 flag pairs enumerated; every one compared with the model rawtext_run and the Spec normalize", n)
}

var c15RandAlphabet = []string{"a", "b", "<", ">", " ", " ", "\t", "\r", "\n", "\n", "\r\n", "\u00e9", "\x00", "\x80", "\xc3", "\u00a0", "\u2003", "\U0001F600", "\v", "/", "*", "{", "}"}

func c15Random(e *env) {
	n := 3000 * e.scale
	var cases []*c15Raw
	var reqs, reqs2 []string
	var ks []int
	for i := 0; i < n; i++ {
		l := 8 + e.rng.Intn(53)
		var sb strings.Builder
		for j := 0; j < l; j++ {
			if e.rng.Chance(3) {
				sb.WriteByte(byte(e.rng.Intn(256)))
			} else {
				sb.WriteString(e.rng.Pick(c15RandAlphabet))
			}
		}
		s := sb.String()
		c := &c15Raw{s: s}
		for k := 0; k < 4; k++ {
			c.impl[k], c.pan[k] = c15RawText(s, c15Flags[k][0], c15Flags[k][1])
		}
		cases = append(cases, c)
		reqs = append(reqs, "rawtext4 "+hx.H(s))
		k := e.rng.Intn(4)
		ks = append(ks, k)
		reqs2 = append(reqs2, "normalize_nul "+hx.H(s)+" "+hx.B(c15Flags[k][0])+" "+hx.B(c15Flags[k][1]))
		for k := 0; k < 4; k++ {
			e.res.Count(fmt.Sprintf("r:%d:%s", k, s), strings.ContainsAny(s, "\r\n"), "rawtext:random")
		}
		if i%977 == 3 {
			e.res.Sample(map[string]string{"kind": "rawtext", "input": hx.Q(s), "trimBefore": "true", "trimAfter": "false", "output": hx.Q(c.impl[2])})
		}
	}
	resp := e.m.Batch(reqs)
	resp2 := e.m.Batch(reqs2)
	for i, c := range cases {
		c15CheckRaw(e, c, resp[i])
		// the characterisation proved for every byte string: the rule with NUL as a third joiner
		k := ks[i]
		if c.pan[k] == "" && (len(resp2[i]) != 1 || hx.UnH(resp2[i][0]) != c.impl[k]) {
			e.res.Fail(hx.Violation{Kind: "mismatch", What: "parse.rawtext differs from normalize_with is_tight_joiner (the rule with NUL as a joiner)",
				Case: c15RawCase(c.s, k), Expected: strings.Join(resp2[i], " "), Observed: hx.Q(c.impl[k])}, "")
		}
	}
}

// ---------- template level ----------

type c15Tok struct {
	Text string `json:"text,omitempty"` // a brace-free stretch of template text (comments included)
	Tag  string `json:"tag,omitempty"`  // source of a tag (or of a whole literal block)
	Out  string `json:"out,omitempty"`  // what the tag itself renders
	Dead bool   `json:"dead,omitempty"` // inside a branch that is not taken
}

type c15Tmpl struct {
	toks  []c15Tok
	class string
}

func c15T(s string) c15Tok       { return c15Tok{Text: s} }
func c15G(src, out string) c15Tok { return c15Tok{Tag: src, Out: out} }

// merge adjacent text tokens (a stretch is maximal)
func c15Merge(toks []c15Tok) []c15Tok {
	var r []c15Tok
	for _, t := range toks {
		if t.Tag == "" && t.Text == "" {
			continue
		}
		if t.Tag == "" && len(r) > 0 && r[len(r)-1].Tag == "" && r[len(r)-1].Dead == t.Dead {
			r[len(r)-1].Text += t.Text
			continue
		}
		r = append(r, t)
	}
	return r
}

func c15Source(toks []c15Tok) string {
	var body strings.Builder
	for _, t := range toks {
		if t.Tag != "" {
			body.WriteString(t.Tag)
		} else {
			body.WriteString(t.Text)
		}
	}
	doc := "/** */"
	if strings.Contains(body.String(), "$x") {
		doc = "/** @param x */"
	}
	return "{namespace t}\n" + doc + "\n{template .main}" + body.String() + "{/template}\n/** */\n{template .o}[o]{/template}\n"
}

// neighbours: Pre/Post wrap the whole body so that block tags balance
type c15Nb struct {
	name      string
	pre       []c15Tok
	tok       *c15Tok
	post      []c15Tok
}

func c15Dead(t c15Tok) c15Tok { t.Dead = true; return t }

func c15Lefts() []c15Nb {
	g := func(src, out string) *c15Tok { t := c15G(src, out); return &t }
	return []c15Nb{
		{name: "template-start"},
		{name: "print", tok: g("{$x}", "X")},
		{name: "if", tok: g("{if true}", ""), post: []c15Tok{c15G("{/if}", "")}},
		{name: "endif", pre: []c15Tok{c15G("{if true}", ""), c15T("y")}, tok: g("{/if}", "")},
		{name: "else", pre: []c15Tok{c15G("{if false}", ""), c15Dead(c15T(" z "))}, tok: g("{else}", ""), post: []c15Tok{c15G("{/if}", "")}},
		{name: "sp", tok: g("{sp}", " ")},
		{name: "nil", tok: g("{nil}", "")},
		{name: "newline", tok: g("{\\n}", "\n")},
		{name: "cr", tok: g("{\\r}", "\r")},
		{name: "tab", tok: g("{\\t}", "\t")},
		{name: "lb", tok: g("{lb}", "{")},
		{name: "rb", tok: g("{rb}", "}")},
		{name: "literal", tok: g("{literal} <L>\n {/literal}", " <L>\n ")},
		{name: "call", tok: g("{call .o /}", "[o]")},
	}
}

func c15Rights() []c15Nb {
	g := func(src, out string) *c15Tok { t := c15G(src, out); return &t }
	return []c15Nb{
		{name: "template-end"},
		{name: "print", tok: g("{$x}", "X")},
		{name: "if", tok: g("{if true}", ""), post: []c15Tok{c15T("y"), c15G("{/if}", "")}},
		{name: "endif", pre: []c15Tok{c15G("{if true}", "")}, tok: g("{/if}", "")},
		{name: "else", pre: []c15Tok{c15G("{if true}", "")}, tok: g("{else}", ""), post: []c15Tok{c15Dead(c15T(" z ")), c15G("{/if}", "")}},
		{name: "sp", tok: g("{sp}", " ")},
		{name: "nil", tok: g("{nil}", "")},
		{name: "newline", tok: g("{\\n}", "\n")},
		{name: "cr", tok: g("{\\r}", "\r")},
		{name: "tab", tok: g("{\\t}", "\t")},
		{name: "lb", tok: g("{lb}", "{")},
		{name: "rb", tok: g("{rb}", "}")},
		{name: "literal", tok: g("{literal}\n// x {$y} /* */ {/literal}", "\n// x {$y} /* */ ")},
		{name: "call", tok: g("{call .o /}", "[o]")},
	}
}

func c15Between(l, r c15Nb, stretch string) []c15Tok {
	var toks []c15Tok
	toks = append(toks, r.pre...)
	toks = append(toks, l.pre...)
	if l.tok != nil {
		toks = append(toks, *l.tok)
	}
	toks = append(toks, c15T(stretch))
	if r.tok != nil {
		toks = append(toks, *r.tok)
	}
	toks = append(toks, r.post...)
	toks = append(toks, l.post...)
	return c15Merge(toks)
}

var c15Words = []string{"a", "b", "/", "a/", "/b", "*", "<", ">", "<b>", "</b>", "\u00e9", "\u00a0", "\u2003", "\u0085", "x/y", "2*3", "http://x", "a:b", "a//b", "&", "'", "\"", "\U0001F600", "\v", "-", "."}
var c15Spaces = []string{" ", "  ", "\t", "\n", "\r\n", "\r", " \n ", "\n\n", "\n\t", " \r\n  "}
var c15Comments = []string{"//c\n", "// c d\r\n", "//\n", "// /* x */\n", "//c\r", "/*c*/", "/* c\n d */", "/* // */", "/*{x}*/", "/* * / */", "/*\n*/", "/**/", "/*/ hidden */", "/*//// banner ////*/", "/*/*/", "/***/", "/* a **/", "/*/ x /**/"}
var c15Literals = []string{"", " x ", "a\n b", "{$q}", "// not a comment\n", "/* c */", "{sp}", "  ", "\n", "<b> {", "\u00e9\u00a0\n", "}{", "\t\r\n"}
var c15LiteralBlanks = []string{"", "", " ", "\t", " \t  "}

func c15RandStretch(r *hx.Rand) string {
	var sb strings.Builder
	n := 1 + r.Intn(7)
	for i := 0; i < n; i++ {
		switch {
		case r.Chance(40):
			sb.WriteString(r.Pick(c15Words))
		case r.Chance(60):
			sb.WriteString(r.Pick(c15Spaces))
		default:
			if r.Chance(75) {
				sb.WriteString(r.Pick(c15Spaces))
			}
			sb.WriteString(r.Pick(c15Comments))
		}
	}
	return sb.String()
}

func c15RandBody(r *hx.Rand, depth int, dead bool) []c15Tok {
	var toks []c15Tok
	mark := func(t c15Tok) c15Tok { t.Dead = dead; return t }
	n := 1 + r.Intn(5)
	for i := 0; i < n; i++ {
		switch k := r.Intn(12); {
		case k < 5:
			toks = append(toks, mark(c15T(c15RandStretch(r))))
		case k < 8:
			nb := c15Lefts()[1+r.Intn(len(c15Lefts())-1)]
			if nb.pre != nil || nb.post != nil {
				toks = append(toks, mark(c15G("{$x}", "X")))
			} else {
				toks = append(toks, mark(*nb.tok))
			}
		case k < 9:
			l := r.Pick(c15Literals)
			bl := r.Pick(c15LiteralBlanks) // {literal  }: blanks before the brace of the opening tag
			toks = append(toks, mark(c15G("{literal"+bl+"}"+l+"{/literal}", l)))
		case k < 11 && depth > 0:
			if r.Bool() {
				toks = append(toks, mark(c15G("{if true}", "")))
				toks = append(toks, c15RandBody(r, depth-1, dead)...)
				toks = append(toks, mark(c15G("{/if}", "")))
			} else {
				toks = append(toks, mark(c15G("{if false}", "")))
				toks = append(toks, c15RandBody(r, depth-1, true)...)
				toks = append(toks, mark(c15G("{else}", "")))
				toks = append(toks, c15RandBody(r, depth-1, dead)...)
				toks = append(toks, mark(c15G("{/if}", "")))
			}
		default:
			toks = append(toks, mark(c15T(r.Pick(c15Spaces))))
		}
	}
	return toks
}

// c15CheckTemplates compiles and renders every case and compares with the
// expectation assembled from Spec body_text of each stretch.
func c15CheckTemplates(e *env, cases []c15Tmpl) {
	// Two Spec evaluations per live stretch: the stretch itself, and the stretch
	// followed by a sentinel letter.  When the sentinel does not come out as the last
	// byte, the stretch ends inside a line comment (which would swallow the tag that
	// follows): such a body is not one the generator meant to build and is skipped.
	var reqs []string
	for _, c := range cases {
		for _, t := range c.toks {
			if t.Tag == "" {
				reqs = append(reqs, "body_text "+hx.H(t.Text)+" #0", "body_text "+hx.H(t.Text+"Q")+" #0")
			}
		}
	}
	resp := e.m.Batch(reqs)
	ri := 0
	for ci, c := range cases {
		src := c15Source(c.toks)
		caseJSON := map[string]interface{}{"kind": "template", "source": src, "tokens": c.toks, "template": "t.main"}
		var exp strings.Builder
		specOK := true
		nontrivial := false
		for _, t := range c.toks {
			if t.Tag != "" {
				if !t.Dead {
					exp.WriteString(t.Out)
				}
				continue
			}
			r, rq := resp[ri], resp[ri+1]
			ri += 2
			if len(r) != 2 || r[0] != "some" || len(rq) != 2 || rq[0] != "some" || !strings.HasSuffix(hx.UnH(rq[1]), "Q") {
				specOK = false
				continue
			}
			if t.Dead { // in a branch that is not taken: must be well formed, renders nothing
				continue
			}
			exp.WriteString(hx.UnH(r[1]))
			if strings.ContainsAny(t.Text, "\r\n") || strings.Contains(t.Text, "//") || strings.Contains(t.Text, "/*") {
				nontrivial = true
			}
		}
		e.res.Count("t:"+src, nontrivial, c.class)
		if !specOK {
			e.res.Histogram["tmpl:generator-fault"]++
			if e.res.Histogram["tmpl:generator-fault"] > 3 {
				continue
			}
			e.res.Note("template case skipped: a generated stretch has an unclosed comment, a soydoc opener, or ends inside a line comment: %s", hx.Q(src))
			continue
		}
		tofu, err := compile([]srcFile{{"c15.soy", src}})
		if err != nil {
			e.res.Fail(hx.Violation{Kind: "oracle", What: "a template whose text, comments, literal blocks and special-character commands are all well formed is rejected",
				Case: caseJSON, Expected: hx.Q(exp.String()), Observed: errStr(err)}, "")
			continue
		}
		out, rerr := render(tofu, "t.main", data.Map{"x": data.String("X")}, nil)
		if ci%397 == 5 {
			e.res.Sample(map[string]interface{}{"kind": "template", "source": src, "output": hx.Q(out), "error": errStr(rerr)})
		}
		if rerr != nil {
			e.res.Fail(hx.Violation{Kind: "oracle", What: "rendering a text-only template fails", Case: caseJSON, Expected: hx.Q(exp.String()), Observed: errStr(rerr)}, "")
			continue
		}
		if out != exp.String() {
			what := "rendered text is not the line-joining normalisation of the template text (Spec body_text) between the tags' own outputs"
			if c15Nonspace(out) != c15Nonspace(exp.String()) {
				what = "rendered text loses or gains non-white-space characters: " + what
			}
			e.res.Fail(hx.Violation{Kind: "oracle", What: what, Case: caseJSON, Expected: hx.Q(exp.String()), Observed: hx.Q(out)}, "")
		}
	}
}

func c15Templates(e *env) {
	var cases []c15Tmpl
	lefts, rights := c15Lefts(), c15Rights()
	// texts: every string of length <= 2 over {a < space LF}, and hand-picked ones
	var texts []string
	small := []string{"a", "<", " ", "\n"}
	texts = append(texts, "")
	for _, x := range small {
		texts = append(texts, x)
		for _, y := range small {
			texts = append(texts, x+y)
		}
	}
	texts = append(texts, " a  b ", "a\n b", "a >\n< b", "\r\n a \r\n", "\ta\t", "\u00e9\n \u00e9", "\u00a0", "\u00a0\n", "\n\u00a0 ", " \u2003\r\n", "\u0085\n",
		"http://x", " see http://x \n", "a//b", "x\n\n\ny", "<b>\n a \n</b>")
	for _, l := range lefts {
		for _, r := range rights {
			if l.name == "else" && r.name == "else" {
				continue // {else} text {else} is not a template
			}
			for _, t := range texts {
				cases = append(cases, c15Tmpl{c15Between(l, r, t), "tmpl:neighbours"})
			}
		}
	}
	// comment placements around a text, between a few neighbour pairs
	cl := []string{"", "/*/ h */", " //c\n", "\n// c\n", "/*c*/", " /**/", " /* c\n c */ ", "//after-a-tag\n"}
	cr := []string{"", " /*/ h {$y} */", " //c\n", " //c\r\n", "\n//c\r", "/*c*/", "/**/ ", " /* // */ ", "\t// {$y} /* x\n"}
	mids := []string{"a", " a ", "\na\n", " a\n b ", "a /*in*/ b", "a/*/ in */b", "a //in\n b", "a\n//in\nb", "http://x //c\n", "<\n", " ", "\n", "", "\u00a0\n"}
	pairs := [][2]int{{0, 0}, {1, 1}, {5, 5}, {6, 12}, {12, 6}, {2, 3}, {13, 1}, {7, 7}}
	for _, p := range pairs {
		for _, a := range cl {
			for _, m := range mids {
				for _, z := range cr {
					cases = append(cases, c15Tmpl{c15Between(lefts[p[0]], rights[p[1]], a+m+z), "tmpl:comments"})
				}
			}
		}
	}
	// literal blocks and special characters on their own
	for _, l := range c15Literals {
		cases = append(cases, c15Tmpl{c15Merge([]c15Tok{c15T(" a\n"), c15G("{literal}"+l+"{/literal}", l), c15T("\n b ")}), "tmpl:literal"})
		cases = append(cases, c15Tmpl{c15Merge([]c15Tok{c15G("{literal}"+l+"{/literal}", l)}), "tmpl:literal"})
		cases = append(cases, c15Tmpl{c15Merge([]c15Tok{c15T(" a\n"), c15G("{literal \t}"+l+"{/literal}", l), c15T("\n b ")}), "tmpl:literal-blanks"})
	}
	cases = append(cases, c15Tmpl{c15Merge([]c15Tok{c15G("{sp}", " "), c15G("{nil}", ""), c15G("{\\n}", "\n"), c15G("{\\r}", "\r"), c15G("{\\t}", "\t"), c15G("{lb}", "{"), c15G("{rb}", "}")}), "tmpl:special"})
	// random bodies
	for i := 0; i < 2500*e.scale; i++ {
		cases = append(cases, c15Tmpl{c15Merge(c15RandBody(e.rng, 2, false)), "tmpl:random"})
	}
	c15CheckTemplates(e, cases)
}

// ---------- replay ----------

func c15Replay(e *env) {
	bs, err := os.ReadFile(e.replay)
	if err != nil {
		e.res.Note("cannot read replay file: %v", err)
		return
	}
	var rp struct {
		Case struct {
			Kind       string   `json:"kind"`
			InputHex   string   `json:"input_hex"`
			TrimBefore bool     `json:"trimBefore"`
			TrimAfter  bool     `json:"trimAfter"`
			Tokens     []c15Tok `json:"tokens"`
		} `json:"case"`
	}
	if err := json.Unmarshal(bs, &rp); err != nil {
		e.res.Note("cannot parse replay file: %v", err)
		return
	}
	switch rp.Case.Kind {
	case "rawtext":
		s := ""
		if rp.Case.InputHex != "-" {
			b, _ := hex.DecodeString(rp.Case.InputHex)
			s = string(b)
		}
		c := &c15Raw{s: s}
		for k := 0; k < 4; k++ {
			c.impl[k], c.pan[k] = c15RawText(s, c15Flags[k][0], c15Flags[k][1])
			e.res.Count(fmt.Sprintf("r:%d:%s", k, s), true, "rawtext:replay")
		}
		c15CheckRaw(e, c, e.m.Call("rawtext4", hx.H(s)))
	case "template":
		c15CheckTemplates(e, []c15Tmpl{{rp.Case.Tokens, "tmpl:replay"}})
	default:
		e.res.Note("replay file has no C15 case")
	}
}
