package main

// Textual form of Soy values exchanged with the model runner (untagged: always
// compiled).  One syntax for the whole harness, read by ocaml/sexp_ast.ml
// (value_of / value_to) and written by valueSexp in astsexp.go:
//
//   V  ::= undef | vnull | (vb 0|1) | (vi Z) | (vf FL) | (vs x<hex>)
//        | (vl ID V...) | (vm ID (x<hex> V)...)
//   FL ::= nan | inf+ | inf- | z+ | z- | (f M E)      the exact value M * 2^E, M odd
//   Z, M, E decimal integers; x<hex> = "x" followed by the bytes in lower-case hex ("x" = empty)
//   ID ::= 0 (nil list / nil map: data pointer 0) | 1 (empty non-nil list: every
//          make(List, 0) shares runtime.zerobase) | n >= 2 (one number per distinct data pointer)
//   map entries are written in increasing byte order of the keys.
//
// valueToSexp writes a value; sexpToValue reads one back, rebuilding sharing
// (two collections with the same ID are the same Go object).

import (
	"encoding/hex"
	"fmt"
	"math"
	"math/big"
	"strconv"
	"strings"

	"github.com/robfig/soy/data"
)

// valueToSexp serialises v; ids maps data pointers to identities and is
// extended with the collections met for the first time (pass the same map for
// values whose identities must be comparable).
func valueToSexp(v data.Value, ids map[uintptr]int) string {
	t := &idTable{ids: ids, next: 2}
	for _, id := range ids {
		if id >= t.next {
			t.next = id + 1
		}
	}
	return valueSexp(v, t)
}

type sexpNode struct {
	atom   string
	list   []*sexpNode
	isList bool
}

func (n *sexpNode) String() string {
	if !n.isList {
		return n.atom
	}
	parts := make([]string, len(n.list))
	for i, c := range n.list {
		parts[i] = c.String()
	}
	return "(" + strings.Join(parts, " ") + ")"
}

func (n *sexpNode) head() string {
	if n.isList && len(n.list) > 0 && !n.list[0].isList {
		return n.list[0].atom
	}
	return ""
}

// parseSexp reads exactly one S-expression (atoms are runs of characters other
// than space and parentheses).
func parseSexp(s string) (*sexpNode, error) {
	pos := 0
	var one func() (*sexpNode, error)
	skip := func() {
		for pos < len(s) && (s[pos] == ' ' || s[pos] == '\t') {
			pos++
		}
	}
	one = func() (*sexpNode, error) {
		skip()
		if pos >= len(s) {
			return nil, fmt.Errorf("sexp: unexpected end")
		}
		if s[pos] == ')' {
			return nil, fmt.Errorf("sexp: unexpected ) at %d", pos)
		}
		if s[pos] == '(' {
			pos++
			n := &sexpNode{isList: true}
			for {
				skip()
				if pos >= len(s) {
					return nil, fmt.Errorf("sexp: unclosed parenthesis")
				}
				if s[pos] == ')' {
					pos++
					return n, nil
				}
				c, err := one()
				if err != nil {
					return nil, err
				}
				n.list = append(n.list, c)
			}
		}
		st := pos
		for pos < len(s) && s[pos] != ' ' && s[pos] != '\t' && s[pos] != '(' && s[pos] != ')' {
			pos++
		}
		return &sexpNode{atom: s[st:pos]}, nil
	}
	n, err := one()
	if err != nil {
		return nil, err
	}
	skip()
	if pos != len(s) {
		return nil, fmt.Errorf("sexp: trailing text at %d", pos)
	}
	return n, nil
}

func unsx(a string) (string, error) {
	if !strings.HasPrefix(a, "x") {
		return "", fmt.Errorf("expected x<hex>, got %q", a)
	}
	bs, err := hex.DecodeString(a[1:])
	return string(bs), err
}

// flFromSexp rebuilds the float64 from its exact dyadic form.
func flFromSexp(n *sexpNode) (float64, error) {
	if !n.isList {
		switch n.atom {
		case "nan":
			return math.NaN(), nil
		case "inf+":
			return math.Inf(1), nil
		case "inf-":
			return math.Inf(-1), nil
		case "z+":
			return 0, nil
		case "z-":
			return math.Copysign(0, -1), nil
		}
		return 0, fmt.Errorf("bad float %q", n.atom)
	}
	if n.head() != "f" || len(n.list) != 3 || n.list[1].isList || n.list[2].isList {
		return 0, fmt.Errorf("bad float %s", n)
	}
	m, ok := new(big.Int).SetString(n.list[1].atom, 10)
	e, err := strconv.Atoi(n.list[2].atom)
	if !ok || err != nil {
		return 0, fmt.Errorf("bad float %s", n)
	}
	f := new(big.Float).SetPrec(200).SetInt(m)
	f.SetMantExp(f, e)
	r, acc := f.Float64()
	if acc != big.Exact {
		return r, fmt.Errorf("float %s is not a float64", n)
	}
	return r, nil
}

// sexpToValue parses a value.  objs carries the collections already built, by
// ID, so that equal IDs give the same Go object across calls; nil is allowed.
func sexpToValue(s string, objs map[int]data.Value) (data.Value, error) {
	n, err := parseSexp(s)
	if err != nil {
		return nil, err
	}
	if objs == nil {
		objs = map[int]data.Value{}
	}
	return nodeToValue(n, objs)
}

func nodeToValue(n *sexpNode, objs map[int]data.Value) (data.Value, error) {
	if !n.isList {
		switch n.atom {
		case "undef":
			return data.Undefined{}, nil
		case "vnull":
			return data.Null{}, nil
		}
		return nil, fmt.Errorf("bad value %q", n.atom)
	}
	bad := fmt.Errorf("bad value %s", n)
	arg := func(i int) (string, bool) {
		if i >= len(n.list) || n.list[i].isList {
			return "", false
		}
		return n.list[i].atom, true
	}
	switch n.head() {
	case "vb":
		a, ok := arg(1)
		if !ok || len(n.list) != 2 {
			return nil, bad
		}
		return data.Bool(a != "0"), nil
	case "vi":
		a, ok := arg(1)
		z, err := strconv.ParseInt(a, 10, 64)
		if !ok || err != nil || len(n.list) != 2 {
			return nil, bad
		}
		return data.Int(z), nil
	case "vf":
		if len(n.list) != 2 {
			return nil, bad
		}
		f, err := flFromSexp(n.list[1])
		return data.Float(f), err
	case "vs":
		a, ok := arg(1)
		if !ok || len(n.list) != 2 {
			return nil, bad
		}
		str, err := unsx(a)
		return data.String(str), err
	case "vl":
		a, ok := arg(1)
		id, err := strconv.Atoi(a)
		if !ok || err != nil {
			return nil, bad
		}
		if id >= 2 {
			if o, ok := objs[id]; ok {
				if l, isList := o.(data.List); isList && len(l) == len(n.list)-2 {
					return l, nil
				}
				return nil, fmt.Errorf("id %d used for two different collections", id)
			}
		}
		var l data.List
		switch {
		case id == 0 && len(n.list) == 2:
			return data.List(nil), nil
		case len(n.list) == 2:
			return data.List{}, nil
		}
		l = make(data.List, len(n.list)-2)
		if id >= 2 {
			objs[id] = l
		}
		for i, c := range n.list[2:] {
			x, err := nodeToValue(c, objs)
			if err != nil {
				return nil, err
			}
			l[i] = x
		}
		return l, nil
	case "vm":
		a, ok := arg(1)
		id, err := strconv.Atoi(a)
		if !ok || err != nil {
			return nil, bad
		}
		if id == 0 && len(n.list) == 2 {
			return data.Map(nil), nil
		}
		if o, ok := objs[id]; ok && id >= 2 {
			if m, isMap := o.(data.Map); isMap {
				return m, nil
			}
			return nil, fmt.Errorf("id %d used for two different collections", id)
		}
		m := make(data.Map, len(n.list)-2)
		if id >= 2 {
			objs[id] = m
		}
		for _, c := range n.list[2:] {
			if !c.isList || len(c.list) != 2 || c.list[0].isList {
				return nil, bad
			}
			k, err := unsx(c.list[0].atom)
			if err != nil {
				return nil, err
			}
			x, err := nodeToValue(c.list[1], objs)
			if err != nil {
				return nil, err
			}
			m[k] = x
		}
		return m, nil
	}
	return nil, bad
}

// canonIDs renumbers, in order of first appearance, the collection identities
// greater than keep (those allocated by the operation under test); two
// serialisations are equal up to a renaming of fresh identities iff their
// canonical forms are equal.
func canonIDs(s string, keep int) string {
	toks := strings.Split(s, " ")
	ren := map[string]string{}
	for i := 0; i+1 < len(toks); i++ {
		t := strings.TrimLeft(toks[i], "(")
		if t != "vl" && t != "vm" {
			continue
		}
		idTok := toks[i+1]
		core := strings.TrimRight(idTok, ")")
		id, err := strconv.Atoi(core)
		if err != nil || id <= keep {
			continue
		}
		if _, ok := ren[core]; !ok {
			ren[core] = "#" + strconv.Itoa(len(ren))
		}
		toks[i+1] = ren[core] + idTok[len(core):]
	}
	return strings.Join(toks, " ")
}
