//go:build c17

package main

// C17 — a printed expression parses back to the same expression.
//
// Per generated source text s (expressions) or print command:
//   parser correspondence   tokens of the real scanner (parse.VerifLex) -> Coq model
//                           parser (Model/ExprParser.v) -> S-expression, compared with the
//                           tree of the real parse.Expr / parse.SoyFile (positions included;
//                           outcome class ok/error must agree; error texts never compared);
//   printer correspondence  model printer (Model/AstPrint.v) on the real tree vs the bytes
//                           of the real String();
//   oracle                  parse(s) -> String() -> parse again: the two trees must be
//                           equal up to positions.  A difference is a violation of the
//                           property on the implementation, with s as the replay.

import (
	"encoding/json"
	"fmt"
	"os"
	"regexp"
	"strings"

	"github.com/robfig/soy/ast"
	"github.com/robfig/soy/parse"
	"github.com/robfig/soy/soymsg"
	"soyverif/internal/hx"
)

func init() { props["C17"] = runC17 }

type c17Case struct {
	Kind string `json:"kind"` // "expr" | "print" | "msg"
	Src  string `json:"src"`
	Src2 string `json:"src2,omitempty"` // msg: the second print command
}

// real parser, panics reported as class "crash"
func c17ParseExpr(s string) (n ast.Node, class string) {
	defer func() {
		if r := recover(); r != nil {
			n, class = nil, "crash"
		}
	}()
	n, err := parse.Expr(s)
	if err != nil {
		return nil, "err"
	}
	return n, "ok"
}

// a print command is parsed as the only node of a file
func c17ParsePrint(s string) (n ast.Node, class string) {
	defer func() {
		if r := recover(); r != nil {
			n, class = nil, "crash"
		}
	}()
	f, err := parse.SoyFile("", s)
	if err != nil {
		return nil, "err"
	}
	if len(f.Body) != 1 {
		return nil, "shape"
	}
	if _, ok := f.Body[0].(*ast.PrintNode); !ok {
		return nil, "shape"
	}
	return f.Body[0], "ok"
}

var c17PosRe = regexp.MustCompile(`\((null|bool|int|float|str|global|func|listlit|maplit|ref|idx|key|exp|not|neg|tern|print|dir) \d+`)
var c17BinPosRe = regexp.MustCompile(`\(bin ([a-z]+) \d+`)

// c17Strip erases positions from an S-expression dump.
func c17Strip(sexp string) string {
	s := c17PosRe.ReplaceAllString(sexp, "($1 0")
	return c17BinPosRe.ReplaceAllString(s, "(bin $1 0")
}

func c17Tokens(items []parse.VerifItem) string {
	var sb strings.Builder
	for _, it := range items {
		sb.WriteString(" " + hx.I(int64(it.Typ)) + " " + hx.I(int64(it.Pos)) + " " + hx.H(it.Val))
	}
	return sb.String()
}

type c17Pending struct {
	c        c17Case
	class    string // real outcome class
	sexp     string // real tree
	hist     string
	mutated  bool
}

func runC17(e *env) {
	e.res.Rule = "distinct source texts that contain at least one operator, access, call or collection literal"
	if e.replay != "" {
		c17Replay(e)
		return
	}
	g := &c17Gen{r: e.rng, feats: map[string]int{}}
	var batch []c17Pending
	flush := func() {
		c17Check(e, batch)
		batch = batch[:0]
	}
	add := func(c c17Case, hist string, mutated bool) {
		if c17Unsafe(strings.TrimSuffix(c.Src, "}")) {
			e.res.Histogram["skipped:unsafe-for-the-pinned-scanner"]++
			return
		}
		batch = append(batch, c17Pending{c: c, hist: hist, mutated: mutated})
		if len(batch) >= 500 {
			flush()
		}
	}

	// 1. every operator nested in every operator (and unary, ternary), both sides, with
	//    minimal and with redundant parentheses: the two-level matrix
	ops := append([]string{"not", "neg", "tern"}, c17BinOps...)
	mk := func(op string, kids func() *c17Node) *c17Node {
		switch op {
		case "not", "neg":
			return &c17Node{K: op, Kids: []*c17Node{kids()}}
		case "tern":
			return &c17Node{K: "tern", Kids: []*c17Node{kids(), kids(), kids()}}
		}
		return &c17Node{K: "bin", S: op, Kids: []*c17Node{kids(), kids()}}
	}
	atoms := []*c17Node{{K: "ref", S: "a"}, {K: "int", S: "1"}, {K: "int", S: "-2"}, {K: "global", S: "g"}, {K: "float", S: "0.5"}, {K: "list", Kids: []*c17Node{{K: "int", S: "3"}}}}
	for _, outer := range ops {
		for _, inner := range ops {
			arity := map[string]int{"not": 1, "neg": 1, "tern": 3}[outer]
			if arity == 0 {
				arity = 2
			}
			for pos := 0; pos < arity; pos++ {
				for _, red := range []int{0, 100} {
					i := 0
					n := mk(outer, func() *c17Node {
						defer func() { i++ }()
						if i == pos {
							return mk(inner, func() *c17Node { return atoms[g.r.Intn(len(atoms))] })
						}
						return atoms[g.r.Intn(len(atoms))]
					})
					st := &c17Style{r: g.r, redundant: red, tight: g.r.Chance(30)}
					add(c17Case{Kind: "expr", Src: st.src(n)}, "expr:matrix", false)
				}
			}
		}
	}
	// 2. random deep trees, three styles
	for i := 0; i < 2500*e.scale; i++ {
		g.wild = i%10 == 9
		n := g.node(1 + g.r.Intn(5))
		st := &c17Style{r: g.r, redundant: []int{0, 0, 15, 50}[g.r.Intn(4)], tight: g.r.Chance(30), sloppy: g.r.Chance(20)}
		src := st.src(n)
		h := "expr:random"
		if g.wild {
			h = "expr:random-wild-literals"
		}
		add(c17Case{Kind: "expr", Src: src}, h, false)
		if i%5 == 0 {
			add(c17Case{Kind: "expr", Src: c17Mutate(g.r, src)}, "expr:malformed", true)
		}
	}
	// 3. print commands with directives
	g.wild = false
	for i := 0; i < 500*e.scale; i++ {
		st := &c17Style{r: g.r, redundant: []int{0, 20}[g.r.Intn(2)], tight: g.r.Chance(30)}
		body := st.src(g.node(1+g.r.Intn(3))) + g.directives(st, 1)
		src := "{" + body + "}"
		if g.r.Chance(40) || !c17ImplicitOK(body) {
			src = "{print " + body + "}"
		}
		add(c17Case{Kind: "print", Src: src}, "print", false)
	}
	flush()
	// 4. the message extractor identifies placeholders by the printed text: pairs of print
	//    commands as the two placeholders of one {msg}
	for i := 0; i < 1200*e.scale; i++ {
		st := &c17Style{r: g.r, redundant: []int{0, 20}[g.r.Intn(2)], tight: g.r.Chance(30)}
		n := g.node(1 + g.r.Intn(3))
		if g.r.Chance(50) { // data references dominate real placeholders, and share base names
			n = &c17Node{K: "ref", S: g.pick(c17Idents)}
			for j, k := 0, g.r.Intn(3); j < k; j++ {
				n.Acc = append(n.Acc, c17Acc{Kind: "key", NS: g.r.Chance(20), Text: g.pick(c17Idents)})
			}
		}
		dirs := g.directives(st, 1)
		mk := func(st *c17Style) string {
			body := st.src(n) + dirs
			if !c17ImplicitOK(body) {
				return "{print " + body + "}"
			}
			return "{" + body + "}"
		}
		src1 := mk(st)
		var src2, how string
		switch g.r.Intn(5) {
		case 0:
			src2, how = src1, "identical"
		case 1: // the same tree written with other spacing / redundant parentheses
			src2, how = mk(&c17Style{r: g.r, redundant: 40, tight: !st.tight, sloppy: true}), "respaced"
		case 2, 3:
			src2, how = c17FlipCase(g.r, src1), "case-flipped"
		default:
			src2, how = c17Mutate(g.r, src1), "mutated"
		}
		c17CheckMsg(e, c17Case{Kind: "msg", Src: src1, Src2: src2}, "msg:"+how)
	}
	for _, k := range hx.SortedKeys(g.feats) {
		e.res.Histogram["construct:"+k] = g.feats[k]
	}
	// 5. command level: every node type, whole files
	runC17Commands(e)
}

// an implicit print must start with a value, a unary operator or a parenthesis, and a
// leading identifier must not be a command name
func c17ImplicitOK(body string) bool {
	for _, kw := range []string{"alias", "call", "case", "default", "delcall", "else", "elseif", "for", "foreach", "if", "ifempty", "let", "log", "msg", "namespace", "param", "plural", "print", "switch", "template", "debugger", "sp", "nil", "lb", "rb"} {
		if strings.HasPrefix(body, kw) {
			return false
		}
	}
	return true
}

func c17Check(e *env, batch []c17Pending) {
	if len(batch) == 0 {
		return
	}
	reqs := make([]string, 4*len(batch))
	printed := make([]string, len(batch))
	ids := newIDTable()
	for i := range batch {
		b := &batch[i]
		var n ast.Node
		switch b.c.Kind {
		case "expr":
			n, b.class = c17ParseExpr(b.c.Src)
			items := parse.VerifLex("", b.c.Src, true)
			reqs[i] = "parse_expr " + hx.I(int64(2*len(items)+12)) + c17Tokens(items)
		default:
			n, b.class = c17ParsePrint(b.c.Src)
			items := parse.VerifLex("", b.c.Src, false)
			// "{" then either the print keyword (its position is the node's) or the first
			// item of the expression (implicit print: parsePrint is given that item and
			// backs up over it)
			p, rest := 0, items
			if len(items) >= 2 {
				p = items[1].Pos
				rest = items[1:]
				if parse.VerifItemName(items[1].Typ) == "print" {
					rest = items[2:]
				}
			}
			reqs[i] = "parse_print " + hx.I(int64(2*len(items)+12)) + " " + hx.I(int64(p)) + c17Tokens(rest)
		}
		reqs[len(batch)+i] = "ping"
		reqs[2*len(batch)+i] = "ping"
		reqs[3*len(batch)+i] = "ping"
		if n != nil {
			b.sexp = nodeSexp(n, ids)
			printed[i] = n.String()
			reqs[len(batch)+i] = "print_node " + b.sexp
			reqs[2*len(batch)+i] = "tokens_of " + b.sexp
			reqs[3*len(batch)+i] = "c17_kw_clause " + b.sexp
		}
	}
	resp := e.m.Batch(reqs)
	for i := range batch {
		b := &batch[i]
		r := resp[i]
		nontrivial := strings.ContainsAny(b.c.Src, "+-*/%<>=?[(.") || strings.Contains(b.c.Src, " and ") || strings.Contains(b.c.Src, " or ") || strings.Contains(b.c.Src, "not")
		e.res.Count(b.c.Kind+":"+b.c.Src, nontrivial && b.class == "ok", b.hist+":"+b.class)
		if b.class == "ok" {
			e.res.Sample(map[string]string{"src": b.c.Src, "tree": b.sexp})
		}
		if b.class != "ok" && (b.hist == "expr:random" || b.hist == "print" || b.hist == "expr:matrix") && e.res.Histogram["note:rejected"] < 12 {
			e.res.Histogram["note:rejected"]++
			e.res.Note("generated as valid but rejected (%s): %q", b.class, b.c.Src)
		}
		if b.class == "shape" {
			continue // not a single print command (generator slip); nothing to compare
		}
		// ---- parser correspondence ----
		mclass, msexp := "?", ""
		if len(r) >= 1 {
			mclass = r[0]
			if mclass == "ok" && len(r) >= 3 {
				msexp = strings.Join(r[2:], " ")
			}
		}
		if mclass == "crash" && len(r) >= 2 && strings.HasPrefix(hx.UnH(r[1]), "OUT-OF-MODEL") {
			e.res.Histogram["parser-correspondence:skipped-float-outside-model"]++
		} else if mclass != b.class || (b.class == "ok" && msexp != b.sexp) {
			e.res.Fail(hx.Violation{Kind: "mismatch", What: "model parser (Model/ExprParser.v) and parse." + map[string]string{"expr": "Expr", "print": "SoyFile"}[b.c.Kind] + " disagree",
				Case: b.c, Expected: map[string]string{"class": b.class, "tree": b.sexp}, Observed: map[string]string{"class": mclass, "tree": msexp, "raw": strings.Join(r, " ")}}, "")
		} else {
			e.res.Histogram["parser-correspondence:agree:"+b.class]++
		}
		// ---- the keyword clause of lex_ok (Spec/LexKeyword.v c17_kw_clause, a decidable predicate; C17_keyword_clause:
		//      lex_ok implies it): evaluated on every tree the real parser returns.  The scanner reads a keyword as
		//      its own item type, so no parsed tree has a keyword as a function name, the head of a global or a
		//      directive name; a tree on which the clause fails is outside the text-level theorems and is counted ----
		if b.class == "ok" {
			kw := resp[3*len(batch)+i]
			if len(kw) == 1 && kw[0] == "#1" {
				e.res.Histogram["lex_ok-keyword-clause:holds"]++
			} else {
				e.res.Histogram["lex_ok-keyword-clause:FAILS (tree outside the text-level theorems): "+strings.Join(kw, " ")]++
			}
		}
		// ---- printer correspondence ----
		if b.class == "ok" {
			pr := resp[len(batch)+i]
			switch {
			case len(pr) == 1 && pr[0] == "none":
				e.res.Histogram["printer-correspondence:skipped-float-outside-printing-domain"]++
			case len(pr) == 2 && pr[0] == "some" && hx.UnH(pr[1]) == printed[i]:
				e.res.Histogram["printer-correspondence:agree"]++
			default:
				got := strings.Join(pr, " ")
				if len(pr) == 2 {
					got = hx.UnH(pr[1])
				}
				e.res.Fail(hx.Violation{Kind: "mismatch", What: "model printer (Model/AstPrint.v, the REPAIRED String methods) and the real String() disagree", Case: b.c,
					Expected: printed[i], Observed: got}, "")
			}
		}
		// ---- token correspondence: the real scanner reads the real String() as the items
		//      the Spec's tokens_of gives for this tree.  For expressions this is also a
		//      theorem about the scanner MODEL (Properties/LexPrint.v lex_expr_print, used by
		//      C17_text_roundtrip): here it ties that model's claim to the real scanner.
		//      Likewise for print commands (C17_lex_print_command).  What rests on the
		//      correspondences alone: beginTag's dispatch to parsePrint, and spellings other
		//      than the printer's own ----
		if b.class == "ok" && !c17Unsafe(strings.TrimSuffix(printed[i], "}")) {
			var lexed []parse.VerifItem
			if b.c.Kind == "expr" {
				lexed = parse.VerifLex("", printed[i], true)
				if k := len(lexed); k > 0 {
					lexed = lexed[:k-1] // the closing "unclosed tag" error item of expression mode
				}
			} else {
				lexed = parse.VerifLex("", printed[i], false)
				if k := len(lexed); k >= 2 {
					lexed = lexed[1 : k-1] // "{" ... EOF
				}
			}
			var want []string
			for _, it := range lexed {
				want = append(want, hx.I(int64(it.Typ)), hx.H(it.Val))
			}
			tr := resp[2*len(batch)+i]
			if strings.Join(tr, " ") == strings.Join(want, " ") {
				e.res.Histogram["token-correspondence:agree"]++
			} else if pr := resp[len(batch)+i]; len(pr) == 1 && pr[0] == "none" {
				e.res.Histogram["token-correspondence:skipped-float-outside-printing-domain"]++
			} else {
				e.res.Fail(hx.Violation{Kind: "mismatch", What: "the scanner does not read String() as the items tokens_of (Spec/ExprSyntax.v) gives for the tree", Case: b.c,
					Expected: map[string]string{"printed": printed[i], "items": strings.Join(want, " ")}, Observed: strings.Join(tr, " ")}, "")
			}
		}
		// ---- oracle: the printed text parses back to the same tree ----
		if b.class == "ok" {
			c17Oracle(e, b)
		}
	}
}

func c17Oracle(e *env, b *c17Pending) {
	var n ast.Node
	if b.c.Kind == "expr" {
		n, _ = c17ParseExpr(b.c.Src)
	} else {
		n, _ = c17ParsePrint(b.c.Src)
	}
	if n == nil {
		return
	}
	printed := n.String()
	var n2 ast.Node
	var class2 string
	if c17Unsafe(strings.TrimSuffix(printed, "}")) {
		e.res.Histogram["oracle:skipped-unsafe-print"]++
		return
	}
	if b.c.Kind == "expr" {
		n2, class2 = c17ParseExpr(printed)
	} else {
		n2, class2 = c17ParsePrint(printed)
	}
	want := c17Strip(b.sexp)
	got := ""
	if n2 != nil {
		got = c17Strip(nodeSexp(n2, newIDTable()))
	}
	if class2 == "ok" && got == want {
		e.res.Histogram["oracle:roundtrip-ok"]++
		return
	}
	key := c17FindingKey(n)
	e.res.Fail(hx.Violation{Kind: "oracle", What: "the printed text does not parse back to the same tree", Case: b.c,
		Expected: map[string]string{"tree": want},
		Observed: map[string]string{"printed": printed, "class": class2, "tree": got}}, key)
}

// c17FindingKey: the key of the recorded finding whose trigger holds on this tree ("" if none).
func c17FindingKey(n ast.Node) string { return "" }

// c17CheckMsg: two print commands as the placeholders of one message.  They must get the
// same placeholder name exactly when they are the same print command (trees equal up to
// positions), and every name must lead back (MsgNode.Placeholder) to a node with that tree.
func c17CheckMsg(e *env, c c17Case, hist string) {
	if c17Unsafe(strings.TrimSuffix(c.Src, "}")) || c17Unsafe(strings.TrimSuffix(c.Src2, "}")) {
		e.res.Histogram["skipped:unsafe-for-the-pinned-scanner"]++
		return
	}
	n1, c1 := c17ParsePrint(c.Src)
	n2, c2 := c17ParsePrint(c.Src2)
	if c1 != "ok" || c2 != "ok" {
		e.res.Count("msg:"+c.Src+"|"+c.Src2, false, hist+":not-two-print-commands")
		return
	}
	t1 := c17Strip(nodeSexp(n1, newIDTable()))
	t2 := c17Strip(nodeSexp(n2, newIDTable()))
	var msg *ast.MsgNode
	func() {
		defer func() { recover() }()
		f, err := parse.SoyFile("", `{msg desc=""}`+c.Src+` and `+c.Src2+`{/msg}`)
		if err == nil && len(f.Body) == 1 {
			if m, ok := f.Body[0].(*ast.MsgNode); ok {
				soymsg.SetPlaceholdersAndID(m)
				msg = m
			}
		}
	}()
	if msg == nil {
		e.res.Count("msg:"+c.Src+"|"+c.Src2, false, hist+":message-rejected")
		return
	}
	var phs []*ast.MsgPlaceholderNode
	for _, ch := range msg.Body.Children() {
		if ph, ok := ch.(*ast.MsgPlaceholderNode); ok {
			phs = append(phs, ph)
		}
	}
	if len(phs) != 2 {
		e.res.Count("msg:"+c.Src+"|"+c.Src2, false, hist+":not-two-placeholders")
		return
	}
	same := t1 == t2
	cls := "different-trees"
	if same {
		cls = "same-tree"
	}
	e.res.Count("msg:"+c.Src+"|"+c.Src2, true, hist+":"+cls)
	if (phs[0].Name == phs[1].Name) != same {
		e.res.Fail(hx.Violation{Kind: "oracle", What: "two placeholders of a message get the same name although they are different print commands, or different names although they are the same", Case: c,
			Expected: map[string]interface{}{"same_tree": same, "tree1": t1, "tree2": t2},
			Observed: map[string]string{"name1": phs[0].Name, "name2": phs[1].Name, "printed1": phs[0].Body.String(), "printed2": phs[1].Body.String(), "placeholder_string": soymsg.PlaceholderString(msg)}}, "")
		return
	}
	for i, ph := range phs {
		rep := msg.Placeholder(ph.Name)
		want := []string{t1, t2}[i]
		got := ""
		if rep != nil {
			got = c17Strip(nodeSexp(rep.Body, newIDTable()))
		}
		if got != want {
			e.res.Fail(hx.Violation{Kind: "oracle", What: "the placeholder found under a placeholder's name is a different print command", Case: c,
				Expected: want, Observed: map[string]string{"name": ph.Name, "found": got}}, "")
			return
		}
	}
	e.res.Histogram["oracle:placeholders-identified-by-tree"]++
}

func c17Replay(e *env) {
	bs, err := os.ReadFile(e.replay)
	if err != nil {
		e.res.Note("cannot read replay file: %v", err)
		return
	}
	var rp struct {
		Case c17Case `json:"case"`
	}
	if err := json.Unmarshal(bs, &rp); err != nil || rp.Case.Src == "" {
		e.res.Note("replay file has no C17 case: %v", err)
		return
	}
	if rp.Case.Kind == "file" {
		c17CheckFiles(e, []c17CmdFile{{"replay.soy", rp.Case.Src, "replay"}})
	} else if rp.Case.Kind == "msg" {
		c17CheckMsg(e, rp.Case, "replay")
	} else {
		c17Check(e, []c17Pending{{c: rp.Case, hist: "replay"}})
	}
	e.res.Note("replayed %s", fmt.Sprintf("%q", rp.Case.Src))
}
