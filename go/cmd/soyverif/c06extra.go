//go:build c06

package main

// C06, families added after the first seeded changes were missed:
// (1) inputs that share a file name, (2) floats of every kind at every argument
// position, (3) malformed lines for ParseGlobals and EvalExpr.

import (
	"fmt"
	"math"
	"regexp"
	"strconv"
	"strings"

	"github.com/robfig/soy/data"
	"github.com/robfig/soy/soyhtml"
	"soyverif/internal/hx"
)

var c06FloatRangeRe = regexp.MustCompile(`range\([^{}]*(\d\.\d|\$f)`)

var c06EnumVars = []string{"u", "n", "b", "i", "z", "f", "s", "e", "l", "m", "fh", "fbig", "fi", "fz", "fn"}

func c06ExtraEnumData(m data.Map) data.Map {
	m["fh"] = data.Float(0.5)
	m["fbig"] = data.Float(1e300)
	m["fi"] = data.Float(9.3e18)
	m["fz"] = data.Float(math.Copysign(0, -1))
	m["fn"] = data.Float(-2.5)
	return m
}

// c06UsesVar: does the body reference the variable $v (and not a longer name)?
func c06UsesVar(body, v string) bool {
	for i := 0; i < len(body); {
		j := strings.Index(body[i:], "$"+v)
		if j < 0 {
			return false
		}
		k := i + j + 1 + len(v)
		if k >= len(body) {
			return true
		}
		c := body[k]
		if !(c == '_' || c >= 'a' && c <= 'z' || c >= 'A' && c <= 'Z' || c >= '0' && c <= '9') {
			return true
		}
		i = k
	}
	return false
}

var c06FloatAtoms = []string{"0.5", "-0.5", "0.0", "(0.0 * -1)", "2.0", "3.7", "$fh", "$fn", "$fz", "$fbig", "$fi", "(1.0 / 0.0)", "(-1.0 / 0.0)", "(0.0 / 0.0)"}

// floats -- fractional, negative zero, huge, NaN, +-Inf, from literals, arithmetic and data -- at every
// argument position of every function and directive
func c06FloatBodies() []string {
	var bodies []string
	for _, fn := range c06FuncNames {
		if fn == "index" || fn == "isFirst" || fn == "isLast" {
			continue
		}
		base := []string{"$i", "$i", "$i"}
		if fn == "range" {
			base = []string{"0", "3", "1"}
		}
		for nargs := 1; nargs <= 3; nargs++ {
			for pos := 0; pos < nargs; pos++ {
				for _, a := range c06FloatAtoms {
					args := append([]string{}, base[:nargs]...)
					args[pos] = a
					bodies = append(bodies, "{"+fn+"("+strings.Join(args, ", ")+")}")
				}
			}
		}
	}
	for _, a := range c06FloatAtoms {
		bodies = append(bodies, "{foreach $q in range(0, 4, "+a+")}{$q},{/foreach}", "{foreach $q in range("+a+", "+a+", "+a+")}{$q},{/foreach}",
			"{$l["+a+"]}", "{$m["+a+"]}", "{"+a+" % 2}", "{2 % "+a+"}", `{msg desc=""}{plural `+a+`}{case 0}z{default}d{/plural}{/msg}`)
	}
	for _, dn := range c06DirNames {
		for _, v := range []string{"$s", "$i"} {
			for _, a := range c06FloatAtoms {
				bodies = append(bodies, "{"+v+"|"+dn+":"+a+"}", "{"+v+"|"+dn+":2,"+a+"}", "{"+v+"|"+dn+":"+a+","+a+"}")
			}
		}
	}
	return bodies
}

// inputs that share a file name (AddTemplateString's name is optional: the empty name twice is usual),
// longer and shorter siblings in every order, an error in every template of each and a writer failing at
// every call
func c06SameNamePlans() []c06Plan {
	mkFile := func(ns string, pad int, errs []string) (string, []string) {
		var sb strings.Builder
		var names []string
		sb.WriteString("{namespace " + ns + "}\n")
		for j, er := range errs {
			sb.WriteString(strings.Repeat("// padding line to move the template down the file\n", pad))
			sb.WriteString("/** @param? u */\n{template .t" + strconv.Itoa(j) + "}\nsome text {$u ?: 'x'} more text" + er + "\n{/template}\n")
			names = append(names, ns+".t"+strconv.Itoa(j))
		}
		return sb.String(), names
	}
	errsAll := []string{"{1 < 'a'}", "{$u.a.b}", "{1 % 0}", "{length(1)}", "", "{'s'|truncate:'x'}"}
	longT, longN := mkFile("la", 4, errsAll)
	midT, midN := mkFile("mb", 1, errsAll[:3])
	shortT, shortN := mkFile("sc", 0, []string{"{1 % 0}"})
	var plans []c06Plan
	for _, nm := range []string{"", "same.soy"} {
		sets := [][]srcFile{
			{{Name: nm, Text: longT}, {Name: nm, Text: shortT}},
			{{Name: nm, Text: shortT}, {Name: nm, Text: longT}},
			{{Name: nm, Text: longT}, {Name: nm, Text: midT}, {Name: nm, Text: shortT}},
			{{Name: nm, Text: midT}, {Name: nm, Text: shortT}, {Name: nm, Text: longT}},
		}
		for _, fs := range sets {
			tn := append(append(append([]string{}, longN...), shortN...), midN...)
			for _, t := range tn {
				if strings.HasPrefix(t, "mb.") && len(fs) == 2 {
					continue
				}
				for k := 0; k <= 4; k++ {
					plans = append(plans, c06Plan{c: c06Render{Kind: "render", Files: fs, Template: t, Data: "nil", FailAt: k, Tag: "same-file-name"}, nontriv: true})
				}
			}
		}
	}
	return plans
}

// c06Soup: a malformed line -- unterminated strings of both kinds, escaped quotes, //, /*, stray brackets
var c06SoupPieces = []string{"'", "'", `"`, `\'`, `\"`, `\`, "//", "//", "/*", "*/", "http://example.com/", "=", "==", " ", " ", "a", "1", "0.5",
	"{", "}", "[", "]", "(", ")", ",", ":", "$x", "null", "\t", "?", "?:", "-", "not ", "'ok'", `"ok"`, "/", "*", "%", "|", `\u00`, "é"}

func c06Soup(r *hx.Rand) string {
	var sb strings.Builder
	for i := 1 + r.Intn(10); i > 0; i-- {
		sb.WriteString(r.Pick(c06SoupPieces))
	}
	return sb.String()
}

func c06ExtraExprs(e *env, add func(tag, text string)) {
	for _, a := range []string{"0.5", "-0.5", "0.0", "(0.0 * -1)", "3.7", "1.0e300", "(1.0 / 0.0)", "(-1.0 / 0.0)", "(0.0 / 0.0)"} {
		for _, fn := range c06FuncNames {
			tag := "float-arg"
			if fn == "range" {
				tag = "range-risky"
			}
			add(tag, fn+"("+a+")")
			add(tag, fn+"(1, "+a+")")
			add(tag, fn+"(0, 3, "+a+")")
			add(tag, fn+"("+a+", 3, 1)")
		}
		add("float-arg", "[1, 2]["+a+"]")
		add("float-arg", "7 % "+a)
	}
	for i := 0; i < 300*e.scale; i++ {
		add("soup", c06Soup(e.rng))
	}
}

var c06MalformedLines = []string{"SITE_URL = 'http://example.com/", `U = "http://example.com/`, "U = 'a' // c", "U = 'http://x' // c", `U = 'it\'s // here`,
	`U = '// \' //`, "U = /* 'x", "U = 1 /* c */", "=", "==", "= =", "===\n=", "a == 1", "= 1", "a =", "a = '", `a = "`, `a = '\`, `a = '\'`, "a = //", "a = // '", "//=", "/ / a = 1",
	"a = 'x' 'y'", "a = ''''", `a = '\u12`, "a = [1, ", "a = ['k': ", "a = (((((", "a = $", "a = $ij", "a = 1.", "a = .5", "a = 0x", "a = 1e999", "a = -", "a = not",
	"a = 'x' // 'y", "a = 'x // y' // 'z", `a = "x // y`, "a = '//' + '//' + '//"}

func c06ExtraGlobs(e *env, add func(tag, in string)) {
	// malformed lines, one per file (a replay is then one line): as the right-hand side, as the whole line,
	// between two good lines, with and without a final newline
	for i := 0; i < 260*e.scale; i++ {
		sp := c06Soup(e.rng)
		switch e.rng.Intn(4) {
		case 0:
			add("malformed", "G = "+sp+"\n")
		case 1:
			add("malformed", sp+"\n")
		case 2:
			add("malformed", "a = 1\nSITE_URL = "+sp+"\nb = 2\n")
		default:
			add("malformed", "x="+sp)
		}
	}
	for _, ln := range c06MalformedLines {
		add("malformed", ln)
		add("malformed", ln+"\n")
		add("malformed", "ok = 1\n"+ln+"\nok2 = 2\n")
	}
	for _, n := range []int{5000, 65530} {
		add("long-line", "a = '"+strings.Repeat("//x", n/3)+"\n")
		add("long-line", "a = '"+strings.Repeat(`\'`, n/2)+"\n")
		add("long-line", strings.Repeat("=", n)+"\n")
		add("long-line", "a = "+strings.Repeat("(", n/8)+"\n")
	}
}

var c06HugeRe = regexp.MustCompile(`(floor|ceiling|round)\([^{}]*(\$fbig|\$fi|e300)`)

// c06HugeFloatToInt: the text converts a float beyond the int64 range to an int
func c06HugeFloatToInt(text string) bool { return c06HugeRe.MatchString(text) }

// c06TemplateBody: the source of one template of the generated files (whole text if not found)
func c06TemplateBody(files []srcFile, name string) string {
	short := name[strings.LastIndex(name, ".")+1:]
	var all strings.Builder
	for _, f := range files {
		all.WriteString(f.Text)
		for _, open := range []string{"{template ." + short + "}", "{template ." + short + " "} {
			if i := strings.Index(f.Text, open); i >= 0 {
				rest := f.Text[i:]
				if j := strings.Index(rest, "{/template}"); j >= 0 {
					return rest[:j]
				}
			}
		}
	}
	return all.String()
}

// c06CheckDepth ties C06_render_total_depth to the run: for a recursion plan whose call depth d is known by
// construction, the model walker capped at d must answer with fuel reg_height*(d+1) (the theorem's bound),
// capped at d-1 it must report the cap (d is the depth the run really reaches), and render with that fuel
// must not run out of fuel.
func c06CheckDepth(e *env, p c06Plan, m []string) {
	d := p.depth - 1
	e.res.Histogram["depth-bound-checked"]++
	if len(m) != 4 {
		e.res.Fail(hx.Violation{Kind: "mismatch", What: "model c06_depth failed", Case: p.c, Observed: fmt.Sprint(m)}, "")
		return
	}
	want := []string{"answer", "capped", "answer"}
	if d == 0 {
		want[1] = "none"
	}
	if m[1] != want[0] || m[2] != want[1] || m[3] != want[2] {
		e.res.Fail(hx.Violation{Kind: "mismatch",
			What:     fmt.Sprintf("the fuel bound reg_height*(d+1) of C06_render_total_depth does not behave as proved on a run of call depth d=%d (fuel %s): capped walk at d / at d-1 / render", d, m[0]),
			Case:     p.c, Expected: strings.Join(want, " "), Observed: strings.Join(m[1:], " ")}, "")
	}
}

// c06BytesMax bounds the inputs handed to the byte-string model (scanner + parser models run in the model
// runner; a 64 KiB line of parentheses would be parsed by recursion there)
const c06BytesMax = 4096

// c06CompareBytes compares one answer of the byte-string model (c06_eval_bytes / c06_globals_bytes:
// scanner model -> parser model -> evaluator, no parse result supplied by the implementation) with the
// implementation's class and value.  implCls: ok | error (evaluation or parse error).
func c06CompareBytes(e *env, what string, c interface{}, implCls, implVal string, m []string, canon func(string) string, skipValue bool) {
	if len(m) == 0 || strings.HasPrefix(m[0], "!") {
		e.res.Fail(hx.Violation{Kind: "mismatch", What: "byte-string model of " + what + " failed", Case: c, Observed: fmt.Sprint(m)}, "")
		return
	}
	e.res.Histogram[what+"-bytes-model:"+m[0]]++
	switch m[0] {
	case "outofmodel", "fuel":
	case "ok":
		if implCls != "ok" {
			e.res.Fail(hx.Violation{Kind: "mismatch", What: what + " returns an error, the byte-string model (scanner+parser+evaluator) a value", Case: c, Expected: strings.Join(m[1:], " "), Observed: implVal}, "")
		} else if got, want := canon(implVal), canon(strings.Join(m[1:], " ")); got != want && !skipValue {
			e.res.Fail(hx.Violation{Kind: "mismatch", What: what + "'s value differs from the byte-string model (scanner+parser+evaluator)", Case: c, Expected: want, Observed: got}, "")
		}
	case "err":
		if implCls != "error" {
			e.res.Fail(hx.Violation{Kind: "mismatch", What: "the byte-string model (scanner+parser+evaluator) reports an error, " + what + " returns a value", Case: c, Expected: m[0], Observed: implVal}, "")
		}
	default:
		e.res.Fail(hx.Violation{Kind: "mismatch", What: "the byte-string model predicts " + m[0] + " but " + what + " returned normally", Case: c, Observed: implCls}, "")
	}
}

// c06JsonPlans: the entries of the extended model (Model/InterpExt.v) on every kind of value -- |json and
// |escapeJsString alone and in chains with the directives that hand the value through (noAutoescape, a
// truncate with nothing to cut) or replace it by a string, and round(x, digits).
func c06JsonPlans() []c06Plan {
	chains := []string{"json", "escapeJsString", "noAutoescape|json", "truncate:100|json", "truncate:2|json", "truncate:5,false|json",
		"json|escapeJsString", "escapeHtml|json", "json|truncate:5", "json|noAutoescape", "escapeJsString|json", "json|json",
		"changeNewlineToBr|json", "escapeUri|json", "insertWordBreaks:3|json", "json|id", "bidiSpanWrap|json", "json:1"}
	var sb strings.Builder
	sb.WriteString("{namespace jv}\n")
	names := []string{}
	for j, ch := range chains {
		sb.WriteString("\n/**\n * @param? v\n */\n{template .c" + strconv.Itoa(j) + "}\n[{$v|" + ch + "}]\n{/template}\n")
		names = append(names, "jv.c"+strconv.Itoa(j))
	}
	for j, d := range []string{"1", "2", "3", "-1", "0", "15", "16", "'x'", "1.0"} {
		sb.WriteString("\n/**\n * @param? v\n */\n{template .r" + strconv.Itoa(j) + "}\n[{round($v, " + d + ")}|{round($v, " + d + ")|json}]\n{/template}\n")
		names = append(names, "jv.r"+strconv.Itoa(j))
	}
	files := []srcFile{{Name: "jv.soy", Text: sb.String()}}
	vals := []data.Value{
		data.Null{}, data.Undefined{}, data.Bool(true), data.Bool(false), data.Int(0), data.Int(-5), data.Int(math.MaxInt64), data.Int(math.MinInt64),
		data.Float(1.5), data.Float(math.Copysign(0, -1)), data.Float(0), data.Float(0.5), data.Float(-2.5), data.Float(2.5), data.Float(1.25), data.Float(0.125),
		data.Float(100000.25), data.Float(999999.5), data.Float(1e6), data.Float(1e300), data.Float(1e-7), data.Float(0.1), data.Float(3),
		data.Float(math.NaN()), data.Float(math.Inf(1)), data.Float(math.Inf(-1)),
		data.String(""), data.String("a<b>&'\"=c"), data.String("\u2028x\u2029"), data.String("h\u00e9llo"), data.String("\xff\xfe tail"), data.String("\x00\x01\x1f\x7f"),
		data.String("</script>"), data.String("\u65e5\u672c\u8a9e"), data.String("\U0001F600"), data.String("\ufffd"), data.String("line1\nline2\r\n\ttab\\back"),
		data.String("\u200b\u00ad\ufeff"), data.String("\xe2\x80"), data.String("\xed\xa0\x80"),
		data.List(nil), data.List{}, data.List{data.Int(1), data.String("a"), data.Null{}}, data.List{data.List{}, data.List{data.List{data.Float(1.5)}}},
		data.List{data.Undefined{}, data.Int(2)}, data.List{data.Float(math.NaN())}, data.List{data.Float(0.1)},
		data.Map{}, data.Map(nil), data.Map{"b": data.Int(1), "a": data.Map{"z": data.Null{}, "y": data.List{data.Bool(true)}}},
		data.Map{"<k>": data.Int(1), "\"q\"": data.Int(2), "\u00e9": data.Int(3), "": data.Int(4), "\xff": data.Int(5)}, data.Map{"u": data.Undefined{}},
		data.Map{"f": data.Float(math.Inf(1))}, data.Map{"l": data.List(nil), "m": data.Map(nil)},
	}
	var plans []c06Plan
	for _, v := range vals {
		dsx := valueSexp(data.Map{"v": v}, newIDTable())
		for _, n := range names {
			plans = append(plans, c06Plan{c: c06Render{Kind: "render", Files: files, Template: n, Data: dsx, Tag: "json-values"}, nontriv: true, hasJSON: true})
		}
	}
	return plans
}

// c06RangeGrid: range(i, limit, step) on the implementation for a grid of starts, limits and steps around
// both ends of int64 (negative starts with limits near MaxInt64 and steps whose additions overflow), keeping
// only triples whose exact result is short.  A loop that goes on after the index wrapped around shows up as
// a hang or as memory exhaustion in the worker.
func c06RangeGrid(add func(tag, text string)) {
	vals := []int64{-9223372036854775807, -9223372036854775806, -4611686018427387904, -5, -1, 0, 1, 3, 4611686018427387904, 9223372036854775800, 9223372036854775806, 9223372036854775807}
	steps := []int64{1, 3, 4611686018427387904, 4611686018427387905, 9223372036854775800, 9223372036854775806, 9223372036854775807}
	for _, i := range vals {
		for _, l := range vals {
			for _, st := range steps {
				if l > i && (float64(l)-float64(i))/float64(st) > 40 {
					continue
				}
				add("range-grid", "range("+strconv.FormatInt(i, 10)+", "+strconv.FormatInt(l, 10)+", "+strconv.FormatInt(st, 10)+")")
			}
		}
	}
}

// ---------------------------------------------------------------------------
// functions and directives supplied by the user (entries added to soyhtml.Funcs / soyhtml.PrintDirectives):
// what the recover wrappers of evalFunc / evalPrint make of code that returns, returns nil or panics.
// The same behaviours are the user tables of the model op c06_render_user (ocaml/ops_safety.ml).

func c06InstallUserCode() {
	soyhtml.Funcs["userPanic"] = soyhtml.Func{Apply: func(a []data.Value) data.Value { panic("boom") }, ValidArgLengths: []int{0, 1}}
	soyhtml.Funcs["userRuntime"] = soyhtml.Func{Apply: func(a []data.Value) data.Value {
		var m map[string]int
		m["x"] = 1 // assignment to entry in nil map: a run-time error inside the user's code
		return nil
	}, ValidArgLengths: []int{0}}
	soyhtml.Funcs["userNil"] = soyhtml.Func{Apply: func(a []data.Value) data.Value { return nil }, ValidArgLengths: []int{0}}
	soyhtml.Funcs["userId"] = soyhtml.Func{Apply: func(a []data.Value) data.Value { return a[0] }, ValidArgLengths: []int{1}}
	soyhtml.Funcs["userLen"] = soyhtml.Func{Apply: func(a []data.Value) data.Value { return data.Int(len(a[0].(data.List))) }, ValidArgLengths: []int{1}}
	soyhtml.PrintDirectives["udPanic"] = soyhtml.PrintDirective{Apply: func(v data.Value, a []data.Value) data.Value { panic(fmt.Errorf("boom")) }, ValidArgLengths: []int{0}, CancelAutoescape: true}
	soyhtml.PrintDirectives["udNil"] = soyhtml.PrintDirective{Apply: func(v data.Value, a []data.Value) data.Value { return nil }, ValidArgLengths: []int{0}}
	soyhtml.PrintDirectives["udId"] = soyhtml.PrintDirective{Apply: func(v data.Value, a []data.Value) data.Value { return v }, ValidArgLengths: []int{0}}
	soyhtml.PrintDirectives["udCount"] = soyhtml.PrintDirective{Apply: func(v data.Value, a []data.Value) data.Value { return data.Int(len(v.(data.List))) }, ValidArgLengths: []int{0}, CancelAutoescape: true}
}

func c06UserPlans() []c06Plan {
	bodies := []string{
		"{userPanic()}", "{userPanic($v)}", "{userRuntime()}", "{userNil()}", "{userNil() ?: 'd'}", "{userId($v)}", "{userLen($v)}",
		"{userId()}", "{userId($v, 1)}", "{userPanic(userNil())}", "{if userNil()}a{else}b{/if}", "{userId($v) + 1}", "{userId(userId($v))}",
		"a{userId($v)|udCount}b", "{$v|udPanic}", "{$v|udNil}", "{$v|udNil|json}", "{$v|udNil|noAutoescape}", "{$v|udNil|udId}", "{$v|udNil|udId|json}",
		"{$v|udNil|escapeHtml}", "{$v|udNil|escapeJsString}", "{$v|udNil|truncate:3}", "{$v|udNil|udCount}", "{$v|udId}", "{$v|udId|json}", "{$v|udCount}",
		"{$v|udCount|json}", "{$v|json|udCount}", "{$v|udId:1}", "{$v|noAutoescape|udCount}", "{$v|truncate:100|udCount}", "{$v|truncate:1|udCount}",
		"{foreach $x in userId($v)}[{$x}]{ifempty}none{/foreach}", "{let $w: userId($v) /}{$w|udId}", "x{userPanic()}y{$v}", "{userLen(userId($v))|udId}",
	}
	var sb strings.Builder
	sb.WriteString("{namespace uc}\n")
	var names []string
	for j, body := range bodies {
		doc := "\n/**\n */\n"
		if c06UsesVar(body, "v") {
			doc = "\n/**\n * @param? v\n */\n"
		}
		sb.WriteString(doc + "{template .t" + strconv.Itoa(j) + "}\n" + body + "\n{/template}\n")
		names = append(names, "uc.t"+strconv.Itoa(j))
	}
	files := []srcFile{{Name: "uc.soy", Text: sb.String()}}
	vals := []data.Value{data.Undefined{}, data.Null{}, data.Int(3), data.String("a<b"), data.List{data.Int(1), data.Int(2)}, data.List{}, data.List(nil),
		data.Map{"k": data.Int(1)}, data.Float(math.NaN()), data.List{data.Undefined{}}, data.Bool(false)}
	var plans []c06Plan
	for _, v := range vals {
		m := data.Map{}
		if _, undef := v.(data.Undefined); !undef {
			m["v"] = v
		}
		dsx := valueSexp(m, newIDTable())
		for _, n := range names {
			plans = append(plans, c06Plan{c: c06Render{Kind: "render", Files: files, Template: n, Data: dsx, Tag: "user-code"}, nontriv: true, hasJSON: true, user: true})
		}
	}
	return plans
}
