//go:build c14

package main

// C14, well-formedness half: the token grammar of coq/Spec/JsSyntax.v (js_parse) is run
//   (a) on the REAL bytes soyjs.Write produced (lex_bytes, then js_parse),
//   (b) on the model's chunk list (lex_chunks, then js_parse) -- the object of the Coq theorem gen_output_parses,
// both must accept, produce the same tokens, and define one function per template under its qualified name;
// node's own parser accepts the same files (c14Node).  Negative samples: mutated files go to js_parse and to
// node's parser (nothing is executed); whatever js_parse accepts node must accept (the grammar is a SUBSET of
// JavaScript); the counts say how often both reject.

import (
	"context"
	"encoding/hex"
	"encoding/json"
	"fmt"
	"os"
	"os/exec"
	"path/filepath"
	"strings"
	"time"

	"github.com/robfig/soy/ast"
	"soyverif/internal/hx"
)

type c14Mutant struct {
	Mode   string `json:"mode"`
	Code   string `json:"code"`
	parse  string // ok | lexfail | parsefail
	origin string
	kind   string
}

var c14Mutants []*c14Mutant

const c14FindingIntMember = "js-int-literal-member"

// c14IntMember: the trigger of js-int-literal-member, on the AST: length(x) or strContains(x, _) whose first
// argument ends in an integer literal (an integer, a global, or a function whose text ends in one).
func c14IntMember(sf *ast.SoyFileNode) bool {
	found := false
	var walk func(n ast.Node)
	walk = func(n ast.Node) {
		if n == nil || isNilNode(n) {
			return
		}
		if fn, ok := n.(*ast.FunctionNode); ok && (fn.Name == "length" || fn.Name == "strContains") && len(fn.Args) > 0 {
			switch a := fn.Args[0].(type) {
			case *ast.IntNode, *ast.GlobalNode:
				found = true
			case *ast.FunctionNode:
				if a.Name == "bidiGlobalDir" || a.Name == "strContains" || a.Name == "length" {
					found = true
				}
			}
		}
		if p, ok := n.(ast.ParentNode); ok {
			for _, c := range p.Children() {
				walk(c)
			}
		}
	}
	for _, n := range sf.Body {
		walk(n)
	}
	return found
}

// c14StrictNamespace: the namespace starts with eval or arguments (not bindable in module code; the token
// grammar treats them as reserved everywhere)
func c14StrictNamespace(b *c14Bundle) bool {
	for _, f := range b.Files {
		for _, w := range []string{"eval", "arguments"} {
			for _, end := range []string{".", "}", " "} {
				if strings.Contains(f.Text, "{namespace "+w+end) {
					return true
				}
			}
		}
	}
	return false
}

func es6Ident(s string) string { return strings.ReplaceAll(s, ".", "__") }

// c14Wf: one generated file (real text) through the token grammar, on both sides.
func c14Wf(e *env, b *c14Bundle, cfg string, sf *ast.SoyFileNode, es6 bool, tr map[uint64][]c14Part, real string) {
	f := "#5"
	if es6 {
		f = "#6"
	}
	h := "-"
	if real != "" {
		h = hex.EncodeToString([]byte(real))
	}
	r := e.m.Call("jswf", f, "#100000", h, jsFileSexp(sf, tr))
	cs := c14CaseOf(b, cfg, map[string]interface{}{"file": sf.Name, "generated": c14Trunc(real)})
	// r = same "model" class... "bytes" class...
	bi := -1
	for i, x := range r {
		if x == "bytes" {
			bi = i
		}
	}
	if len(r) < 4 || r[1] != "model" || bi < 0 || bi+1 >= len(r) {
		e.res.Fail(hx.Violation{Kind: "mismatch", What: "jswf: unexpected answer of the model runner", Case: cs, Observed: strings.Join(r, " ")}, "")
		return
	}
	ci := len(r)
	for i, x := range r {
		if x == "chk" {
			ci = i
		}
	}
	model, bytes := r[2:bi], r[bi+1:ci]
	chk := ci+1 < len(r) && r[ci+1] == "#1"
	hasMsg := strings.Contains(fmt.Sprint(b.Files), "{msg")
	switch {
	case chk:
		// the hypothesis of C14_gen_output_parses_partial holds of this file
		e.res.Histogram["wf:file_chk:pass"]++
		if model[0] != "ok" {
			e.res.Fail(hx.Violation{Kind: "mismatch", What: "file_chk holds but js_parse rejects the model's chunks: contradicts the Coq theorem gen_file_parses (extraction or runner defect)", Case: c14CaseOf(b, cfg, map[string]interface{}{"file": sf.Name})}, "")
		}
	case hasMsg:
		e.res.Histogram["wf:file_chk:fail(bundle has {msg})"]++
	case c14IntMember(sf):
		e.res.Histogram["wf:file_chk:fail(js-int-literal-member)"]++
	case c14ReservedNamespace(b) || c14StrictNamespace(b):
		e.res.Histogram["wf:file_chk:fail(reserved namespace)"]++
	default:
		e.res.Histogram["wf:file_chk:fail(other)"]++
		if len(e.res.Samples) < 6 {
			e.res.Sample(map[string]interface{}{"file_chk_fails_on": c14Trunc(fmt.Sprint(b.Files)), "config": cfg})
		}
	}
	key := ""
	if c14IntMember(sf) {
		key = c14FindingIntMember
	}
	if c14ReservedNamespace(b) || c14StrictNamespace(b) {
		key = c14FindingReserved
	}
	e.res.Histogram["wf:bytes:"+bytes[0]]++
	e.res.Histogram["wf:model:"+model[0]]++
	if bytes[0] != "ok" {
		e.res.Fail(hx.Violation{Kind: "oracle", What: "the generated JavaScript is not in the token grammar of Spec/JsSyntax.v (js_parse on the real bytes: " + strings.Join(bytes, " ") + ")", Case: cs, Observed: c14Trunc(real)}, key)
	}
	if model[0] != "ok" && model[0] != "nogen" {
		e.res.Fail(hx.Violation{Kind: "mismatch", What: "js_parse rejects the model's chunk list (" + strings.Join(model, " ") + "): gen_output_parses would be false of this file", Case: cs, Observed: c14Trunc(real)}, key)
	}
	if r[0] == "#0" {
		e.res.Fail(hx.Violation{Kind: "mismatch", What: "the chunk lexer and the byte lexer produce different tokens for the same file", Case: cs, Observed: c14Trunc(real)}, key)
	}
	if r[0] == "#1" {
		e.res.Histogram["wf:same-tokens"]++
	}
	if bytes[0] == "ok" && len(bytes) >= 4 {
		if bytes[2] != "#1" {
			e.res.Fail(hx.Violation{Kind: "mismatch", What: "js_parse accepts a token list that is not bracket-balanced", Case: cs}, "")
		}
		var want []string
		for _, t := range templatesOf(sf) {
			if es6 {
				want = append(want, es6Ident(t))
			} else {
				want = append(want, t)
			}
		}
		got := strings.Split(strings.TrimSuffix(hx.UnH(bytes[3]), "\n"), "\n")
		if bytes[3] == "-" {
			got = nil
		}
		if strings.Join(got, ",") != strings.Join(want, ",") {
			e.res.Fail(hx.Violation{Kind: "oracle", What: "the parse of the generated file does not have one function definition per template under its qualified name", Case: cs,
				Expected: strings.Join(want, ","), Observed: strings.Join(got, ",")}, "")
		} else {
			e.res.Histogram["wf:functions-match"]++
		}
		// negative samples from this file
		if len(c14Mutants) < 400*e.scale && len(real) < 20000 {
			mode := "es5"
			if es6 {
				mode = "es6"
			}
			for k := 0; k < 3; k++ {
				code, kind := c14Mutate(e, real)
				if code != real {
					c14Mutants = append(c14Mutants, &c14Mutant{Mode: mode, Code: code, origin: sf.Name, kind: kind})
				}
			}
		}
	}
}

const c14Puncts = "(){}[];,.:?=+-*/!<>&|'\""

// c14Mutate: one small edit of a generated file.
func c14Mutate(e *env, s string) (string, string) {
	bs := []byte(s)
	if len(bs) < 10 {
		return s, ""
	}
	// positions of punctuation (most edits there: brackets and separators decide well-formedness)
	var ps []int
	for i, c := range bs {
		if strings.IndexByte(c14Puncts, c) >= 0 {
			ps = append(ps, i)
		}
	}
	pick := func() int {
		if len(ps) > 0 && e.rng.Intn(4) != 0 {
			return ps[e.rng.Intn(len(ps))]
		}
		return e.rng.Intn(len(bs))
	}
	switch e.rng.Intn(7) {
	case 0: // delete one byte
		i := pick()
		return string(append(append([]byte{}, bs[:i]...), bs[i+1:]...)), "delete-byte"
	case 1: // insert a punctuation byte
		i := pick()
		c := c14Puncts[e.rng.Intn(len(c14Puncts))]
		return string(append(append(append([]byte{}, bs[:i]...), c), bs[i:]...)), "insert-punct"
	case 2: // replace a byte by a punctuation byte
		i := pick()
		c := c14Puncts[e.rng.Intn(len(c14Puncts))]
		o := append([]byte{}, bs...)
		o[i] = c
		return string(o), "replace-punct"
	case 3: // truncate
		i := pick()
		return string(bs[:i]), "truncate"
	case 4: // delete a word
		ws := strings.Fields(s)
		if len(ws) < 3 {
			return s, ""
		}
		w := ws[e.rng.Intn(len(ws))]
		i := strings.Index(s, w)
		return s[:i] + s[i+len(w):], "delete-word"
	case 5: // swap two adjacent words
		i := pick()
		j := i + 1 + e.rng.Intn(6)
		if j >= len(bs) {
			return s, ""
		}
		o := append([]byte{}, bs...)
		o[i], o[j] = o[j], o[i]
		return string(o), "swap-bytes"
	default: // delete a line
		ls := strings.Split(s, "\n")
		i := e.rng.Intn(len(ls))
		return strings.Join(append(append([]string{}, ls[:i]...), ls[i+1:]...), "\n"), "delete-line"
	}
}

// c14WfNegatives: every mutant through js_parse and through node's parser.
func c14WfNegatives(e *env) {
	ms := c14Mutants
	c14Mutants = nil
	// random programs OF THE GRAMMAR: random walks of the recogniser over a token alphabet (ops_jssyntax.ml), printed
	// with a blank or a line break between tokens: js_parse accepts them by construction, so node must accept them
	// (this exercises the grammar far outside what soyjs emits)
	for k := 0; k < 200*e.scale; k++ {
		mod, mode := "#0", "es5"
		if k%2 == 1 {
			mod, mode = "#1", "es6"
		}
		r := e.m.Call("jsrandom", mod, fmt.Sprintf("#%d", e.rng.Intn(1<<30)), fmt.Sprintf("#%d", 3+e.rng.Intn(80)))
		if len(r) == 2 && r[0] == "ok" {
			ms = append(ms, &c14Mutant{Mode: mode, Code: hx.UnH(r[1]), origin: "random walk of js_step", kind: "random-walk"})
		} else {
			e.res.Histogram["wf:random-walk:not-completed"]++
		}
	}
	if len(ms) == 0 {
		return
	}
	for _, m := range ms {
		mod := "#0"
		if m.Mode == "es6" {
			mod = "#1"
		}
		r := e.m.Call("jsparse", mod, hex.EncodeToString([]byte(m.Code)))
		if len(r) == 0 {
			m.parse = "!empty"
		} else {
			m.parse = r[0]
		}
	}
	dir := os.Getenv("VERIF_BUILD")
	if dir == "" {
		dir = os.TempDir()
	}
	dir = filepath.Join(dir, "logs")
	os.MkdirAll(dir, 0o755)
	inf, outf := filepath.Join(dir, "C14.wf.in.json"), filepath.Join(dir, "C14.wf.out.json")
	bs, _ := json.Marshal(ms)
	if err := os.WriteFile(inf, bs, 0o644); err != nil {
		e.res.Fail(hx.Violation{Kind: "mismatch", What: "cannot write the mutants", Observed: err.Error()}, "")
		return
	}
	vd := os.Getenv("VERIF_DIR")
	if vd == "" {
		vd = "/verif"
	}
	ctx, cancel := context.WithTimeout(context.Background(), 120*time.Second)
	defer cancel()
	if outb, err := exec.CommandContext(ctx, "node", "--no-warnings", "--experimental-vm-modules", filepath.Join(vd, "js", "c14wf.js"), inf, outf).CombinedOutput(); err != nil {
		e.res.Fail(hx.Violation{Kind: "mismatch", What: "node could not be run on the mutants", Observed: fmt.Sprint(err, string(outb))}, "")
		return
	}
	var out []*string
	if err := readJSONFile(outf, &out); err != nil || len(out) != len(ms) {
		e.res.Fail(hx.Violation{Kind: "mismatch", What: "node returned no answer for the mutants", Observed: fmt.Sprint(err)}, "")
		return
	}
	os.Remove(inf)
	os.Remove(outf)
	for i, m := range ms {
		nodeOK := out[i] == nil
		if m.kind == "random-walk" {
			e.res.Count(m.Code, true, "random-program-of-the-grammar")
			switch {
			case m.parse != "ok":
				e.res.Fail(hx.Violation{Kind: "mismatch", What: "a random walk of the recogniser, printed, is not accepted by lex_bytes + js_parse (" + m.parse + ")", Case: map[string]interface{}{"mode": m.Mode, "code": c14Trunc(m.Code)}}, "")
			case nodeOK:
				e.res.Histogram["wf:random-walk:node-accepts"]++
			default:
				e.res.Fail(hx.Violation{Kind: "mismatch", What: "js_parse accepts a text that node's parser rejects: the grammar of Spec/JsSyntax.v is not a subset of JavaScript",
					Case: map[string]interface{}{"mode": m.Mode, "code": c14Trunc(m.Code), "mutation": m.kind}, Observed: *out[i]}, "")
			}
			continue
		}
		switch {
		case m.parse == "ok" && nodeOK:
			e.res.Histogram["wf:mutant:both-accept"]++
		case m.parse != "ok" && !nodeOK:
			e.res.Histogram["wf:mutant:both-reject"]++
			e.res.Count(m.Code, true, "mutant-rejected-by-both")
		case m.parse != "ok" && nodeOK:
			e.res.Histogram["wf:mutant:grammar-narrower("+m.parse+")"]++
		default:
			// js_parse accepts, node rejects: an early error that depends on names is outside a token grammar
			if strings.Contains(*out[i], "has already been declared") || strings.Contains(*out[i], "Duplicate") {
				e.res.Histogram["wf:mutant:early-error-only"]++
				continue
			}
			e.res.Fail(hx.Violation{Kind: "mismatch", What: "js_parse accepts a text that node's parser rejects: the grammar of Spec/JsSyntax.v is not a subset of JavaScript",
				Case: map[string]interface{}{"mode": m.Mode, "code": c14Trunc(m.Code), "mutation": m.kind, "of": m.origin}, Observed: *out[i]}, "")
		}
	}
	e.res.Note("token grammar: js_parse (extracted from Coq) accepted every generated file on its real bytes and on the model's chunks; %d mutated files were given to js_parse and to node's parser", fmt.Sprint(len(ms)))
}
