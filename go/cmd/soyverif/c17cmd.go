//go:build c17

package main

// C17, command level (an extension of the property: its text speaks of expressions and print
// commands; error messages and the message extractor quote the String() of other nodes too).
//
//   printer correspondence   every node of every parsed file (namespace, soydoc, template,
//                            header params, raw text, print, css, log, debugger, let, if,
//                            switch, for, call with params, msg with placeholders / html tags
//                            / plural): model print_tree (Model/AstPrintCmd.v) on the real
//                            tree = the bytes of the real String(), node by node.  A
//                            difference is a "mismatch".
//   re-parse census          the real String() of every template body, of every command taken
//                            alone, and of the whole file is parsed again and compared with
//                            the tree it was printed from (positions aside).  The outcome is
//                            RECORDED per node type (histogram + first witness as a note), not
//                            judged: C17's text does not promise it for anything but
//                            expressions and print commands.  The one judged part: a PrintNode
//                            found anywhere in a file must re-parse to itself (oracle).

import (
	"fmt"
	"os"
	"path/filepath"
	"reflect"
	"regexp"
	"sort"
	"strings"

	"github.com/robfig/soy/ast"
	"github.com/robfig/soy/parse"
	"soyverif/internal/hx"
)

var c17AnyPosRe = regexp.MustCompile(`\(([a-z]+) \d+`)

// c17StripAll erases the position of every node of an S-expression dump.
func c17StripAll(sexp string) string {
	s := c17AnyPosRe.ReplaceAllString(sexp, "($1 0")
	return c17BinPosRe.ReplaceAllString(s, "(bin $1 0")
}

func c17IsNil(n ast.Node) bool {
	return n == nil || (reflect.ValueOf(n).Kind() == reflect.Ptr && reflect.ValueOf(n).IsNil())
}

func c17IsExprNode(n ast.Node) bool {
	if _, bn := binName(n); bn != nil {
		return true
	}
	switch n.(type) {
	case *ast.NullNode, *ast.BoolNode, *ast.IntNode, *ast.FloatNode, *ast.StringNode, *ast.GlobalNode, *ast.FunctionNode,
		*ast.ListLiteralNode, *ast.MapLiteralNode, *ast.DataRefNode, *ast.DataRefIndexNode, *ast.DataRefKeyNode, *ast.DataRefExprNode,
		*ast.NotNode, *ast.NegateNode, *ast.TernNode:
		return true
	}
	return false
}

// c17Walk visits every command-level node below n (n included), parents first.  It does not
// descend into expressions.
func c17Walk(n ast.Node, f func(ast.Node)) {
	if c17IsNil(n) || c17IsExprNode(n) {
		return
	}
	f(n)
	switch n := n.(type) {
	case *ast.HeaderParamNode, *ast.PrintNode, *ast.PrintDirectiveNode:
		return
	case *ast.MsgNode:
		for _, c := range n.Body.Children() {
			c17Walk(c, f)
		}
		return
	case *ast.MsgPluralNode:
		for _, c := range n.Cases {
			c17Walk(c, f)
		}
		for _, c := range n.Default.Children() {
			c17Walk(c, f)
		}
		return
	case *ast.MsgPluralCaseNode:
		for _, c := range n.Body.Children() {
			c17Walk(c, f)
		}
		return
	}
	if p, ok := n.(ast.ParentNode); ok {
		for _, c := range p.Children() {
			c17Walk(c, f)
		}
	}
}

func c17Trunc(s string, n int) string {
	if len(s) > n {
		return s[:n] + "..."
	}
	return s
}

// c17Covered: the body consists of the command forms of Spec/CmdSyntax.v only, its raw texts are
// not blank, not adjacent, and free of what the scanner does not read as text ({, }, line terminators and
// tabs -- which only {\\n} {\\r} {\\t} put into a text node --, comment openers)
func c17Covered(l *ast.ListNode) bool {
	prevText := false
	for _, n := range l.Nodes {
		_, isText := n.(*ast.RawTextNode)
		if isText && prevText {
			return false
		}
		prevText = isText
		switch n := n.(type) {
		case *ast.RawTextNode:
			if !c17TextOK(string(n.Text)) {
				return false
			}
		case *ast.PrintNode, *ast.DebuggerNode, *ast.LetValueNode:
		case *ast.LogNode:
			if b, ok := n.Body.(*ast.ListNode); !ok || !c17Covered(b) {
				return false
			}
		case *ast.LetContentNode:
			if b, ok := n.Body.(*ast.ListNode); !ok || !c17Covered(b) {
				return false
			}
		case *ast.IfNode:
			for _, c := range n.Conds {
				if b, ok := c.Body.(*ast.ListNode); !ok || !c17Covered(b) {
					return false
				}
			}
		case *ast.ForNode:
			if b, ok := n.Body.(*ast.ListNode); !ok || !c17Covered(b) {
				return false
			}
			if n.IfEmpty != nil {
				if b, ok := n.IfEmpty.(*ast.ListNode); !ok || !c17Covered(b) {
					return false
				}
			}
		case *ast.SwitchNode:
			// a default case prints as "{case }" (W1): only switches without one are read back
			for _, c := range n.Cases {
				if len(c.Values) == 0 {
					return false
				}
				if b, ok := c.Body.(*ast.ListNode); !ok || !c17Covered(b) {
					return false
				}
			}
		case *ast.CallNode:
			if i := strings.Index(n.Name, "."); i <= 0 {
				return false
			}
			if n.Data != nil {
				if n.AllData || !c17PlainAttr(n.Data.String()) {
					return false
				}
			}
			for _, p := range n.Params {
				if pc, ok := p.(*ast.CallParamContentNode); ok {
					if b, ok := pc.Content.(*ast.ListNode); !ok || !c17Covered(b) {
						return false
					}
				}
			}
		case *ast.MsgNode:
			// {msg}: text / html-tag runs are one text item; placeholders hold covered commands; a {plural}
			// child has case bodies that are again such children
			if !c17PlainASCII(n.Meaning) || !c17PlainASCII(n.Desc) || !c17ChildrenCovered(n.Body.Children()) {
				return false
			}
		case *ast.MsgPluralNode:
			// a {plural} that is a command of a body nested in a {msg}: its case bodies are bodies
			for _, c := range n.Cases {
				if b, ok := c.Body.(*ast.ListNode); !ok || c.Value < 0 || !c17Covered(b) {
					return false
				}
			}
			if b, ok := n.Default.(*ast.ListNode); !ok || !c17Covered(b) {
				return false
			}
		case *ast.CssNode:
			if strings.ContainsAny(n.Suffix, ",{}") || strings.TrimSpace(n.Suffix) != n.Suffix || n.Suffix == "" {
				return false
			}
		default:
			return false
		}
	}
	return true
}

// c17ChildrenCovered: the children of a {msg} or of a case of its {plural} (Spec/CmdSyntax.v wf_children_gen)
func c17ChildrenCovered(children []ast.Node) bool {
	run, inRun := "", false
	flushRun := func() bool {
		ok := !inRun || c17TextOK(run)
		run, inRun = "", false
		return ok
	}
	for _, ch := range children {
		switch ch := ch.(type) {
		case *ast.RawTextNode:
			run, inRun = run+string(ch.Text), true
		case *ast.MsgPlaceholderNode:
			if tag, ok := ch.Body.(*ast.MsgHtmlTagNode); ok {
				run, inRun = run+string(tag.Text), true
				continue
			}
			if !flushRun() {
				return false
			}
			if _, isText := ch.Body.(*ast.RawTextNode); isText || !c17Covered(&ast.ListNode{Nodes: []ast.Node{ch.Body}}) {
				return false
			}
			if _, isPlural := ch.Body.(*ast.MsgPluralNode); isPlural {
				return false
			}
		case *ast.MsgPluralNode:
			if !flushRun() {
				return false
			}
			for _, c := range ch.Cases {
				if c.Value < 0 || c.Body == nil || !c17ChildrenCovered(c.Body.Children()) {
					return false
				}
			}
			if ch.Default == nil || !c17ChildrenCovered(ch.Default.Children()) {
				return false
			}
		default:
			return false
		}
	}
	return flushRun()
}

// c17TextOK: raw text whose String() the scanner reads back as one text item with the same bytes
func c17TextOK(t string) bool {
	return !(strings.TrimSpace(t) == "" || strings.ContainsAny(t, "{}\n\r\t") || strings.Contains(t, "//") || strings.Contains(t, "/*"))
}

// c17PlainASCII: inside the printer model's domain of %q
func c17PlainASCII(s string) bool {
	for i := 0; i < len(s); i++ {
		if s[i] >= 128 {
			return false
		}
	}
	return true
}

// c17PlainAttr: the printed expression can stand between double quotes unescaped (Spec/CmdSyntax.v plain)
func c17PlainAttr(s string) bool {
	if s == "all" {
		return false
	}
	for i := 0; i < len(s); i++ {
		if c := s[i]; c < 32 || c >= 127 || c == '"' || c == '\\' {
			return false
		}
	}
	return true
}

func c17TypeName(n ast.Node) string {
	return strings.TrimPrefix(fmt.Sprintf("%T", n), "*ast.")
}

func c17ParseFile(name, src string) (f *ast.SoyFileNode, class string) {
	defer func() {
		if r := recover(); r != nil {
			f, class = nil, "crash"
		}
	}()
	f, err := parse.SoyFile(name, src)
	if err != nil {
		return nil, "err"
	}
	return f, "ok"
}

// the body of "{template .x}" + s + "{/template}"
func c17ParseBody(s string) (*ast.ListNode, string) {
	f, class := c17ParseFile("", "{template .x}"+s+"{/template}")
	if class != "ok" {
		return nil, class
	}
	if len(f.Body) != 1 {
		return nil, "shape"
	}
	t, ok := f.Body[0].(*ast.TemplateNode)
	if !ok || t.Body == nil {
		return nil, "shape"
	}
	return t.Body, "ok"
}

// hand-written sources: every node type in every printed variant
var c17CmdCorpus = []string{
	"{namespace a.b autoescape=\"deprecated-noncontextual\"}\n/** */\n{template .t private=\"true\"}\n{/template}\n",
	"{namespace a}\n/**\n * doc\n * @param x first\n * @param? y second\n */\n{template .t}\nHello {$x} and {$y}!\n{/template}\n",
	"{namespace a}\n{template .t}\n{@param x: int}\n{@param? y: list<string>}\n{@param z := 10}\n{@param w: map<string, int> = ['a': 1]}\n{$x}{$y}{$z}{$w}\n{/template}\n",
	"{namespace a}\n/** */\n{template .t}\n{css a}{css $x, b}{css $x.y + 'q', c-d}\n{/template}\n",
	"{namespace a}\n/** */\n{template .t}\n{log}x{$a}{/log}{debugger}{log}{/log}\n{/template}\n",
	"{namespace a}\n/** */\n{template .t}\n{let $a: 1 + 2 /}{let $b}text {$a}{/let}{let $c kind=\"html\"}<b>{/let}{$a}{$b}{$c}\n{/template}\n",
	"{namespace a}\n/** */\n{template .t}\n{if $a}x{/if}{if $a}x{else}y{/if}{if $a}x{elseif $b}y{elseif $c}z{else}w{/if}{if $a}{/if}\n{/template}\n",
	"{namespace a}\n/** */\n{template .t}\n{switch $a}{case 1}one{case 2, 'x', $b}two{default}other{/switch}{switch $a}{default}d{/switch}{switch $a}{case 1}{/switch}{switch $a}{/switch}\n{/template}\n",
	"{namespace a}\n/** */\n{template .t}\n{foreach $x in $xs}{$x}{ifempty}none{/foreach}{for $i in range(3)}{$i}{/for}{foreach $x in $xs}{/foreach}{for $x in [1, 2]}a{ifempty}b{/for}\n{/template}\n",
	"{namespace a}\n/** */\n{template .t}\n{call .u /}{call .u data=\"all\" /}{call .u data=\"$a.b\" /}{call other.v}{param k: 1 /}{param c}content {$a}{/param}{/call}{call .u data=\"all\"}{param k: 'a\"b' /}{/call}{call .u}{/call}{call name=\".u\" /}{call .u}{param key=\"k\" value=\"$a\" /}{/call}\n{/template}\n",
	"{namespace a}\n/** */\n{template .t}\n{msg desc=\"d\"}Hello {$name}!{/msg}{msg meaning=\"m\" desc=\"a \\\"q\\\" \\\\ \\t\"}x <a href=\"{$u}\">link</a> {$a.b|noAutoescape}{call .u /}{/msg}{msg desc=\"p\"}{plural $n}{case 0}none{case 1}one {$n}{default}many {$n}{/plural}{/msg}{msg desc=\"\" hidden=\"true\"}{/msg}\n{/template}\n",
	"{namespace a}\n/** */\n{template .t}\n{msg desc=\"nested\"}{plural $n}{case 1}one <b>{$x}</b>{case 2}{plural $m}{case 0}zero{default}few {$m}{/plural}{default}many {$n} <i>x</i>{/plural}{/msg}{msg desc=\"in log\"}a{log}{plural $k}{case 0}zero{case 7}seven{$k}{default}{$k} left{/plural}x{/log}{let $w}{plural $k}{default}d{/plural}{/let}b{/msg}{msg desc=\"empty\"}{plural $n}{default}{/plural}{/msg}\n{/template}\n",
	"{namespace a}\n/** */\n{template .t}\n{sp}{nil}{\\n}{\\r}{\\t}{lb}{rb}a{sp}b {lb}$x{rb}\n{/template}\n",
	"{namespace a}\n/** */\n{template .t}\n{literal}  {$x} {lb} \n {/literal}x{literal}{/literal}\n{/template}\n",
	"{namespace a}\n/** */\n{template .t}\n  two\n  lines <b>\n  tag</b>  {$x}  spaced   words  // comment\n /* c */ end\n{/template}\n",
	"{namespace a}\n/** */\n{template .t}\n{print $a}{$a|id}{$a |truncate: 5, true |escapeUri}{print 'x' + $b ?: 3}{($a ? 1 : 2)|insertWordBreaks:($b ? 1 : 2)}\n{/template}\n",
	"{namespace a}\n{alias x.y.z}\n/** */\n{template .t}\n{call z.u /}{z.G}\n{/template}\n/** @param a */\n{template .u autoescape=\"strict\" kind=\"html\"}\n{$a}\n{/template}\n",
	"{$a}{if $b}x{/if}",
	"text only",
	"",
}

type c17CmdFile struct {
	name, src, origin string
}

func runC17Commands(e *env) {
	var files []c17CmdFile
	for i, s := range c17CmdCorpus {
		files = append(files, c17CmdFile{fmt.Sprintf("corpus%d.soy", i), s, "corpus"})
	}
	repo := os.Getenv("VERIF_REPO")
	if repo == "" {
		repo = "/repo"
	}
	if paths, _ := filepath.Glob(filepath.Join(repo, "testdata", "*.soy")); len(paths) > 0 {
		sort.Strings(paths)
		for _, p := range paths {
			if bs, err := os.ReadFile(p); err == nil {
				files = append(files, c17CmdFile{filepath.Base(p), string(bs), "testdata"})
			}
		}
	}
	feats := map[string]int{}
	for i := 0; i < 60*e.scale; i++ {
		o := progOpts{depth: 2 + e.rng.Intn(2), directives: true}
		switch i % 6 {
		case 1:
			o.nastyLits = true
		case 2:
			o.scope, o.aliases = true, true
		case 3:
			o.allHeader, o.headerDefaults = true, true
		case 4:
			o.shapes = true
		case 5:
			o.spread = true
		}
		fs, _, _, ft := genBundle(e.rng, o)
		for _, f := range fs {
			files = append(files, c17CmdFile{f.Name, f.Text, "generated"})
		}
		for k, v := range ft {
			feats[k] += v
		}
	}

	c17CheckFiles(e, files)
	for _, k := range hx.SortedKeys(feats) {
		e.res.Histogram["file-construct:"+k] = feats[k]
	}
}

func c17CheckFiles(e *env, files []c17CmdFile) {
	type pend struct {
		file   c17CmdFile
		typ    string
		sexp   string
		real   string
	}
	var batch []pend
	type tpend struct {
		file    c17CmdFile
		sexp    string
		printed string
		items   []parse.VerifItem
	}
	var tbatch []tpend
	witness := map[string]bool{}
	census := func(typ, outcome, src, printed, detail string) {
		key := "reparse:" + typ + ":" + outcome
		e.res.Histogram[key]++
		if outcome != "same" && !witness[key] {
			witness[key] = true
			e.res.Note("re-parse census, first witness of %s: String() = %q (from a node of %.120q) %s", key, c17Trunc(printed, 300), src, detail)
		}
	}
	flush := func() {
		if len(batch) == 0 {
			return
		}
		reqs := make([]string, len(batch))
		for i, b := range batch {
			reqs[i] = "print_tree " + b.sexp
		}
		resp := e.m.Batch(reqs)
		for i, b := range batch {
			r := resp[i]
			switch {
			case len(r) >= 1 && r[0] == "none":
				e.res.Histogram["print-tree:out-of-model:"+b.typ]++
			case len(r) >= 2 && r[0] == "some" && hx.UnH(r[1]) == b.real:
				e.res.Histogram["print-tree:agree:"+b.typ]++
			default:
				got := strings.Join(r, " ")
				if len(r) >= 2 && r[0] == "some" {
					got = hx.UnH(r[1])
				}
				e.res.Fail(hx.Violation{Kind: "mismatch", What: "model printer (Model/AstPrintCmd.v print_tree) and the real String() of a " + b.typ + " disagree",
					Case: c17Case{Kind: "file", Src: b.file.src}, Expected: map[string]string{"string": b.real, "tree": b.sexp}, Observed: map[string]string{"string": got}}, "")
			}
		}
		batch = batch[:0]
		// ---- token correspondence for bodies of the covered forms ----
		treqs := make([]string, len(tbatch))
		for i, b := range tbatch {
			treqs[i] = "body_toks " + b.sexp
		}
		tresp := e.m.Batch(treqs)
		for i, b := range tbatch {
			r := tresp[i]
			ok := len(r) == 2*len(b.items)
			for j := 0; ok && j < len(b.items); j++ {
				if r[2*j] != hx.I(int64(b.items[j].Typ)) {
					ok = false
				}
				if mv := hx.UnH(r[2*j+1]); mv != "" && mv != b.items[j].Val {
					ok = false
				}
			}
			if ok {
				e.res.Histogram["body-tokens:agree"]++
				continue
			}
			var real []string
			for _, it := range b.items {
				real = append(real, parse.VerifItemName(it.Typ)+":"+it.Val)
			}
			e.res.Fail(hx.Violation{Kind: "mismatch", What: "the real scanner does not read the String() of a template body as the items Spec/CmdSyntax.v body_toks gives for its tree",
				Case: c17Case{Kind: "file", Src: b.file.src}, Expected: map[string]string{"string": b.printed, "items": strings.Join(real, " ")}, Observed: map[string]string{"items": strings.Join(r, " ")}}, "")
		}
		tbatch = tbatch[:0]
	}

	for _, cf := range files {
		f, class := c17ParseFile(cf.name, cf.src)
		e.res.Count("file:"+cf.src, class == "ok" && strings.Contains(cf.src, "{"), "file:"+cf.origin+":"+class)
		if class != "ok" {
			continue
		}
		ids := newIDTable()
		// ---- printer correspondence, node by node ----
		root := &ast.ListNode{Pos: 0, Nodes: f.Body}
		batch = append(batch, pend{cf, "SoyFileNode", nodeSexp(root, ids), f.String()})
		for _, top := range f.Body {
			c17Walk(top, func(n ast.Node) {
				batch = append(batch, pend{cf, c17TypeName(n), nodeSexp(n, ids), n.String()})
			})
		}
		if len(batch) >= 400 {
			flush()
		}
		// ---- re-parse census ----
		// whole file
		if f2, c2 := c17ParseFile(cf.name, f.String()); c2 != "ok" {
			census("SoyFileNode", c2, cf.src, f.String(), "")
		} else if a, b := c17StripAll(nodeSexp(root, ids)), c17StripAll(nodeSexp(&ast.ListNode{Nodes: f2.Body}, ids)); a != b {
			census("SoyFileNode", "differs", cf.src, f.String(), "")
		} else {
			census("SoyFileNode", "same", cf.src, "", "")
		}
		for _, top := range f.Body {
			c17Walk(top, func(n ast.Node) {
				var want string
				switch n := n.(type) {
				case *ast.ListNode:
					want = c17StripAll(nodeSexp(n, ids))
				case *ast.RawTextNode, *ast.PrintNode, *ast.CssNode, *ast.LogNode, *ast.DebuggerNode, *ast.LetValueNode, *ast.LetContentNode,
					*ast.IfNode, *ast.SwitchNode, *ast.ForNode, *ast.CallNode, *ast.MsgNode:
					want = c17StripAll(nodeSexp(&ast.ListNode{Nodes: []ast.Node{n}}, ids))
				default:
					return
				}
				typ := c17TypeName(n)
				printed := n.String()
				if ln, ok := n.(*ast.ListNode); ok && c17Covered(ln) {
					items := parse.VerifLex("", "{template .x}"+printed+"{/template}", false)
					if len(items) >= 8 {
						tbatch = append(tbatch, tpend{cf, nodeSexp(ln, ids), printed, items[4 : len(items)-4]})
					} else {
						e.res.Histogram["body-tokens:skipped-lexer-shape"]++
					}
				}
				body, c2 := c17ParseBody(printed)
				outcome := c2
				detail := ""
				if c2 == "ok" {
					got := c17StripAll(nodeSexp(body, ids))
					if got == want {
						outcome = "same"
					} else {
						outcome = "differs"
						detail = "re-read as " + c17Trunc(got, 300) + " instead of " + c17Trunc(want, 300)
					}
				}
				if rt, ok := n.(*ast.RawTextNode); ok && outcome != "same" {
					// classify by what the text holds
					t := string(rt.Text)
					switch {
					case strings.ContainsAny(t, "{}"):
						typ += "(with-brace)"
					case strings.TrimSpace(t) != t || strings.ContainsAny(t, "\n\r\t") || strings.Contains(t, "  "):
						typ += "(with-edge-or-control-space)"
					case strings.Contains(t, "//") || strings.Contains(t, "/*"):
						typ += "(with-comment-opener)"
					}
				}
				census(typ, outcome, cf.src, printed, detail)
				if _, ok := n.(*ast.PrintNode); ok && outcome != "same" {
					e.res.Fail(hx.Violation{Kind: "oracle", What: "a print command inside a template does not print as text that parses back to the same tree (" + outcome + ")",
						Case: c17Case{Kind: "file", Src: cf.src}, Expected: map[string]string{"tree": want}, Observed: map[string]string{"string": printed, "detail": detail}}, "")
				}
			})
		}
	}
	flush()
}
