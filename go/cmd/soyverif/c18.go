//go:build c18

package main

// C18 — no parse leaves a goroutine behind.
//
// Inputs: C05's families (corpus and generated files, prefixes, token mutations, tag
// dictionary sequences, random bytes) plus expressions with trailing items after a complete
// expression, errors inside quoted attribute expressions, and globals files; parsed by
// parse.SoyFile / parse.Expr / soy.ParseGlobals in sequences of 2000 calls per worker process.
//
// Oracle (on the implementation): after every call the worker looks for goroutines with a
// frame in parse.(*lexer).run (polling up to 2 s while one is still running); the call that
// left one behind is the failing input — no bisection is needed because the count is taken
// per call; the whole-sequence count is the sum.
//
// Model: per input the tokens of the real scanner go through the parser model
// (Model/Parser.v); it predicts, for every scanner the call starts, (items sent, receives,
// drained) and hence whether its goroutine exits.  The prediction of the model of the
// repaired code (always 0 leaks, which is the theorem) and of the pinned parse.Expr (no drain
// on success) are both compared with the observation.  The same run compares tree / outcome
// class / error position (the parser half of C05 and C19).

import (
	"encoding/json"
	"fmt"
	"os"
	"strings"
	"time"

	"soyverif/internal/hx"
)

func init() { props["C18"] = runC18 }

func runC18(e *env) {
	e.res.Rule = "inputs of C05's families (corpus, generated bundles, prefixes, token deletion/duplication/swap, tag-dictionary sequences at file/template/nested level, random bytes), expressions (valid, with trailing items, truncated, mutated), quoted attribute expressions (valid and failing), globals files; each parsed in a worker in sequences of 2000 calls, scanner goroutines counted after every call. Non-trivial = the parse does not consume its whole input by the ordinary success path (error, trailing items, nested scanner, or globals file); distinct by kind + text."
	var cases []ptCase
	if e.replay != "" {
		bs, err := os.ReadFile(e.replay)
		var rp struct {
			Case ptCase `json:"case"`
		}
		if err != nil || json.Unmarshal(bs, &rp) != nil || rp.Case.Kind == "" {
			e.res.Note("replay file has no C18 case")
			return
		}
		cases = []ptCase{rp.Case}
	} else {
		cases = ptGenInputs(e, 10000*e.scale)
	}
	t0 := time.Now()
	res := ptRun(e, cases, 2000, 2*time.Second)
	e.res.Note("%d parses in worker processes: %.1fs", len(cases), time.Since(t0).Seconds())

	// model requests
	type pend struct {
		i      int
		line   int // globals: index of the line, else -1
		pinned bool
	}
	var reqs []string
	var pends []pend
	for i := range cases {
		r := &res[i]
		if r.Class == "hang" || r.Class == "crash" || r.Class == "skipped" {
			continue
		}
		switch cases[i].Kind {
		case "file":
			reqs, pends = append(reqs, ptModelReq(cases[i], r, false)), append(pends, pend{i, -1, false})
		case "expr":
			reqs, pends = append(reqs, ptModelReq(cases[i], r, false)), append(pends, pend{i, -1, false})
			reqs, pends = append(reqs, ptModelReq(cases[i], r, true)), append(pends, pend{i, -1, true})
		case "globals":
			for k, l := range r.Lines {
				reqs, pends = append(reqs, ptExprReq(l.Expr, l.Toks, false)), append(pends, pend{i, k, false})
				reqs, pends = append(reqs, ptExprReq(l.Expr, l.Toks, true)), append(pends, pend{i, k, true})
			}
		}
	}
	t1 := time.Now()
	resp := e.m.Batch(reqs)
	e.res.Note("%d model runs: %.1fs", len(reqs), time.Since(t1).Seconds())
	predicted := make([]int, len(cases))       // model of the repaired code
	predictedPinned := make([]int, len(cases)) // model with parse.Expr as pinned
	modelOK := make([]bool, len(cases))
	for i := range modelOK {
		modelOK[i] = true
	}
	for k, p := range pends {
		m := ptDecode(resp[k])
		c := cases[p.i]
		if strings.HasPrefix(m.Class, "!") || m.Class == "fuel" {
			if !(m.Class == "crash" && strings.HasPrefix(m.ErrCls, "OUT-OF-MODEL")) {
				modelOK[p.i] = false
				e.res.Fail(hx.Violation{Kind: "mismatch", What: "the model runner failed on a C18 input", Case: c, Observed: m.Raw}, "")
			}
			continue
		}
		if m.Class == "crash" {
			modelOK[p.i] = false // float outside the model, or a predicted run-time panic: compared below
		}
		if p.pinned {
			predictedPinned[p.i] += m.leak()
			if c.Kind == "file" {
				predicted[p.i] += 0
			}
			continue
		}
		predicted[p.i] += m.leak()
		if c.Kind == "file" {
			predictedPinned[p.i] += m.leak()
		}
		if p.line < 0 {
			if !ptCompare(e, c, &res[p.i], m) {
				modelOK[p.i] = false
			}
		}
	}

	// the composed model bytes -> tree (scanner model + nested scanner model + parser model), and the
	// float conversion of the parser model against strconv.ParseFloat
	ptBytesTie(e, cases, res, e.m.Batch, 4)
	if e.replay == "" {
		ptFloatTie(e, e.m.Batch, 1500*e.scale)
	}

	total := 0
	for i, c := range cases {
		r := &res[i]
		nontrivial := r.Class != "ok" || c.Kind == "globals" || len(r.Q) > 0 || c.Fam == "expr-trailing"
		e.res.Count(c.Kind+":"+c.Text, nontrivial, c.Fam+":"+r.Class)
		if i%211 == 0 {
			e.res.Sample(map[string]interface{}{"kind": c.Kind, "family": c.Fam, "text": hx.Q(clip(c.Text, 160)), "outcome": r.Class, "scanner_goroutines_left": r.Leak, "model_predicts": predicted[i]})
		}
		switch r.Class {
		case "hang":
			// a parse that never returns is C05's matter (the property speaks of calls that return)
			e.res.Histogram["not-returning:hang(C05)"]++
			if e.res.Histogram["not-returning:hang(C05)"] <= 12 {
				e.res.Note("does not return within 2 s (C05): %s %s hex=%s", c.Kind, hx.Q(clip(c.Text, 200)), hx.H(c.Text))
			}
			continue
		case "crash":
			e.res.Histogram["not-returning:process-crash(C05)"]++
			continue
		case "skipped":
			e.res.Histogram["not-run:after-too-many-hangs"]++
			continue
		}
		total += r.Leak
		if r.Leak > 0 {
			e.res.Histogram["leak:"+c.Kind]++
			what := fmt.Sprintf("%d scanner goroutine(s) left behind after the parse returned", r.Leak)
			if r.Spin > 0 {
				what += fmt.Sprintf(" (%d still running)", r.Spin)
			}
			e.res.Fail(hx.Violation{Kind: "oracle", What: what, Case: c,
				Expected: "0 goroutines in parse.(*lexer).run",
				Observed: map[string]interface{}{"left_behind": r.Leak, "outcome": r.Class, "model_of_pinned_code_predicts": predictedPinned[i], "model_of_repaired_code_predicts": predicted[i]}}, "")
		}
		if modelOK[i] && r.Leak != predicted[i] && r.Leak != predictedPinned[i] {
			e.res.Fail(hx.Violation{Kind: "mismatch", What: "scanner goroutines left behind: model prediction differs", Case: c,
				Expected: map[string]int{"repaired": predicted[i], "pinned": predictedPinned[i]}, Observed: r.Leak}, "")
		} else if modelOK[i] && r.Leak == predicted[i] {
			e.res.Histogram["prediction:agrees"]++
		} else if modelOK[i] {
			e.res.Histogram["prediction:agrees-with-model-of-pinned-Expr-only"]++
		}
	}
	if e.replay == "" {
		ptKindCoverage(e)
	}
	e.res.Histogram["scanner-goroutines-left-total"] = total
	e.res.Note("scanner goroutines left behind over all sequences: %d", total)
}

func clip(s string, n int) string {
	if len(s) > n {
		return s[:n] + "..."
	}
	return s
}
