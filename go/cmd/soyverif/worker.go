package main

// workerMain runs crash- and hang-prone operations in a subprocess; filled in
// by the properties that need it (C05, C06, C18).
var workers = map[string]func(args []string){}

func workerMain(args []string) {
	if len(args) == 0 {
		return
	}
	if f, ok := workers[args[0]]; ok {
		f(args[1:])
	}
}
