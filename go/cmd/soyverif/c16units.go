//go:build c16

package main

// C16, JavaScript counterparts: the models of the soyutils.js helpers (Model/JsDirectives.v, over
// UTF-16 code units) are tied to soyjs/lib/soyutils.js run in node, on every run:
//   * exhaustively on all 65536 single code units for escapeJsString, escapeUri, escapeHtml
//     (these three act unit by unit, surrogate pairing aside);
//   * on code-unit strings (the C16 inputs as UTF-16, lone and swapped surrogates, random units) for all
//     six helpers, with every in-range argument of truncate and insertWordBreaks;
// and the statements proved about the models are evaluated on the implementation's outputs by independent
// means: node evaluates the quoted escapeJsString output, decodeURIComponent-free percent decoding in Go,
// the truncate clauses in code units.

import (
	"fmt"
	"net/url"
	"os"
	"path/filepath"
	"strings"
	"unicode/utf16"
	"unicode/utf8"

	"soyverif/internal/hx"
)

type c16UnitReq struct {
	Fn  string        `json:"fn"`
	U   string        `json:"u,omitempty"`
	A   []interface{} `json:"a,omitempty"`
	All bool          `json:"all,omitempty"`
}
type c16UnitRes struct {
	U   string `json:"u"`
	Err string `json:"err"`
}

func hex4(us []uint16) string {
	var sb strings.Builder
	for _, u := range us {
		fmt.Fprintf(&sb, "%04x", u)
	}
	return sb.String()
}

func unHex4(h string) []uint16 {
	us := make([]uint16, 0, len(h)/4)
	for i := 0; i+4 <= len(h); i += 4 {
		var v uint16
		fmt.Sscanf(h[i:i+4], "%04x", &v)
		us = append(us, v)
	}
	return us
}

func hex4Field(us []uint16) string {
	if len(us) == 0 {
		return "-"
	}
	return hex4(us)
}

func wfUnits(us []uint16) bool {
	for i := 0; i < len(us); i++ {
		switch {
		case us[i] >= 0xD800 && us[i] <= 0xDBFF:
			if i+1 >= len(us) || us[i+1] < 0xDC00 || us[i+1] > 0xDFFF {
				return false
			}
			i++
		case us[i] >= 0xDC00 && us[i] <= 0xDFFF:
			return false
		}
	}
	return true
}

func c16Units(e *env) {
	repo := os.Getenv("VERIF_REPO")
	if repo == "" {
		repo = "/repo"
	}
	// ---- inputs ----
	var ins [][]uint16
	seen := map[string]bool{}
	add := func(us []uint16) {
		k := hex4(us)
		if !seen[k] && len(us) <= 300 {
			seen[k] = true
			ins = append(ins, us)
		}
	}
	for _, in := range c16Inputs(e) {
		// (single units are covered exhaustively below; the unicode.IsPrint boundaries concern the Go escaper only)
		if utf8.ValidString(in.S) && in.Class != "byte" && in.Class != "isprint-boundary" {
			add(utf16.Encode([]rune(in.S)))
		}
	}
	for _, us := range [][]uint16{{0xD800}, {0xDC00}, {0xDC00, 0xD800}, {0x61, 0xD83D}, {0xD83D, 0x61}, {0xD83D, 0xDE00, 0xDE00}, {0xD83D, 0xD83D, 0xDE00},
		{0x61, 0xD83D, 0xDE00, 0x62, 0xD83D, 0xDE00}, {0xD83D, 0xDE00, 0xD83D, 0xDE00, 0xD83D, 0xDE00}, {0x26, 0x6C, 0x74, 0x3B}, {0x3C, 0x62, 0x3E, 0x61, 0x61, 0x61, 0x61, 0x3C, 0x2F, 0x62, 0x3E},
		{0x61, 0x26, 0x62, 0x20, 0x63, 0x3B, 0x64}, {0x85, 0x2028, 0x2029, 0xFEFF, 0xFFFF, 0}, {0x27, 0x28, 0x29, 0x21, 0x2A, 0x7E, 0x2B, 0x20}} {
		add(us)
	}
	alpha := []uint16{'&', '<', '>', '"', '\'', ';', 'a', 'Z', '3', ' ', '\n', '\r', '\\', '=', '%', '+', '/', 0, 0x1f, 0x7f, 0x85, 0xe9, 0x2028, 0x2029, 0xD83D, 0xDE00, 0xD800, 0xDFFF, 0xFFFF, '(', ')', '*', '!', '~', '-'}
	for i := 0; i < 150*e.scale; i++ {
		n := 1 + e.rng.Intn(12)
		us := make([]uint16, n)
		for j := range us {
			if e.rng.Chance(80) {
				us[j] = alpha[e.rng.Intn(len(alpha))]
			} else {
				us[j] = uint16(e.rng.Intn(65536))
			}
		}
		add(us)
	}
	// ---- requests ----
	type ucase struct {
		fn   string
		us   []uint16
		n    int
		ell  bool
		args string // model fields
	}
	var cases []ucase
	for _, us := range ins {
		for _, fn := range []string{"escapeJsString", "escapeUri", "escapeHtml", "changeNewlineToBr"} {
			cases = append(cases, ucase{fn: fn, us: us})
		}
		for _, k := range []int{0, 1, 2, 3, 5, 8} {
			cases = append(cases, ucase{fn: "insertWordBreaks", us: us, n: k, args: hx.I(int64(k))})
		}
		var ns []int
		if len(us) <= 10 {
			for n := 0; n <= len(us)+2; n++ {
				ns = append(ns, n)
			}
		} else {
			ns = []int{0, 3, 4, 5, len(us) / 2, len(us)/2 + 1, len(us) - 3, len(us) - 2, len(us) - 1, len(us)}
		}
		for _, n := range ns {
			for _, ell := range []bool{true, false} {
				f := "F"
				if ell {
					f = "T"
				}
				cases = append(cases, ucase{fn: "truncate", us: us, n: n, ell: ell, args: hx.I(int64(n)) + " " + f})
			}
		}
	}
	in := c16NodeIn{Utils: filepath.Join(repo, "soyjs", "lib", "soyutils.js")}
	var ureqs []c16UnitReq
	var mreqs []string
	for _, fn := range []string{"escapeJsString", "escapeUri", "escapeHtml"} {
		ureqs = append(ureqs, c16UnitReq{Fn: fn, All: true})
		mreqs = append(mreqs, "u_helper_all "+fn)
	}
	nAll := len(ureqs)
	for _, c := range cases {
		r := c16UnitReq{Fn: c.fn, U: hex4(c.us)}
		switch c.fn {
		case "insertWordBreaks":
			r.A = []interface{}{c.n}
		case "truncate":
			r.A = []interface{}{c.n, c.ell}
		}
		ureqs = append(ureqs, r)
		m := "u_helper " + c.fn + " " + hex4Field(c.us)
		if c.args != "" {
			m += " " + c.args
		}
		mreqs = append(mreqs, m)
	}
	in.Units = ureqs
	nr, err := c16Node(e, in, "units")
	if err != nil {
		c16Fail(e, hx.Violation{Kind: "mismatch", What: "node could not be run for the soyutils.js helper correspondence", Case: "node", Observed: err.Error()}, "")
		return
	}
	if len(nr.LoadErrors) > 0 || len(nr.Units) != len(ureqs) {
		c16Fail(e, hx.Violation{Kind: "oracle", What: "js: soyutils.js does not load in node / helper results missing", Case: "soyutils.js", Observed: fmt.Sprint(nr.LoadErrors, len(nr.Units), len(ureqs))}, "")
		return
	}
	resp := e.m.Batch(mreqs)
	// ---- exhaustive single units ----
	for i := 0; i < nAll; i++ {
		fn := ureqs[i].Fn
		js := strings.Split(nr.Units[i].U, ",")
		var mo []string
		if len(resp[i]) == 1 {
			mo = strings.Split(resp[i][0], ",")
		}
		if len(js) != 65536 || len(mo) != 65536 {
			c16Fail(e, hx.Violation{Kind: "mismatch", What: "js: exhaustive single-unit run of " + fn + " returned a wrong number of results", Case: fn, Observed: fmt.Sprint(len(js), " ", len(mo), " ", nr.Units[i].Err)}, "")
			continue
		}
		bad := 0
		for u := 0; u < 65536; u++ {
			e.res.Histogram["js-unit:"+fn]++
			if js[u] != mo[u] && bad < 3 {
				bad++
				c16Fail(e, hx.Violation{Kind: "mismatch", What: "js: soy.$$" + fn + " on a single code unit differs from the model",
					Case: map[string]string{"helper": fn, "unit": fmt.Sprintf("U+%04X", u)}, Expected: mo[u], Observed: js[u]}, "")
			}
		}
		e.res.Count("js-unit-all:"+fn, true, "js-unit:exhaustive:"+fn)
	}
	// ---- strings ----
	var lits []string
	var litIx []int
	for i, c := range cases {
		jr := nr.Units[nAll+i]
		r := resp[nAll+i]
		cj := map[string]interface{}{"kind": "soyutils-helper", "helper": "soy.$$" + c.fn, "units_hex4": hex4(c.us), "n": c.n, "ellipsis": c.ell,
			"value": hx.Q(string(utf16.Decode(c.us)))}
		e.res.Count("js-units:"+c.fn+":"+hex4(c.us)+fmt.Sprint(c.n, c.ell), true, "js-units:"+c.fn)
		if i%997 == 3 {
			e.res.Sample(map[string]string{"side": "js helper (node)", "helper": c.fn, "units": hex4(c.us), "args": c.args, "output_units": jr.U, "error": jr.Err})
		}
		// correspondence
		switch {
		case len(r) == 0 || strings.HasPrefix(r[0], "!"):
			c16Fail(e, hx.Violation{Kind: "mismatch", What: "model gives no result for a soyutils.js helper", Case: cj, Observed: fmt.Sprint(r)}, "")
			continue
		case r[0] == "err":
			if jr.Err == "" {
				c16Fail(e, hx.Violation{Kind: "mismatch", What: "js: model says the helper throws, node returned", Case: cj, Observed: jr.U}, "")
			}
			continue
		case r[0] == "ok":
			mo := ""
			if len(r) > 1 && r[1] != "-" {
				mo = r[1]
			}
			if jr.Err != "" {
				c16Fail(e, hx.Violation{Kind: "mismatch", What: "js: the helper throws, model returns", Case: cj, Expected: mo, Observed: jr.Err}, "")
				continue
			}
			if mo != jr.U {
				c16Fail(e, hx.Violation{Kind: "mismatch", What: "js: output of soy.$$" + c.fn + " differs from the model (code units)", Case: cj, Expected: mo, Observed: jr.U}, "")
				continue
			}
		}
		// the property's statements on the helper's own output (independent of the model)
		out := unHex4(jr.U)
		switch c.fn {
		case "escapeUri":
			if !wfUnits(c.us) {
				break
			}
			s := string(utf16.Decode(out))
			if !uriSafe(stripJSMarks(s)) {
				c16Fail(e, hx.Violation{Kind: "oracle", What: "js: soy.$$escapeUri output contains a character outside A-Za-z0-9-_.~%!*", Case: cj, Observed: hx.Q(s)}, "")
			} else if dec, err := url.QueryUnescape(s); err != nil || dec != string(utf16.Decode(c.us)) {
				c16Fail(e, hx.Violation{Kind: "oracle", What: "js: soy.$$escapeUri output does not percent-decode to the value", Case: cj, Observed: hx.Q(s)}, "")
			}
		case "escapeJsString":
			// read back below by the proved code-unit reader (node evaluates the literals of well-formed values in the template pass)
			lits = append(lits, jr.U)
			litIx = append(litIx, i)
		case "truncate":
			n := c.n
			if len(c.us) <= n {
				if hex4(out) != hex4(c.us) {
					c16Fail(e, hx.Violation{Kind: "oracle", What: "js: soy.$$truncate changed a value that fits", Case: cj, Observed: jr.U}, "")
				}
				break
			}
			ell := c.ell && n > 3
			p := out
			if ell {
				if len(p) < 3 || p[len(p)-1] != '.' || p[len(p)-2] != '.' || p[len(p)-3] != '.' {
					c16Fail(e, hx.Violation{Kind: "oracle", What: "js: soy.$$truncate: ellipsis missing", Case: cj, Observed: jr.U}, "")
					break
				}
				p = p[:len(p)-3]
			}
			switch {
			case len(out) > n:
				c16Fail(e, hx.Violation{Kind: "oracle", What: "js: soy.$$truncate: result longer than the limit (code units)", Case: cj, Observed: jr.U}, "")
			case len(p) > len(c.us) || hex4(p) != hex4(c.us[:len(p)]):
				c16Fail(e, hx.Violation{Kind: "oracle", What: "js: soy.$$truncate: result is not a prefix of the value (plus ellipsis)", Case: cj, Observed: jr.U}, "")
			case len(p) > 0 && len(p) < len(c.us) && c.us[len(p)-1] >= 0xD800 && c.us[len(p)-1] <= 0xDBFF && c.us[len(p)] >= 0xDC00 && c.us[len(p)] <= 0xDFFF:
				c16Fail(e, hx.Violation{Kind: "oracle", What: "js: soy.$$truncate cut between the halves of a surrogate pair", Case: cj, Observed: jr.U}, "")
			}
		}
	}
	// ---- the proved unit-level reader on every escapeJsString output (Spec/JsUnits.v) ----
	var rreqs []string
	for _, h := range lits {
		f := h
		if f == "" {
			f = "-"
		}
		rreqs = append(rreqs, "jsu_read #39 "+f, "jsu_read #34 "+f)
	}
	rresp := e.m.Batch(rreqs)
	for k, ci := range litIx {
		c := cases[ci]
		for q := 0; q < 2; q++ {
			r := rresp[2*k+q]
			got := "\x00none"
			if len(r) == 2 && r[0] == "some" {
				got = r[1]
				if got == "-" {
					got = ""
				}
			}
			e.res.Count("spec:jsu:"+lits[k]+fmt.Sprint(q), true, "spec:jsu_read")
			if got != hex4(c.us) {
				c16Fail(e, hx.Violation{Kind: "oracle", What: "js: soy.$$escapeJsString output between quotes, read by the proved code-unit reader, is not the value",
					Case: map[string]string{"units_hex4": hex4(c.us), "escaped_hex4": lits[k]}, Expected: hex4(c.us), Observed: got}, "")
			}
		}
	}
}
