//go:build c04

package main

// The tie of MiniJS STATEMENTS (coq/Model/MiniJS.v: js_exec) to V8: random statements of the subset of
// C04_gen_correct_partial_stmt (raw text, print with directives, let in both forms, if / elseif / else, switch with case
// groups and default, foreach / ifempty and for over range() with index / isFirst / isLast of the enclosing loops, css, msg without a bundle -- without plural or one plural with numeric cases --, nested blocks) are given to the model (op minijs_stmt), which returns the JavaScript
// text the generator model writes for them (sprint (sgen s)), the text the subset semantics writes (sout)
// and the variables after MiniJS executed the statement (js_exec) from an empty buffer; node runs the same
// text inside a function that declares the same variables (soyutils.js loaded), and must end with the same
// buffer and the same value in every variable MiniJS assigned.

import (
	"encoding/hex"
	"encoding/json"
	"fmt"
	"reflect"
	"strings"

	"soyverif/internal/hx"
)

func (g *cexprGen) blk(d int) string {
	n := g.r.Intn(4)
	if d <= 0 && n > 2 {
		n = 2
	}
	var items []string
	ni, ns := len(g.intVars), len(g.strVars) // a let is visible to the end of its block
	for i := 0; i < n; i++ {
		items = append(items, g.stmt(d))
	}
	g.intVars, g.strVars = g.intVars[:ni], g.strVars[:ns]
	return "(blk " + strings.Join(items, " ") + ")"
}

// {call tie.echo [data="all" | data="$e"]}{param k: e /}..{param k}..{/param}..{/call}: the callee is a fixed function of its data (c04StmtEcho; the
// model's copy is echo_callee / echo_jcall in ocaml/ops_minijs.ml), so that what the generated call passes -- {}, opt_data, the
// value of an expression, soy.$$augmentMap of one of them with the parameters -- is observable
func (g *cexprGen) call(d int) string {
	dt := g.r.Pick([]string{"dnone", "dall", "dall", "(dexpr (cvar " + sx("a") + "))"})
	if g.r.Chance(5) {
		dt = "(dexpr " + g.expr(g.r.Intn(4), 1) + ")" // mostly not a map: outside the subset
	}
	var ps []string
	for i := g.r.Intn(3); i > 0; i-- {
		k := sx(g.r.Pick([]string{"y", "x", "a", "f", "q", "y"}))
		if d > 0 && g.r.Chance(35) {
			ps = append(ps, "(pc "+k+" "+g.blk(d-1)+")") // {param k}..{/param}: its statements come before the call
			continue
		}
		ps = append(ps, "(pv "+k+" "+g.expr(g.r.Intn(3), 1)+")")
	}
	return "(scall " + sx("tie.echo") + " " + dt + " (" + strings.Join(ps, " ") + "))"
}

const c04StmtEcho = `tie.echo = function(opt_data, opt_sb, opt_ijData) {
  var ks = ['a', 'x', 'y', 'f'], r = 'E(';
  for (var i = 0; i < ks.length; i++) {
    var v = opt_data[ks[i]];
    r += ks[i] + '=' + (v === undefined ? 'U' : (v !== null && typeof v === 'object') ? 'O' : String(v)) + ';';
  }
  return r + ')';
};
`

// {msg desc=".."}..{/msg} without plural: raw text, print and call placeholders (now and then a let, which a message cannot
// hold: outside the subset); the JavaScript is the children's statements one after the other
func (g *cexprGen) msg() string {
	var items []string
	for i := 1 + g.r.Intn(3); i > 0; i-- {
		switch g.r.Intn(3) {
		case 0:
			items = append(items, "(sraw "+sx(g.r.Pick([]string{"Hello ", "b c", "<b>", "!", "it's"}))+")")
		case 1:
			items = append(items, "(sprint "+g.expr(g.r.Intn(3), 2)+")")
		default:
			items = append(items, g.call(0))
		}
	}
	if g.r.Chance(5) {
		items = append(items, "(slet "+sx("y")+" (cint 1))")
	}
	return "(smsg (blk " + strings.Join(items, " ") + "))"
}

// the children of a message body as items of a block (raw text, print, call)
func (g *cexprGen) msgItems() string {
	var items []string
	for i := g.r.Intn(3); i > 0; i-- {
		switch g.r.Intn(3) {
		case 0:
			items = append(items, "(sraw "+sx(g.r.Pick([]string{"one ", "b c", "<i>", "?", "it's"}))+")")
		case 1:
			items = append(items, "(sprint "+g.expr(g.r.Intn(3), 2)+")")
		default:
			items = append(items, g.call(0))
		}
	}
	return "(blk " + strings.Join(items, " ") + ")"
}

// {msg desc=".."}{plural v}{case z}..{default}..{/plural}{/msg} without a bundle (cstmt SMsgPl): the switch soyjs writes, without
// "break;" after the default clause; now and then a value that is not an integer, or a let in a body (outside the subset)
func (g *cexprGen) plural() string {
	q := "(qdflt " + g.msgItems() + ")"
	if g.r.Chance(4) {
		q = "(qdflt (blk (slet " + sx("y") + " (cint 1))))"
	}
	for i := g.r.Intn(4); i > 0; i-- {
		q = "(qcase " + g.r.Pick([]string{"0", "1", "2", "7", "-3", "1000"}) + " " + g.msgItems() + " " + q + ")"
	}
	v := g.expr(0, 1)
	if g.r.Chance(8) {
		v = g.expr(3, 1)
	}
	return "(smsgpl " + sx("n") + " " + v + " " + q + ")"
}

func (g *cexprGen) stmt(d int) string {
	if g.r.Chance(8) {
		return g.call(d)
	}
	if g.r.Chance(4) {
		return g.plural()
	}
	if g.r.Chance(4) {
		return g.msg()
	}
	k := g.r.Intn(12)
	if d <= 0 && k >= 6 {
		k = g.r.Intn(6)
	}
	switch {
	case k >= 10:
		// {foreach $v in <list>}..{ifempty}..{/foreach}: the list outside the loop's scope, the variable an integer inside
		v := g.r.Pick([]string{"v", "w", "x", "v"})
		lst := g.r.Pick([]string{"(cvar " + sx("l") + ")", "(cvar " + sx("a") + " (key 0 " + sx("l") + "))", "(cvar " + sx("e") + ")", "(cvar " + sx("l") + ")",
			"(cvar " + sx("a") + " (key 1 " + sx("l") + "))"})
		if g.r.Chance(6) {
			lst = g.r.Pick([]string{"(cvar " + sx("u") + ")", "(cvar " + sx("a") + ")", "(cvar " + sx("s") + ")", "(cnull)"}) // not a list: outside the subset
		}
		// {for $v in range(..)}: one to three integer arguments; now and then a zero or negative step, a string, four arguments
		isRange := g.r.Chance(40)
		rargs := ""
		if isRange {
			small := func() string {
				return g.r.Pick([]string{"(cint 0)", "(cint 1)", "(cint 2)", "(cint 3)", "(cint 5)", "(cint -2)", "(cint 7)", "(cvar " + sx("x") + ")", "(cvar " + sx("a") + " (key 0 " + sx("b") + "))",
					"(cbin add (cvar " + sx("x") + ") (cint 1))", "(cbin sub (cint 6) (cvar " + sx("x") + "))"}) // small: the models build the list
			}
			rargs = small()
			for k := g.r.Intn(3); k > 0; k-- {
				rargs += " " + small()
			}
			if g.r.Chance(4) {
				rargs += " " + g.r.Pick([]string{"(cint 0)", "(cint -1)", "(cstr " + sx("2") + ")", "(cint 1) (cint 1) (cint 1)"})
			}
		}
		ni, nl := len(g.intVars), len(g.loops)
		g.intVars, g.loops = append(g.intVars, v), append(g.loops, v)
		body := g.blk(d - 1)
		g.intVars, g.loops = g.intVars[:ni], g.loops[:nl]
		hasie, ie := "0", "(blk)"
		if g.r.Chance(50) {
			hasie, ie = "1", g.blk(d-1)
		}
		if isRange {
			return "(sforrange " + sx(v) + " (" + rargs + ") " + body + " " + hasie + " " + ie + ")"
		}
		return "(sfor " + sx(v) + " " + lst + " " + body + " " + hasie + " " + ie + ")"
	case k < 2 && g.r.Chance(25):
		// {css sfx} / {css e, sfx}
		sfx := sx(g.r.Pick([]string{"foo", "bar-baz", "a_b", "it's"}))
		if g.r.Bool() {
			return "(scss none " + sfx + ")"
		}
		return "(scss " + g.expr(g.r.Intn(4), 1) + " " + sfx + ")"
	case k < 2:
		return "(sraw " + sx(g.r.Pick([]string{"A", "b c", "it's", "<p>", "x\ny", "\"q\"", "</script>", "\\", ""})) + ")"
	case k < 4:
		ds := ""
		for i := g.r.Intn(3); i > 0 && g.r.Chance(50); i-- {
			ds += " " + g.r.Pick([]string{"id", "noauto", "esc"})
		}
		kind := g.r.Intn(3)
		if g.r.Chance(8) {
			kind = 3
		}
		return "(sprint " + g.expr(kind, 2) + ds + ")"
	case k < 6:
		if g.r.Bool() {
			nm := g.r.Pick([]string{"y", "w", "x", "y"})
			e := g.expr(0, 2) // the value is translated before the name is bound
			g.intVars = append(g.intVars, nm)
			return "(slet " + sx(nm) + " " + e + ")"
		}
		nm := g.r.Pick([]string{"z", "s", "z"})
		if d > 0 && g.r.Chance(40) {
			body := g.blk(d - 1) // {let $z}...{/let}: the name is bound after its body
			g.strVars = append(g.strVars, nm)
			return "(sletc " + sx(nm) + " " + body + ")"
		}
		e := g.expr(1, 2)
		g.strVars = append(g.strVars, nm)
		return "(slet " + sx(nm) + " " + e + ")"
	case k < 8:
		cond := func() string {
			if g.r.Chance(80) {
				return g.expr(2, 2)
			}
			return g.expr(g.r.Intn(4), 2)
		}
		rest := "(enone)"
		if g.r.Chance(60) {
			rest = "(eelse " + g.blk(d-1) + ")"
		}
		for i := g.r.Intn(3); i > 0; i-- {
			rest = "(eelif " + cond() + " " + g.blk(d-1) + " " + rest + ")"
		}
		return "(sif " + cond() + " " + g.blk(d-1) + " " + rest + ")"
	default:
		kind := g.r.Intn(2)
		val := func() string {
			if g.r.Chance(85) {
				if kind == 0 {
					return g.r.Pick([]string{"(cint 4)", "(cint 5)", "(cint 1)", "(cint 0)", g.expr(0, 1)})
				}
				return g.r.Pick([]string{"(cstr " + sx("zz") + ")", "(cstr " + sx("hi'x") + ")", "(cstr " + sx("4") + ")", g.expr(1, 1)})
			}
			return g.expr(g.r.Intn(4), 1)
		}
		cases := "(knone)"
		if g.r.Chance(60) {
			cases = "(kdefault " + g.blk(d-1) + ")"
		}
		for i := g.r.Intn(4); i > 0; i-- {
			vs := val()
			for j := g.r.Intn(3); j > 0; j-- {
				vs += " " + val()
			}
			cases = "(kcase (" + vs + ") " + g.blk(d-1) + " " + cases + ")"
		}
		sv := g.expr(kind, 1)
		if g.r.Chance(10) {
			sv = g.expr(3, 1)
		}
		return "(sswitch " + sv + " " + cases + ")"
	}
}

// the environment: as in the expression tie, with generated names of the repaired form (name_counter)
const c04StmtScopeSexp = "(scope (x78 x785f33) (x73 x735f3132))" // x -> x_3, s -> s_12
const c04StmtCounter = "12"
const c04StmtJSVars = "var x_3 = 4; var s_12 = \"hi'x\";"

var c04StmtData = map[string]interface{}{"a": map[string]interface{}{"b": 5, "l": []interface{}{10, 20}, "n": nil, "s": "zz"}, "e": []interface{}{}, "f": true, "l": []interface{}{3, 4}}
var c04StmtIJ = map[string]interface{}{"n": 6}

func c04StmtTie(e *env, n int) {
	g := &cexprGen{r: e.rng}
	var reqs []string
	var modes []int
	for i := 0; i < n; i++ {
		mode := 1 + g.r.Intn(2)
		modes = append(modes, mode)
		// a block, so that sequences and lets followed by uses occur at the top; now and then a variable that was never bound
		g.intVars, g.strVars, g.loops = nil, nil, nil
		if g.r.Chance(5) {
			g.intVars = []string{"w"}
		}
		s := "(sif (cbool 1) " + g.blk(3) + " (enone))"
		reqs = append(reqs, fmt.Sprintf("minijs_stmt %s %s %s %s %d %s %s", c04ExprIjSexp, c04StmtScopeSexp, c04StmtCounter, c04ExprEnvSexp, mode, sx("output"), s))
	}
	res := e.m.Batch(reqs)
	type item struct {
		req, text, sout, cls, vars string
		names                      []string
		fn                         string
	}
	var items []*item
	for i, r := range res {
		if len(r) > 0 && strings.Contains(r[0], "Stack overflow") {
			// the extracted model ran out of OCaml stack on this statement (a unary-nat loop bound): outside what the
			// model runner can evaluate, not a disagreement; counted and skipped
			e.res.Histogram["minijs-stmt:model-stack-overflow-skipped"]++
			continue
		}
		if len(r) < 3 || strings.HasPrefix(r[0], "!") {
			e.res.Fail(hx.Violation{Kind: "mismatch", What: "model op minijs_stmt failed", Case: reqs[i], Observed: fmt.Sprint(r)}, "")
			continue
		}
		it := &item{req: reqs[i], text: hx.UnH(r[0]), sout: r[1], cls: r[2]}
		if it.sout != "none" {
			it.sout = hx.UnH(it.sout)
		}
		if len(r) > 3 {
			it.vars = hx.UnH(r[3])
		}
		items = append(items, it)
	}
	// one unit per 250 statements: a function per statement
	const per = 250
	var units []jsNodeUnit
	for u := 0; u*per < len(items); u++ {
		unit := jsNodeUnit{ID: u + 1, Mode: "es5"}
		var code strings.Builder
		code.WriteString("var tie = {};\n" + c04StmtEcho)
		file := jsNodeFile{Name: fmt.Sprintf("stmts%d", u)}
		for k := u * per; k < len(items) && k < (u+1)*per; k++ {
			it := items[k]
			it.fn = fmt.Sprintf("tie.s%d", k)
			it.names = []string{"output"}
			if it.cls == "ok" {
				var pairs [][]interface{}
				if err := json.Unmarshal([]byte(it.vars), &pairs); err == nil {
					it.names = nil
					for _, p := range pairs {
						if nm, ok := p[0].(string); ok && !strings.HasPrefix(nm, "opt_") {
							it.names = append(it.names, nm)
						}
					}
				}
			}
			var ret []string
			for _, nm := range it.names {
				ret = append(ret, fmt.Sprintf("[%q, typeof %s === 'undefined' ? '__undef__' : %s]", nm, nm, nm))
			}
			fmt.Fprintf(&code, "%s = function(opt_data, opt_sb, opt_ijData) {\n  var output = ''; %s\n%s  return JSON.stringify([%s], function(k, v) { return v === undefined ? '__undef__' : v; });\n};\n",
				it.fn, c04StmtJSVars, it.text, strings.Join(ret, ", "))
			file.Templates = append(file.Templates, it.fn)
			unit.Calls = append(unit.Calls, jsNodeCall{F: it.fn, D: c04StmtData, IJ: c04StmtIJ})
		}
		file.Code = code.String()
		unit.Files = []jsNodeFile{file}
		units = append(units, unit)
	}
	out, err := jsRunNode(units, "stmt", "C04")
	if err != nil || len(out) != len(units) {
		e.res.Fail(hx.Violation{Kind: "mismatch", What: "node could not be run for the MiniJS statement tie", Case: "node", Observed: fmt.Sprint(err)}, "")
		return
	}
	for u, ur := range out {
		if ur.Fatal != "" || len(ur.Calls) != len(units[u].Calls) || (len(ur.Files) > 0 && (ur.Files[0].Syntax != nil || ur.Files[0].Run != nil)) {
			obs := ur.Fatal
			if len(ur.Files) > 0 && ur.Files[0].Syntax != nil {
				obs += " syntax: " + *ur.Files[0].Syntax
			}
			if len(ur.Files) > 0 && ur.Files[0].Run != nil {
				obs += " run: " + *ur.Files[0].Run
			}
			e.res.Fail(hx.Violation{Kind: "mismatch", What: "the statements the generator model prints do not load in node", Case: map[string]string{"code": units[u].Files[0].Code}, Observed: obs}, "")
			continue
		}
		for c, cr := range ur.Calls {
			it := items[u*per+c]
			cls := "in-subset"
			if it.sout == "none" {
				cls = "outside-subset"
			}
			e.res.Count("stmt:"+it.req, it.sout != "none", "minijs-stmt:"+cls+":"+it.cls)
			for _, f := range []string{"var ", " = '';", "} else if (", "} else {", "switch (", "default:", "case ", "for (var ", ".length;", " > 0) {", " == 0)", " - 1)", "Math.ceil(", " + '-';", "tie.echo({}", "tie.echo(opt_data,", "tie.echo(soy.$$augmentMap(", "tie.echo(opt_data.a,", "var param_"} {
				if strings.Contains(it.text, f) {
					e.res.Histogram["minijs-stmt:has:"+strings.TrimSpace(f)]++
				}
			}
			if strings.Contains(it.req, "(smsgpl ") {
				e.res.Histogram["minijs-stmt:plural:"+cls+":"+it.cls]++
			}
			cs := map[string]string{"statement": it.req, "javascript": it.text, "variables": c04StmtJSVars}
			var modelVars [][]interface{}
			if it.cls == "ok" {
				if err := json.Unmarshal([]byte(it.vars), &modelVars); err != nil {
					e.res.Fail(hx.Violation{Kind: "mismatch", What: "model op minijs_stmt returned unreadable variables", Case: cs, Observed: it.vars}, "")
					continue
				}
			}
			modelOf := func(name string) (interface{}, bool) {
				for _, p := range modelVars {
					if p[0] == name {
						return p[1], true
					}
				}
				return nil, false
			}
			// (1) inside the subset MiniJS must append exactly the text of the subset semantics (the theorem, re-checked on the extracted code)
			if it.sout != "none" {
				if v, ok := modelOf("output"); it.cls != "ok" || !ok || v != it.sout {
					e.res.Fail(hx.Violation{Kind: "mismatch", What: "js_exec (sgen s) does not append the text sout gives, inside the subset", Case: cs, Expected: hx.Q(it.sout), Observed: it.cls + " " + fmt.Sprint(v)}, "")
				}
			}
			// (2) MiniJS agrees with V8 wherever MiniJS defines a result
			switch it.cls {
			case "ok":
				got, _ := hex.DecodeString(cr.Hex)
				var nodeVars [][]interface{}
				bad := cr.Err != "" || json.Unmarshal(got, &nodeVars) != nil || len(nodeVars) != len(it.names)
				if !bad {
					for _, p := range nodeVars {
						mv, ok := modelOf(fmt.Sprint(p[0]))
						if !ok || !reflect.DeepEqual(mv, p[1]) {
							bad = true
						}
					}
				}
				if bad {
					e.res.Fail(hx.Violation{Kind: "mismatch", What: "node runs the generated statement differently from MiniJS (buffer or a variable differs)", Case: cs, Expected: it.vars, Observed: string(got) + cr.Err}, "")
				}
			case "err":
				if !strings.Contains(cr.Err, "TypeError") {
					got, _ := hex.DecodeString(cr.Hex)
					e.res.Fail(hx.Violation{Kind: "mismatch", What: "MiniJS reports a TypeError for the statement, node does not", Case: cs, Observed: string(got) + cr.Err}, "")
				}
			}
		}
	}
}
