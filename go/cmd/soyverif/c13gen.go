//go:build c13

package main

// Generator of C13 cases: a bundle of gen_prog.go plus an extras file that
// stresses every place where a Go map is ranged over on the compile and
// code-generation paths, optional globals maps, and optional independent
// errors spread over the files.

import (
	"fmt"
	"regexp"
	"strings"

	"soyverif/internal/hx"
)

var (
	c13NsRe   = regexp.MustCompile(`\{namespace ([a-zA-Z0-9_.]+)`)
	c13TmplRe = regexp.MustCompile(`\{template \.([a-zA-Z0-9_]+)`)
)

// c13TemplateNames returns the fully qualified names defined by a file.
func c13TemplateNames(text string) (ns string, names []string) {
	m := c13NsRe.FindStringSubmatch(text)
	if m == nil {
		return "", nil
	}
	ns = m[1]
	for _, t := range c13TmplRe.FindAllStringSubmatch(text, -1) {
		names = append(names, ns+"."+t[1])
	}
	return ns, names
}

var c13PhPool = []string{"{$rec.a}", "{$d.a}", "{$a}", "{$a_1}", "{$a_2}", "{$rec.b}", "{$d.b}", "{$b}", "{$rec['a']}", "{$a + 1}",
	"{length(keys(['b': 1, 'a': $a, 'c': 3]))}", "{length(keys(['c': 3, 'a': $a, 'b': 1]))}", "{$rec.c[0]}", "{$d.c.0}",
	"<a href=\"x\">", "</a>", "<br/>", "<b>", "</b>", "<a href=\"y\">", "{G_INT}", "{$a_1|escapeUri}", "{$b|truncate:3}",
	"{$l[0]}", "{$l[$a]}", "{$l.0}", "{$rec.c[$a]}", "{$rec?.a}", "{$d['a']}"}

// c13Selectors: {plural} selectors.  The same expression texts occur as print
// placeholders in c13PhPool (a data reference that ends in an index or a
// computed access has no derived base name: its placeholder name is the
// default of its ROLE, XXX for a print and NUM for a selector).
var c13Selectors = []string{"$a", "$rec.a", "$a_1", "$a", "$rec.c[0]", "$d.c.0", "$l[0]", "$l[$a]", "$l.0", "$rec['a']", "$d['a']", "$rec.c[$a]", "length($l)"}

// c13Family returns n distinct identifiers related to stem by case, prefix,
// separator and digits.  Wherever a name becomes the key of a Go map, is sorted
// or is compared (template names and import lines, map literal keys, globals,
// placeholder base names) the generator uses such families, so that an order or
// an equality that is not the plain byte-wise one shows.
func c13Family(r *hx.Rand, stem string, n int) []string {
	up := strings.ToUpper(stem[:1]) + stem[1:]
	mixed := stem[:1] + strings.ToUpper(stem[1:2]) + stem[2:]
	all := []string{stem, up, strings.ToUpper(stem), mixed, stem + "1", stem + "_1", stem + "2", stem + "_2", stem[:len(stem)-1], stem + "s",
		stem + "_x", stem + "X", up + "1", stem + "__x", stem + "_X"}
	for i := len(all) - 1; i > 0; i-- {
		j := r.Intn(i + 1)
		all[i], all[j] = all[j], all[i]
	}
	seen := map[string]bool{}
	var res []string
	for _, x := range all {
		if !seen[x] && len(res) < n {
			seen[x] = true
			res = append(res, x)
		}
	}
	return res
}

var c13MsgVars = []string{"a1", "A", "aB", "a_b", "ab", "fooBar", "foo_bar", "fooBar1", "foo_bar_1"}

var c13TextPool = []string{"Hello ", " and ", "you have ", " items", ".", " - ", "é ", "x"}

type c13gen struct {
	r     *hx.Rand
	hist  map[string]int
	ctr   int
	useG  bool
	gFam  []string
	gDefs []c13Global
}

func (g *c13gen) feat(s string) { g.hist["gen:"+s]++ }

func (g *c13gen) msgParts(n int) string {
	var sb strings.Builder
	for i := 0; i < n; i++ {
		if g.r.Chance(30) {
			sb.WriteString(g.r.Pick(c13TextPool))
			continue
		}
		p := g.r.Pick(c13PhPool)
		for p == "{G_INT}" && !g.useG {
			p = g.r.Pick(c13PhPool)
		}
		if g.r.Chance(35) {
			// variables whose base names collide with each other and with suffixed names
			v := g.r.Pick(c13MsgVars)
			p = g.r.Pick([]string{"{$" + v + "}", "{$rec." + v + "}", "{$d." + v + "}", "{$" + v + "|escapeUri}"})
		}
		sb.WriteString(p)
	}
	return sb.String()
}

func (g *c13gen) msg() string {
	g.feat("msg")
	var sb strings.Builder
	sb.WriteString(`{msg desc="` + g.r.Pick([]string{"d", "another", ""}) + `"`)
	if g.r.Chance(25) {
		sb.WriteString(` meaning="m` + fmt.Sprint(g.r.Intn(2)) + `"`)
	}
	sb.WriteString("}")
	if g.r.Chance(25) {
		g.feat("plural")
		sb.WriteString("{plural " + g.r.Pick(c13Selectors) + "}")
		for _, cv := range []string{"0", "1", "2"}[:g.r.Intn(3)] {
			sb.WriteString("{case " + cv + "}" + g.msgParts(1+g.r.Intn(3)))
		}
		sb.WriteString("{default}" + g.msgParts(1+g.r.Intn(4)) + "{/plural}")
	} else {
		sb.WriteString(g.msgParts(2 + g.r.Intn(6)))
	}
	sb.WriteString("{/msg}")
	return sb.String()
}

// msgsTemplate writes a template of n messages over the shared pools of
// placeholder expressions and plural selectors.
func (g *c13gen) msgsTemplate(sb *strings.Builder, name string, n int) {
	sb.WriteString("/**\n * @param rec\n * @param d\n * @param a\n * @param a_1\n * @param a_2\n * @param b\n * @param l\n")
	for _, v := range c13MsgVars {
		sb.WriteString(" * @param " + v + "\n")
	}
	sb.WriteString(" */\n{template ." + name + "}\n")
	sb.WriteString("{if $rec and $d and $a and $a_1 and $a_2 and $b and $l")
	for _, v := range c13MsgVars {
		sb.WriteString(" and $" + v)
	}
	sb.WriteString("}{/if}")
	for i := 0; i < n; i++ {
		sb.WriteString(g.msg() + "\n")
	}
	sb.WriteString("{/template}\n\n")
}

// msgFiles builds zero to two more files with messages (namespaces of their
// own), so that the file insertion order decides which use of an expression --
// print placeholder or plural selector -- the compiler sees first.
func (g *c13gen) msgFiles() (files []srcFile) {
	n := []int{0, 1, 1, 2}[g.r.Intn(4)]
	for i := 0; i < n; i++ {
		g.feat("msg-file")
		var sb strings.Builder
		sb.WriteString(fmt.Sprintf("{namespace xmsg%d}\n\n", i))
		nt := 1 + g.r.Intn(2)
		for t := 0; t < nt; t++ {
			g.msgsTemplate(&sb, fmt.Sprintf("m%d", t), 1+g.r.Intn(2))
		}
		files = append(files, srcFile{Name: fmt.Sprintf("msgs%d.soy", i), Text: sb.String()})
	}
	return files
}

// extras builds the extras file.  others: templates of the other files.
func (g *c13gen) extras(others, libs []string) srcFile {
	var sb strings.Builder
	sb.WriteString("{namespace xtra}\n\n")
	// leaf templates used by the injected call errors and by .imports
	sb.WriteString("/** @param? a */\n{template .leaf" + g.r.Pick([]string{"", "", ` private="true"`}) + "}\n{$a ?: 0}\n{/template}\n\n")
	sb.WriteString("/** @param a */\n{template .needs}\n{$a}\n{/template}\n\n")
	// imports
	g.feat("imports")
	sb.WriteString("/**\n * @param d\n * @param s\n * @param l\n * @param f\n * @param a\n */\n{template .imports}\n")
	nCalls := 2 + g.r.Intn(3)
	for i := 0; i < nCalls && len(others) > 0; i++ {
		sb.WriteString("{call " + others[g.r.Intn(len(others))] + " data=\"$d\" /}")
	}
	for _, t := range libs {
		if g.r.Chance(60) {
			sb.WriteString("{call " + t + " /}")
		}
	}
	sb.WriteString("{call .leaf data=\"all\" /}{if $d and $s and $l and $f}{/if}")
	uses := []string{"{$s|truncate:5}", "{$s|escapeUri}", "{$s|insertWordBreaks:3}", "{$s|changeNewlineToBr}", "{$s|escapeJsString}", "{length($l)}", "{round($f)}",
		"{max($a, 2)}", "{min($a, 2)}", "{keys($d)}", "{floor($f)}", "{ceiling($f)}", "{strContains($s, 'a')}", "{isNonnull($a)}", "{$d|json}"}
	for i := 0; i < 3+g.r.Intn(6); i++ {
		sb.WriteString(g.r.Pick(uses))
	}
	sb.WriteString("\n{/template}\n\n")
	// messages
	g.msgsTemplate(&sb, "msgs", 1+g.r.Intn(3))
	// header-style params: without a soydoc, after an empty soydoc, after a
	// soydoc that is only text; optional params; params only passed on by data="all"
	// (everything Registry.Add rewrites in the tree it is given)
	g.feat("header-params")
	docs := []string{"", "", "/** */\n", "/**\n * Header params follow.\n */\n"}
	if g.r.Chance(40) { // every template with header params has a soydoc in front (Spec/Determinism.v headers_documented)
		docs = docs[2:]
	}
	sb.WriteString(g.r.Pick(docs) + "{template .hpLeaf" + g.r.Pick([]string{"", ` private="true"`}) + "}\n{@param? a: int}\n{@param? opt: int|null}\n{@param? s: string}\n{$a ?: 1}{$opt ?: 2}{$s ?: 'none'}\n{/template}\n\n")
	sb.WriteString(g.r.Pick(docs) + "{template .hpAll}\n{@param? a: int}\n{@param? opt: int|null}\n{call .hpLeaf data=\"all\" /}\n{/template}\n\n")
	sb.WriteString(g.r.Pick(docs) + "{template .hpMixed}\n{@param a: int}\n{@param? opt: int|null}\n{@param l: list<int>}\n{$a}{if $opt}{$opt}{/if}{foreach $x in $l}{$x}{/foreach}" +
		"{call .hpLeaf data=\"all\"}{param s: 'p' + $a /}{/call}{call .hpAll data=\"all\" /}{call .leaf data=\"all\" /}\n{/template}\n\n")
	// map literals
	g.feat("maplit")
	sb.WriteString("/** @param a */\n{template .maps}\n")
	sb.WriteString("{let $m: ['z': $a, 'y': 2, 'x': ['q': 1, 'p': [1, 2], 'o': ['b': 2, 'a': 1]], 'w': 's', 'v': $a + 1]/}")
	sb.WriteString("{$m.z}{keys($m)}{$m.x.q}{$m|json}{keys($m.x)}{$m.x.o|json}{$m}")
	var items []string
	for i, k := range c13Family(g.r, "key", 3+g.r.Intn(5)) {
		items = append(items, "'"+k+"': "+g.r.Pick([]string{fmt.Sprint(i), "$a", "'" + k + "'", "$a + " + fmt.Sprint(i)}))
	}
	sb.WriteString("{let $f: [" + strings.Join(items, ", ") + "]/}{$f}{keys($f)}{$f|json}")
	sb.WriteString("\n{/template}\n\n")
	// globals
	if g.useG {
		g.feat("globals")
		sb.WriteString("/** */\n{template .globals}\n")
		sb.WriteString("{let $g: ['k2': G_STR, 'k1': G_INT, 'k3': app.NAME, 'k0': G_BOOL]/}{$g.k1}{G_INT + 1}{G_STR}{app.NAME}{G_FLOAT}{G_NULL ?: 'n'}{$g|json}")
		for _, n := range g.gFam {
			sb.WriteString("{" + n + " + 1}")
		}
		// globals that are maps and lists (nested): printed, passed to functions and
		// directives, bound, iterated, inside literals, as a message placeholder
		sb.WriteString("{G_MAP}{keys(G_MAP)}{G_MAP|json}{let $gm: G_MAP/}{$gm|json}{length(G_LIST)}{foreach $gi in G_LIST}{$gi}{/foreach}{G_LIST|json}" +
			"{augmentMap(G_MAP, ['zz': G_LIST])|json}{let $gl: [app.PALETTE, G_LIST, ['m': G_MAP]]/}{$gl}{app.PALETTE}{G_MAP ? 1 : 0}")
		sb.WriteString("{msg desc=\"g\"}" + g.r.Pick([]string{"{G_MAP}", "{app.PALETTE}", "{G_LIST}"}) + " and {G_MAP|json}{/msg}")
		sb.WriteString("\n{/template}\n\n")
	}
	return srcFile{Name: "extras.soy", Text: sb.String()}
}

// libs builds one or two library files: namespaces and template names are
// taken from identifier families (lib / Lib, item / Item / item1 / item_1 ...),
// two files may share a namespace (with different template names), some
// templates are private.  Every full name is defined once.
func (g *c13gen) libs() (files []srcFile, names []string) {
	g.feat("libs")
	nFiles := 1
	if g.r.Chance(30) {
		nFiles = 2
	}
	nss := c13Family(g.r, "lib", 1+g.r.Intn(2))
	tmpls := c13Family(g.r, "item", 2+g.r.Intn(4))
	used := map[string]bool{}
	for fi := 0; fi < nFiles; fi++ {
		ns := nss[fi%len(nss)]
		var sb strings.Builder
		sb.WriteString("{namespace " + ns + "}\n\n")
		any := false
		for _, t := range tmpls {
			if used[ns+"."+t] || (nFiles == 2 && g.r.Bool()) {
				continue
			}
			used[ns+"."+t] = true
			any = true
			names = append(names, ns+"."+t)
			sb.WriteString("/** */\n{template ." + t + g.r.Pick([]string{"", "", ` private="true"`}) + "}\n" + ns + "." + t + fmt.Sprintf(" of lib%d", fi) + "\n{/template}\n\n")
		}
		if any {
			files = append(files, srcFile{Name: fmt.Sprintf("lib%d.soy", fi), Text: sb.String()})
		}
	}
	return files, names
}

// c13MapLit is a Soy map literal with 2-6 keys of one identifier family (values:
// primitives, lists, maps; nested to the given depth); c13ListLit a list of such.
func c13MapLit(r *hx.Rand, depth int) string {
	var items []string
	for i, k := range c13Family(r, r.Pick([]string{"key", "fg", "item"}), 2+r.Intn(5)) {
		items = append(items, "'"+k+"': "+c13ValLit(r, depth, i))
	}
	return "[" + strings.Join(items, ", ") + "]"
}

func c13ListLit(r *hx.Rand, depth int) string {
	var items []string
	for i := 0; i < 1+r.Intn(4); i++ {
		items = append(items, c13ValLit(r, depth, i))
	}
	return "[" + strings.Join(items, ", ") + "]"
}

func c13ValLit(r *hx.Rand, depth, i int) string {
	if depth > 0 && r.Chance(40) {
		if r.Bool() {
			return c13MapLit(r, depth-1)
		}
		return c13ListLit(r, depth-1)
	}
	return r.Pick([]string{fmt.Sprint(i), "'#" + fmt.Sprint(i) + "'", "true", "null", "1.5", "'" + r.Pick(c13TextPool) + "'", "-" + fmt.Sprint(i+1)})
}

func c13Gen(r *hx.Rand, hist map[string]int) c13Case {
	g := &c13gen{r: r, hist: hist}
	files, _, _, feats := genBundle(r, progOpts{depth: 2, directives: true})
	for f := range feats {
		hist["feat:"+f]++
	}
	c := c13Case{Seed: int64(r.Intn(1 << 30))}
	var others []string
	nsOf := map[int]string{}
	for i, f := range files {
		ns, names := c13TemplateNames(f.Text)
		nsOf[i] = ns
		others = append(others, names...)
	}
	g.useG = r.Chance(60)
	libFiles, libNames := g.libs()
	g.gFam = c13Family(r, "gv", 2+r.Intn(3))
	c.Files = append(append(append(files, libFiles...), g.extras(others, libNames)), g.msgFiles()...)
	if g.useG {
		all := []c13Global{{"G_INT", fmt.Sprint(r.Intn(100))}, {"G_STR", soyStr(r.Pick(strPool))}, {"app.NAME", "'app'"}, {"G_BOOL", r.Pick([]string{"true", "false"})},
			{"G_FLOAT", r.Pick([]string{"0.5", "2.25", "10.0"})}, {"G_NULL", "null"}, {"UNUSED_1", "1"}, {"UNUSED_2", "'two'"},
			{"G_MAP", c13MapLit(r, 2)}, {"G_LIST", c13ListLit(r, 2)}, {"app.PALETTE", c13MapLit(r, 1)}, {"UNUSED_MAP", c13MapLit(r, 1)}}
		for i, n := range g.gFam {
			all = append(all, c13Global{n, fmt.Sprint(100 + i)})
		}
		for i := len(all) - 1; i > 0; i-- {
			j := r.Intn(i + 1)
			all[i], all[j] = all[j], all[i]
		}
		// split over one or two maps (disjoint)
		if r.Bool() {
			c.Globals = [][]c13Global{all}
		} else {
			k := 1 + r.Intn(len(all)-1)
			c.Globals = [][]c13Global{all[:k], all[k:]}
		}
	} else if r.Chance(30) {
		c.Globals = [][]c13Global{{{"UNUSED_1", "1"}}}
	}
	// each group reaches the bundle through AddGlobalsMap or through a globals file
	for range c.Globals {
		c.GlobalsFile = append(c.GlobalsFile, r.Chance(40))
	}
	// ---- injected errors ----
	if r.Chance(45) {
		nErr := 1 + r.Intn(3)
		for k := 0; k < nErr; k++ {
			g.inject(&c, nsOf)
		}
	}
	return c
}

// inject adds one error to the case.
func (g *c13gen) inject(c *c13Case, nsOf map[int]string) {
	g.ctr++
	id := fmt.Sprint(g.ctr)
	fi := g.r.Intn(len(c.Files))
	add := func(tag, text string) {
		c.Files[fi].Text += "\n" + text + "\n"
		c.Errors = append(c.Errors, tag+"@"+c.Files[fi].Name)
		g.feat("err:" + tag)
	}
	tmpl := func(doc, body string) string {
		return "/** " + doc + " */\n{template .e" + id + "}\n" + body + "\n{/template}"
	}
	switch g.r.Intn(17) {
	case 0:
		add("syntax", tmpl("@param a", g.r.Pick([]string{"{$a +}", "{if $a}x{/foreach}", "{call}{$a}", "{/if}{$a}", "{if $a}x", "{'abc}{$a}"})))
	case 1:
		name := "nons" + id + ".soy"
		text := g.r.Pick([]string{"/** */\n{template .x}\nhi\n{/template}\n", "", "/** only soydoc */\n", "hello\n{namespace late}\n"})
		c.Files = append(c.Files, srcFile{Name: name, Text: text})
		c.Errors = append(c.Errors, "namespace@"+name)
		g.feat("err:namespace")
	case 2:
		add("both-params", "/** @param a */\n{template .e"+id+"}\n{@param b: int}\n{$a}{$b}\n{/template}")
	case 3:
		// the same template name in a second file (or twice in one file)
		var cands []string
		for i := range c.Files {
			_, names := c13TemplateNames(c.Files[i].Text)
			cands = append(cands, names...)
		}
		if len(cands) == 0 {
			return
		}
		full := cands[g.r.Intn(len(cands))]
		dot := strings.LastIndex(full, ".")
		name := "dup" + id + ".soy"
		c.Files = append(c.Files, srcFile{Name: name, Text: "{namespace " + full[:dot] + "}\n\n/** */\n{template " + full[dot:] + g.r.Pick([]string{"", ` private="true"`}) + "}\nduplicate " + id + "\n{/template}\n"})
		c.Errors = append(c.Errors, "duplicate-template@"+name)
		g.feat("err:duplicate-template")
	case 4, 5:
		add("dataref-in-map", tmpl("", "{let $m: ['a': $u1, 'b': $u2, 'c': $u3]/}{$m}"))
	case 6:
		add("dataref", tmpl("@param a", "{$a}{$nope"+id+"}"))
	case 7:
		add("unused-param", tmpl("@param a\n * @param q", "{$a}"))
	case 8:
		add("unused-let", tmpl("", "{let $u: 1/}x{let $v: 2/}"))
	case 9:
		add("let-ij", tmpl("", "{let $ij: 1/}{$ij}"))
	case 10:
		add("call-missing", tmpl("", "{call xtra.nothere"+id+" /}"))
	case 11:
		add("call-undeclared-param", tmpl("", "{call xtra.leaf}{param zz: 1/}{param yy: 2/}{/call}"))
	case 12:
		add("call-missing-required", tmpl("", "{call xtra.needs /}"))
	case 13:
		add("global-undefined", tmpl("", "{UNDEF_"+id+"}"))
	case 14:
		add("globals-in-map", tmpl("", "{let $m: ['a': U1, 'b': U2, 'c': U3]/}{$m}"))
	default:
		// a second (or third) globals map that redefines 1-3 names
		if len(c.Globals) == 0 {
			c.Globals = [][]c13Global{{{"R1", "1"}, {"R2", "2"}, {"R3", "3"}}}
			c.GlobalsFile = []bool{g.r.Bool()}
		}
		first := c.Globals[0]
		k := 1 + g.r.Intn(3)
		var re []c13Global
		for i := 0; i < k && i < len(first); i++ {
			re = append(re, c13Global{first[i].Name, "'again'"})
		}
		re = append(re, c13Global{"FRESH_" + id, "0"})
		c.Globals = append(c.Globals, re)
		c.GlobalsFile = append(c.GlobalsFile, g.r.Bool())
		c.Errors = append(c.Errors, fmt.Sprintf("globals-redefined(%d)", len(re)-1))
		g.feat("err:globals-redefined")
	}
	_ = nsOf
}
