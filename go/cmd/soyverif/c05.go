//go:build c05

package main

// C05 — parsing any input terminates with a tree or an error.
//
//  (a) token-level correspondence: parse.VerifLex (the real scanner, both entry
//      modes) against the items of the extracted Coq lexer machine (Model/Lexer.v,
//      lex_items_tbl): same number of items, same type code and end position for
//      every item, same text for every item that is not an error item (error texts
//      are not modelled).  The model is total (Proofs/LexerProofs.v), so an input on
//      which the real scanner hangs or crashes is a mismatch as well.
//  (b) the property's own oracle on parse.SoyFile / parse.Expr: the call returns,
//      with a tree or an error value.  A panic out of the call, a crash of the
//      process (a panic in the scanner goroutine cannot be recovered by the caller)
//      or no return within the timeout (re-confirmed alone with a longer timeout) is
//      a violation, with the input as the replay.
//  (c) thorough tier: a scaling probe (families of inputs at sizes x1, x8, x64;
//      flagged only when the time grows 16 times faster than the size).
//
// Everything that touches the real scanner runs in worker subprocesses (c05exec.go).

import (
	"encoding/json"
	"fmt"
	"os"
	"path/filepath"
	"strconv"
	"strings"
	"sync"
	"sync/atomic"

	"soyverif/internal/hx"
)

func init() { props["C05"] = runC05 }

type c05State struct {
	e        *env
	itemErr  int
	itemEOF  int
	names    map[int]string
	bad      int32 // hangs + crashes seen so far
	models   []*hx.Model
	par      int
	cutShort bool
	seen     map[string]bool
}

const c05MaxBad = 10

func (s *c05State) abort() bool { return atomic.LoadInt32(&s.bad) >= c05MaxBad }

func c05CaseJSON(in c05Input, op string) map[string]interface{} {
	mode := "file"
	if in.Expr {
		mode = "expr"
	}
	return map[string]interface{}{"family": in.Fam, "op": op, "mode": mode, "input": hx.Q(in.In), "input_hex": hx.H(in.In), "len": len(in.In)}
}

func c05Mode(in c05Input) string {
	if in.Expr {
		return "1"
	}
	return "0"
}

// modelBatch spreads the requests over the model processes.
func (s *c05State) modelBatch(reqs []string) [][]string {
	res := make([][]string, len(reqs))
	n := len(s.models)
	if len(reqs) < 256 || n <= 1 {
		return s.e.m.Batch(reqs)
	}
	chunk := (len(reqs) + n - 1) / n
	var wg sync.WaitGroup
	for k := 0; k < n; k++ {
		a, z := k*chunk, (k+1)*chunk
		if a >= len(reqs) {
			break
		}
		if z > len(reqs) {
			z = len(reqs)
		}
		wg.Add(1)
		go func(k, a, z int) {
			defer wg.Done()
			copy(res[a:z], s.models[k].Batch(reqs[a:z]))
		}(k, a, z)
	}
	wg.Wait()
	for k := 1; k < n; k++ {
		s.e.m.N += s.models[k].N
		s.models[k].N = 0
	}
	return res
}

type c05Tok struct {
	Typ, Pos int
	Val      string
}

func c05ParseReal(out string) ([]c05Tok, bool) {
	f := strings.Fields(out)
	if len(f) == 0 {
		return nil, false
	}
	n, err := strconv.Atoi(f[0])
	if err != nil || len(f) != n+1 {
		return nil, false
	}
	toks := make([]c05Tok, n)
	for i := 0; i < n; i++ {
		p := strings.SplitN(f[i+1], ":", 3)
		if len(p) != 3 {
			return nil, false
		}
		toks[i].Typ, _ = strconv.Atoi(p[0])
		toks[i].Pos, _ = strconv.Atoi(p[1])
		toks[i].Val = hx.UnH(p[2])
	}
	return toks, true
}

func c05ParseModel(resp []string) ([]c05Tok, int, string) {
	if len(resp) < 3 || resp[0] != "ok" {
		return nil, 0, strings.Join(resp, " ")
	}
	ticks := int(hx.UnI(resp[1]))
	n := int(hx.UnI(resp[2]))
	if len(resp) != 3+3*n {
		return nil, 0, "malformed model response"
	}
	toks := make([]c05Tok, n)
	for i := 0; i < n; i++ {
		toks[i].Typ = int(hx.UnI(resp[3+3*i]))
		toks[i].Pos = int(hx.UnI(resp[4+3*i]))
		toks[i].Val = hx.UnH(resp[5+3*i])
	}
	return toks, ticks, ""
}

func (s *c05State) tokStr(ts []c05Tok) string {
	var sb strings.Builder
	for i, t := range ts {
		if i > 0 {
			sb.WriteByte(' ')
		}
		if i >= 40 {
			fmt.Fprintf(&sb, "... (%d items)", len(ts))
			break
		}
		fmt.Fprintf(&sb, "%s@%d:%s", s.names[t.Typ], t.Pos, hx.Q(t.Val))
	}
	return sb.String()
}

// check runs one batch of inputs: lexOn says whether the token-level correspondence
// is evaluated (the oracle always is).
func (s *c05State) check(inputs []c05Input, lexOn bool) {
	e := s.e
	if len(inputs) == 0 || s.abort() {
		if len(inputs) > 0 {
			s.cutShort = true
		}
		return
	}
	// drop inputs already evaluated in the same mode and role
	var ins []c05Input
	for _, in := range inputs {
		k := c05Mode(in) + strconv.FormatBool(lexOn) + in.In
		if s.seen[k] {
			continue
		}
		s.seen[k] = true
		ins = append(ins, in)
	}
	inputs = ins
	var cases []c05Case
	for _, in := range inputs {
		if lexOn {
			cases = append(cases, c05Case{"L" + c05Mode(in), in.In})
		}
		cases = append(cases, c05Case{"P" + c05Mode(in), in.In})
	}
	var modelResp [][]string
	var wg sync.WaitGroup
	if lexOn {
		reqs := make([]string, len(inputs))
		for i, in := range inputs {
			reqs[i] = "lex " + hx.H(in.In) + " #" + c05Mode(in)
		}
		wg.Add(1)
		go func() { defer wg.Done(); modelResp = s.modelBatch(reqs) }()
	}
	res := e.c05Exec(cases, s.par, s.abort, &s.bad)
	wg.Wait()
	per := 1
	if lexOn {
		per = 2
	}
	for i, in := range inputs {
		nontrivial := strings.ContainsAny(in.In, "{}/'\"\\$@") || !c05ASCII(in.In)
		e.res.Count(c05Mode(in)+in.In, nontrivial, "input:"+in.Fam)
		pr := res[per*i+per-1]
		// ---- (b) the oracle ----
		switch {
		case pr.Class == "skipped":
			s.cutShort = true
		case pr.Class == "hang":
			e.res.Histogram["outcome:hang"]++
			e.res.Fail(hx.Violation{Kind: "oracle", What: "the parser does not return (no result within " + c05SoloTimeout.String() + ", run alone)",
				Case: c05CaseJSON(in, "P"+c05Mode(in)), Expected: "a tree or an error value", Observed: "hang"}, "")
		case pr.Class == "crash":
			e.res.Histogram["outcome:process-crash"]++
			e.res.Fail(hx.Violation{Kind: "oracle", What: "the parser crashes the process (panic outside the caller's recover)",
				Case: c05CaseJSON(in, "P"+c05Mode(in)), Expected: "a tree or an error value", Observed: pr.Detail}, "")
		case strings.HasPrefix(pr.Out, "panic"):
			e.res.Histogram["outcome:panic"]++
			msg := ""
			if f := strings.Fields(pr.Out); len(f) > 1 {
				msg = hx.UnH(f[1])
			}
			e.res.Fail(hx.Violation{Kind: "oracle", What: "the parser panics", Case: c05CaseJSON(in, "P"+c05Mode(in)),
				Expected: "a tree or an error value", Observed: msg}, "")
		case pr.Out == "tree" || pr.Out == "error":
			e.res.Histogram["outcome:"+pr.Out]++
		default:
			e.res.Fail(hx.Violation{Kind: "mismatch", What: "worker answered something unexpected", Case: c05CaseJSON(in, "P"+c05Mode(in)), Observed: pr.Out}, "")
		}
		if !lexOn {
			continue
		}
		// ---- (a) tokens ----
		lr := res[2*i]
		if lr.Class == "skipped" {
			continue
		}
		mt, ticks, merr := c05ParseModel(modelResp[i])
		if merr != "" {
			e.res.Fail(hx.Violation{Kind: "mismatch", What: "the lexer model does not return an item list (its totality theorem says it must)",
				Case: c05CaseJSON(in, "L"+c05Mode(in)), Observed: merr}, "")
			continue
		}
		if lim := 40*len(in.In) + 40; ticks > lim {
			e.res.Fail(hx.Violation{Kind: "mismatch", What: "the lexer model used more work units than its proved bound", Case: c05CaseJSON(in, "L"+c05Mode(in)),
				Expected: lim, Observed: ticks}, "")
		}
		if lr.Class != "ok" {
			e.res.Histogram["lex:"+lr.Class]++
			e.res.Fail(hx.Violation{Kind: "mismatch", What: "the real scanner " + lr.Class + "s where the model returns items",
				Case: c05CaseJSON(in, "L"+c05Mode(in)), Expected: s.tokStr(mt), Observed: lr.Class + " " + lr.Detail}, "")
			continue
		}
		rt, ok := c05ParseReal(lr.Out)
		if !ok {
			e.res.Fail(hx.Violation{Kind: "mismatch", What: "unreadable worker answer", Case: c05CaseJSON(in, "L"+c05Mode(in)), Observed: lr.Out}, "")
			continue
		}
		same := len(rt) == len(mt)
		for k := 0; same && k < len(rt); k++ {
			if rt[k].Typ != mt[k].Typ || rt[k].Pos != mt[k].Pos || (rt[k].Typ != s.itemErr && rt[k].Val != mt[k].Val) {
				same = false
			}
		}
		if !same {
			e.res.Fail(hx.Violation{Kind: "mismatch", What: "items of the real scanner differ from the model's",
				Case: c05CaseJSON(in, "L"+c05Mode(in)), Expected: s.tokStr(mt), Observed: s.tokStr(rt)}, "")
			continue
		}
		for _, t := range rt {
			e.res.Histogram["item:"+s.names[t.Typ]]++
		}
		if n := len(rt); n == 0 || (rt[n-1].Typ != s.itemErr && rt[n-1].Typ != s.itemEOF) {
			e.res.Fail(hx.Violation{Kind: "mismatch", What: "the item stream does not end with EOF or an error item",
				Case: c05CaseJSON(in, "L"+c05Mode(in)), Observed: s.tokStr(rt)}, "")
		}
		if len(in.In) > 0 && len(in.In) < 200 {
			e.res.Sample(map[string]interface{}{"mode": c05Mode(in), "input": hx.Q(in.In), "items": s.tokStr(rt), "parse": pr.Out})
		}
	}
}

func c05ASCII(s string) bool {
	for i := 0; i < len(s); i++ {
		if s[i] >= 0x80 {
			return false
		}
	}
	return true
}

func runC05(e *env) {
	s := &c05State{e: e, names: map[int]string{}, par: 4, seen: map[string]bool{}}
	e.res.Rule = "inputs: (1) /repo/testdata files, their soydoc+template chunks and every string literal of the repository's *_test.go files, whole, in file mode (literals also in expression mode); (2) every prefix of every chunk and literal up to 700 bytes, sampled prefixes of the larger ones and of the files (all prefixes for the oracle in the thorough tier); (3) every sequence of up to 2 tags (3 in the thorough tier, sampled one tag longer) from a dictionary of about 190 tags and tag fragments (all commands in their usual forms, special characters, comments, soydoc, header params, text, unclosed pieces) at file level, template level and inside if/foreach/msg; (4) token deletions, duplications and swaps of the chunks and of a list of about 190 expressions; (5) random byte strings: uniform bytes, and concatenations of lexer-relevant pieces including stray continuation bytes, truncated multi-byte sequences, surrogates, 0xFF, non-ASCII letters and digits; (6) string literals, systematically (c05strings.go): every escape form of parse/quote.go and the forms it rejects at every position of short strings, every ordered pair of forms, \\uXXXX with a value of every class (UTF-8 length boundaries, both ends of both surrogate ranges, runes that are syntax characters; upper-, lower-, mixed-case digits) followed by 0..6 characters of every kind (plain, hex digits, multi-byte runes, simple escapes, every prefix of a second \\uXXXX of every class), truncated and malformed \\u escapes, each body as an expression and as a printed literal (closed, and cut off at the end of the input), as a map key at both entry points, as a double-quoted attribute value and as a literal inside a quoted attribute expression, and a core subset also as map value, function / directive argument, case value, double-quoted expression string, unclosed attribute value, attribute expression, param value and map key inside an attribute expression. Compared: item type, end position and text (text not for error items) of parse.VerifLex against the extracted Coq lexer; oracle: parse.SoyFile / parse.Expr returns a tree or an error (no panic, crash or hang). Non-trivial = the input contains one of { } / ' \" \\ $ @ or a non-ASCII byte; distinct by mode and input."
	var tbl struct {
		ItemTypes map[string]int `json:"item_types"`
	}
	if bs, err := os.ReadFile(e.tables); err == nil {
		json.Unmarshal(bs, &tbl)
	}
	if len(tbl.ItemTypes) == 0 {
		e.res.Fail(hx.Violation{Kind: "mismatch", What: "tables.json has no item_types (tablegen could not read the itemType const block)"}, "")
		return
	}
	for n, c := range tbl.ItemTypes {
		s.names[c] = strings.TrimPrefix(n, "item")
	}
	s.itemErr, s.itemEOF = tbl.ItemTypes["itemError"], tbl.ItemTypes["itemEOF"]
	// extra model processes
	s.models = []*hx.Model{e.m}
	if mp := filepath.Join(os.Getenv("VERIF_BUILD"), "modelrun"); os.Getenv("VERIF_BUILD") != "" {
		for k := 1; k < s.par; k++ {
			if m, err := hx.StartModel(mp); err == nil {
				s.models = append(s.models, m)
				defer m.Close()
			}
		}
	}
	if e.replay != "" {
		c05Replay(s)
		return
	}
	thorough := e.scale >= 10
	rng := e.rng

	files, chunks, lits := c05Corpus()
	if len(files) == 0 || len(lits) == 0 {
		e.res.Note("corpus: %d testdata files, %d test literals found under %s", len(files), len(lits), c05Repo())
	}

	// (1) whole corpus
	var ins []c05Input
	for _, f := range files {
		ins = append(ins, c05Input{"corpus-file", f, false})
	}
	for _, c := range chunks {
		ins = append(ins, c05Input{"corpus-chunk", c, false})
	}
	for _, l := range lits {
		ins = append(ins, c05Input{"test-literal", l, false}, c05Input{"test-literal", l, true})
	}
	for _, x := range c05Exprs {
		ins = append(ins, c05Input{"expr", x, true}, c05Input{"expr", "{namespace n}\n/** */\n{template .t}\n{" + x + "}{print " + x + "}\n{/template}\n", false})
	}
	s.check(ins, true)

	// (2) prefixes
	ins = nil
	prefixBudget := 30000 * e.scale
	var small []c05Input
	for _, c := range chunks {
		small = append(small, c05Input{"prefix-chunk", c, false})
	}
	for _, l := range lits {
		small = append(small, c05Input{"prefix-literal", l, false})
		if len(l) <= 200 {
			small = append(small, c05Input{"prefix-literal", l, true})
		}
	}
	for _, x := range c05Exprs {
		small = append(small, c05Input{"prefix-expr", x, true})
	}
	total := 0
	for _, c := range small {
		if len(c.In) <= 700 {
			total += len(c.In)
		} else {
			total += 150
		}
	}
	keep := 100 // percent of prefixes kept
	if total > prefixBudget {
		keep = 100 * prefixBudget / total
	}
	for _, c := range small {
		if len(c.In) <= 700 {
			for i := 0; i < len(c.In); i++ {
				if keep >= 100 || rng.Intn(100) < keep {
					ins = append(ins, c05Input{c.Fam, c.In[:i], c.Expr})
				}
			}
		} else {
			for k := 0; k < 150; k++ {
				if keep >= 100 || rng.Intn(100) < keep {
					ins = append(ins, c05Input{c.Fam, c.In[:rng.Intn(len(c.In))], c.Expr})
				}
			}
		}
	}
	s.check(ins, true)
	// prefixes of the files: tokens on a few short ones, the oracle on many (all in the thorough tier)
	ins = nil
	var oracleOnly []c05Input
	for _, f := range files {
		for k := 0; k < 12*e.scale; k++ {
			n := rng.Intn(len(f) + 1)
			if n > 2500 {
				n = rng.Intn(2500)
			}
			ins = append(ins, c05Input{"prefix-file", f[:n], false})
		}
		stride := 1
		if !thorough && len(f) > 1500 {
			stride = len(f) / 1500
		}
		for i := rng.Intn(stride); i < len(f); i += stride {
			oracleOnly = append(oracleOnly, c05Input{"prefix-file", f[:i], false})
		}
	}
	s.check(ins, true)
	s.check(oracleOnly, false)

	// (3) tag sequences
	tags := c05Dedup(c05Tags)
	e.res.Histogram["dictionary:tags"] = len(tags)
	ins = nil
	for lvl := 0; lvl < 3; lvl++ {
		for _, a := range tags {
			ins = append(ins, c05Input{"tags-1", c05Wrap(lvl, a), false})
		}
	}
	for lvl := 0; lvl < 3; lvl++ {
		for _, a := range tags {
			for _, b := range tags {
				if thorough || lvl < 2 || rng.Intn(4) == 0 {
					ins = append(ins, c05Input{"tags-2", c05Wrap(lvl, a+b), false})
				}
			}
		}
	}
	s.check(ins, true)
	ins = nil
	n3 := 15000 * e.scale
	if thorough {
		n3 = 400000
	}
	for k := 0; k < n3; k++ {
		ins = append(ins, c05Input{"tags-3", c05Wrap(rng.Intn(3), rng.Pick(tags)+rng.Pick(tags)+rng.Pick(tags)), false})
	}
	if thorough {
		for k := 0; k < 200000; k++ {
			ins = append(ins, c05Input{"tags-4", c05Wrap(rng.Intn(3), rng.Pick(tags)+rng.Pick(tags)+rng.Pick(tags)+rng.Pick(tags)), false})
		}
	}
	for a := 0; a < len(ins); a += 100000 {
		z := a + 100000
		if z > len(ins) {
			z = len(ins)
		}
		s.check(ins[a:z], true)
	}

	// (4) token mutations: cut at the real scanner's item ends
	var bases []c05Input
	for _, c := range chunks {
		if len(c) <= 1500 {
			bases = append(bases, c05Input{"mutate-chunk", c, false})
		}
	}
	for _, l := range lits {
		if len(l) <= 600 && strings.ContainsAny(l, "{$") {
			bases = append(bases, c05Input{"mutate-literal", l, false})
		}
	}
	for _, x := range c05Exprs {
		bases = append(bases, c05Input{"mutate-expr", x, true})
	}
	var lc []c05Case
	for _, b := range bases {
		lc = append(lc, c05Case{"L" + c05Mode(b), b.In})
	}
	lres := e.c05Exec(lc, s.par, s.abort, &s.bad)
	ins = nil
	nm := 8000 * e.scale
	type segd struct {
		in   c05Input
		segs []string
	}
	var sg []segd
	for i, b := range bases {
		if lres[i].Class != "ok" {
			continue
		}
		toks, ok := c05ParseReal(lres[i].Out)
		if !ok {
			continue
		}
		var ends []int
		for _, t := range toks {
			ends = append(ends, t.Pos)
		}
		if segs := c05Segments(b.In, ends); len(segs) > 1 {
			sg = append(sg, segd{b, segs})
		}
	}
	for k := 0; k < nm && len(sg) > 0; k++ {
		b := sg[rng.Intn(len(sg))]
		if k%4 == 3 {
			if m, ok := c05MutateString(rng, b.segs); ok {
				ins = append(ins, c05Input{b.in.Fam + "-string", m, b.in.Expr})
				continue
			}
		}
		ins = append(ins, c05Input{b.in.Fam, c05Mutate(rng, b.segs), b.in.Expr})
	}
	s.check(ins, true)

	// (4b) attribute forms: every command with every attribute empty, missing, duplicated, unknown, malformed
	ins = nil
	var insOracle []c05Input
	atags := c05Dedup(c05AttrTags())
	e.res.Histogram["dictionary:attribute-forms"] = len(atags)
	for i, t := range atags {
		for lvl := 0; lvl < 3; lvl++ {
			for _, body := range []string{t, t + c05Closer(t)} {
				in := c05Input{"attrs", c05Wrap(lvl, body), false}
				if thorough || (i+lvl)%3 == 0 {
					ins = append(ins, in)
				} else {
					insOracle = append(insOracle, in)
				}
			}
		}
	}
	s.check(ins, true)
	s.check(insOracle, false)

	// (4c) string literals: every escape form of parse/quote.go at every position, \u escapes of every value
	//      class followed by 0..6 characters of every kind, truncated escapes, closed and cut off, in every
	//      syntactic position of a quoted string (c05strings.go)
	{
		sins, nCore, nRest := c05StringInputs()
		e.res.Histogram["dictionary:string-bodies-all-contexts"] = nCore
		e.res.Histogram["dictionary:string-bodies-main-contexts"] = nRest
		ins, insOracle = nil, nil
		for i, in := range sins {
			if thorough || i%c05StringLexEvery == 0 {
				ins = append(ins, in)
			} else {
				insOracle = append(insOracle, in)
			}
		}
		s.check(ins, true)
		s.check(insOracle, false)
	}

	// (5) random bytes
	ins = nil
	for k := 0; k < 16000*e.scale; k++ {
		ins = append(ins, c05Input{"random", c05RandomBytes(rng), k%3 == 2})
	}
	s.check(ins, true)

	// (d) parser half: the command-level parser model against parse.SoyFile / parse.Expr on the items of the
	//     real scanner (go/cmd/soyverif/parsetie.go, shared with C18): outcome class, tree, error position
	if !s.abort() {
		c05ParserTie(s)
	}

	// (c) scaling probe
	if thorough && !s.abort() {
		c05Scaling(s)
	}
	if s.cutShort {
		e.res.Note("the streams were cut short after %d hangs/crashes of the real code (each costs a timeout); the check has failed anyway", atomic.LoadInt32(&s.bad))
	}
}

// c05ParserTie runs the parser model (Model/Parser.v, theorems parse_file_total / parse_expr_total /
// parse_linear) on the items the real scanner sends and compares outcome class, tree and error
// position with the real parser.  A hang or crash of the real parser is the oracle's business (b).
func c05ParserTie(s *c05State) {
	e := s.e
	cases := ptGenInputs(e, 4000*e.scale)
	var keep []ptCase
	for _, c := range cases {
		if c.Kind == "file" || c.Kind == "expr" {
			keep = append(keep, c)
		}
	}
	cases = append(keep, c05StringTieCases()...)
	res := ptRun(e, cases, 2000, c05BatchTimeout)
	var reqs []string
	var idx []int
	for i := range cases {
		r := &res[i]
		switch r.Class {
		case "hang":
			e.res.Histogram["outcome:hang"]++
			e.res.Fail(hx.Violation{Kind: "oracle", What: "the parser does not return", Case: c05CaseJSON(c05Input{cases[i].Fam, cases[i].Text, cases[i].Kind == "expr"}, "P"),
				Expected: "a tree or an error value", Observed: "hang"}, "")
			continue
		case "crash", "panic":
			e.res.Histogram["outcome:"+r.Class]++
			e.res.Fail(hx.Violation{Kind: "oracle", What: "the parser " + r.Class + "s", Case: c05CaseJSON(c05Input{cases[i].Fam, cases[i].Text, cases[i].Kind == "expr"}, "P"),
				Expected: "a tree or an error value", Observed: r.Detail}, "")
			continue
		case "skipped":
			continue
		}
		if q := ptModelReq(cases[i], r, false); q != "" {
			reqs, idx = append(reqs, q), append(idx, i)
		}
	}
	resp := s.modelBatch(reqs)
	for k, i := range idx {
		m := ptDecode(resp[k])
		c := cases[i]
		e.res.Count("parser:"+c.Kind+":"+c.Text, res[i].Class != "ok" || len(res[i].Q) > 0, "parser-tie:"+c.Fam)
		if strings.HasPrefix(m.Class, "!") || m.Class == "fuel" {
			e.res.Fail(hx.Violation{Kind: "mismatch", What: "the parser model does not return a tree or an error (its totality theorem says it must)", Case: c, Observed: m.Raw}, "")
			continue
		}
		if m.Class == "crash" && strings.HasPrefix(m.ErrCls, "OUT-OF-MODEL") {
			e.res.Histogram["parser-tie:float-outside-model"]++
			continue
		}
		ptCompare(e, c, &res[i], m)
	}
	// the composed model bytes -> tree of soy_file_total_composed / soy_expr_total_composed (parsetie.go)
	ptBytesTie(e, cases, res, s.modelBatch, 6)
	ptFloatTie(e, s.modelBatch, 1500*e.scale)
}

func c05Dedup(l []string) []string {
	seen := map[string]bool{}
	var out []string
	for _, s := range l {
		if !seen[s] {
			seen[s] = true
			out = append(out, s)
		}
	}
	return out
}

func c05Scaling(s *c05State) {
	e := s.e
	var cases []c05Case
	sizes := []int{1, 8, 64}
	for _, f := range c05Families {
		for _, n := range sizes {
			op := "T0"
			if f.Expr {
				op = "T1"
			}
			cases = append(cases, c05Case{op, f.Gen(n)})
		}
	}
	res := e.c05Exec(cases, 1, s.abort, &s.bad)
	for i, f := range c05Families {
		var t [3]float64
		var l [3]int
		ok := true
		cls := ""
		for k := range sizes {
			r := res[3*i+k]
			l[k] = len(cases[3*i+k].In)
			if r.Class != "ok" {
				ok = false
				e.res.Fail(hx.Violation{Kind: "oracle", What: "scaling probe: the parser " + r.Class + "s", Case: map[string]interface{}{"family": f.Name, "size": sizes[k], "len": l[k]}, Observed: r.Detail}, "")
				continue
			}
			fs := strings.Fields(r.Out)
			cls = fs[0]
			ns, _ := strconv.ParseFloat(fs[1], 64)
			if ns < 20000 {
				ns = 20000 // timer floor: 20 microseconds
			}
			t[k] = ns
		}
		if !ok {
			continue
		}
		e.res.Histogram["scaling:"+f.Name]++
		e.res.Note("scaling %s (%s): %d B %.0f us, %d B %.0f us, %d B %.0f us", f.Name, cls, l[0], t[0]/1000, l[1], t[1]/1000, l[2], t[2]/1000)
		for k := 1; k < 3; k++ {
			ratio := float64(l[k]) / float64(l[k-1])
			if t[k] > 16*ratio*t[k-1] {
				e.res.Fail(hx.Violation{Kind: "oracle", What: "scaling probe: parse time grows more than 16 times faster than the input (a test, not a proof)",
					Case:     map[string]interface{}{"family": f.Name, "len_small": l[k-1], "len_large": l[k]},
					Expected: fmt.Sprintf("at most %.0f us", 16*ratio*t[k-1]/1000), Observed: fmt.Sprintf("%.0f us", t[k]/1000)}, "")
			}
		}
	}
}

func c05Replay(s *c05State) {
	e := s.e
	bs, err := os.ReadFile(e.replay)
	if err != nil {
		e.res.Fail(hx.Violation{Kind: "mismatch", What: "cannot read replay file: " + err.Error()}, "")
		return
	}
	var rp struct {
		Case struct {
			Family   string `json:"family"`
			Mode     string `json:"mode"`
			InputHex string `json:"input_hex"`
		} `json:"case"`
	}
	if err := json.Unmarshal(bs, &rp); err != nil {
		e.res.Fail(hx.Violation{Kind: "mismatch", What: "cannot parse replay file: " + err.Error()}, "")
		return
	}
	in := c05Input{Fam: "replay:" + rp.Case.Family, In: hx.UnH(rp.Case.InputHex), Expr: rp.Case.Mode == "expr"}
	s.check([]c05Input{in}, true)
}
