//go:build c05 || c18 || c19

package main

// Shared by C05 (parser half) and C18: parses run in worker subprocesses (the pinned
// scanner can spin or kill the process), the tie between the command-level parser model
// (coq/Model/Parser.v) and parse.SoyFile / parse.Expr, and the per-call goroutine count.
//
//   worker:  soyverif worker parse <cases.json>
//            per case: "S <i>", then the real parse, the scanner goroutines it left behind,
//            the items of the real scanner (parse.VerifLex) and the two tables the model
//            takes as parameters (scanner items of every quoted attribute expression,
//            strconv.Unquote of every attribute string), then "D <i> <json>"; "END" last.
//   parent:  ptRun starts workers, detects hang (no D within the timeout) and crash (exit
//            without END), restarts after the offending case.
//   model:   ptModelReq builds the request of ops_parser.ml; ptCompare compares outcome
//            class, tree (S-expression) and, for errors, the reported line:col with the
//            position of the token the model's errorf takes.

import (
	"bufio"
	"encoding/hex"
	"encoding/json"
	"fmt"
	"math"
	"os"
	"os/exec"
	"regexp"
	"runtime"
	"sort"
	"strconv"
	"strings"
	"time"

	"github.com/robfig/soy"
	"github.com/robfig/soy/ast"
	"github.com/robfig/soy/errortypes"
	"github.com/robfig/soy/parse"
	"soyverif/internal/hx"
)

type ptCase struct {
	Kind string // file | expr | globals
	Text string
	Fam  string
}

// JSON form: the text travels as hex (it may hold invalid UTF-8, which encoding/json would
// replace by U+FFFD); a quoted copy is added for the reader.
type ptCaseJSON struct {
	Kind string `json:"kind"`
	Hex  string `json:"text_hex"`
	Text string `json:"text_quoted"`
	Fam  string `json:"fam"`
}

func (c ptCase) MarshalJSON() ([]byte, error) {
	return json.Marshal(ptCaseJSON{c.Kind, hex.EncodeToString([]byte(c.Text)), hx.Q(c.Text), c.Fam})
}
func (c *ptCase) UnmarshalJSON(bs []byte) error {
	var j ptCaseJSON
	if err := json.Unmarshal(bs, &j); err != nil {
		return err
	}
	t, err := hex.DecodeString(j.Hex)
	if err != nil {
		return err
	}
	c.Kind, c.Text, c.Fam = j.Kind, string(t), j.Fam
	return nil
}

type ptItem struct {
	T int    `json:"t"`
	P int    `json:"p"`
	V string `json:"v"` // hex
}

type ptLine struct {
	Expr string   `json:"expr"`
	Toks []ptItem `json:"toks"`
}

type ptResult struct {
	Class   string              `json:"class"` // ok | err | panic | hang | crash
	Sexp    string              `json:"sexp,omitempty"`
	ErrLine int                 `json:"eline,omitempty"`
	ErrCol  int                 `json:"ecol,omitempty"`
	ErrFile string              `json:"efile,omitempty"`
	ErrPos  bool                `json:"epos,omitempty"` // the error carries a file position
	ErrText string              `json:"etext,omitempty"`
	Toks    []ptItem            `json:"toks,omitempty"`
	Q       map[string][]ptItem `json:"q,omitempty"` // hex(attribute string) -> items in expression mode
	U       map[string]string   `json:"u,omitempty"` // hex(string item) -> "S"+hex(unquoted) | "N"
	Lines   []ptLine            `json:"lines,omitempty"` // globals: the expression of every name = expr line
	Leak    int                 `json:"leak"`            // scanner goroutines left behind by this call
	Spin    int                 `json:"spin,omitempty"`  // of those, not blocked on the channel (still running)
	Detail  string              `json:"detail,omitempty"`
}

const ptFileName = "verif.soy"

func init() { workers["parse"] = ptWorker }

// ---------- worker side ----------

// lexerGoroutines counts goroutines with a frame in parse.(*lexer).run: blocked on the
// channel send (nobody will ever receive: the parse has returned) and others (still running).
func lexerGoroutines() (blocked, running int) {
	buf := make([]byte, 1<<20)
	for {
		n := runtime.Stack(buf, true)
		if n < len(buf) {
			buf = buf[:n]
			break
		}
		buf = make([]byte, 2*len(buf))
	}
	for _, g := range strings.Split(string(buf), "\n\n") {
		if !strings.Contains(g, "parse.(*lexer).run") {
			continue
		}
		head := g
		if i := strings.IndexByte(g, '\n'); i >= 0 {
			head = g[:i]
		}
		if strings.Contains(head, "[chan send") {
			blocked++
		} else {
			running++
		}
	}
	return
}

// leakAfterCall: scanner goroutines still alive after the parse returned; polls (up to 2 s)
// until none is merely finishing.
func leakAfterCall(base int, known int) (leak, spin int) {
	if runtime.NumGoroutine() <= base+known {
		return 0, 0
	}
	deadline := time.Now().Add(2 * time.Second)
	for {
		b, r := lexerGoroutines()
		if r == 0 || time.Now().After(deadline) {
			return b + r - known, r
		}
		if b+r <= known {
			return 0, 0
		}
		time.Sleep(200 * time.Microsecond)
	}
}

func ptItems(its []parse.VerifItem) []ptItem {
	r := make([]ptItem, len(its))
	for i, it := range its {
		r[i] = ptItem{it.Typ, it.Pos, hx.H(it.Val)}
	}
	return r
}

// item type codes, read off the real scanner
var tString, tEquals, tIdent, tCss, tText, tFloat = -1, -1, -1, -1, -1, -1

func ptInitCodes() {
	if tString >= 0 {
		return
	}
	a := parse.VerifLex("", "'s' = x", true)
	b := parse.VerifLex("", "{css a}", false)
	if len(a) < 3 || len(b) < 3 {
		panic("ptInitCodes: unexpected scanner output")
	}
	tString, tEquals, tIdent = a[0].Typ, a[1].Typ, a[2].Typ
	tCss, tText = b[1].Typ, b[2].Typ
	if f := parse.VerifLex("", "1.5", true); len(f) >= 1 {
		tFloat = f[0].Typ
	}
}

// ptTables: the attribute strings the parser may hand to parseQuotedExpr (call data=, param
// value=, the expression part of a css command) lexed in expression mode, and
// strconv.Unquote of every string item that follows '='.
func ptTables(its []parse.VerifItem) (q map[string][]ptItem, u map[string]string) {
	q, u = map[string][]ptItem{}, map[string]string{}
	ptInitCodes()
	addQ := func(s string) {
		k := hx.H(s)
		if _, ok := q[k]; !ok {
			q[k] = ptItems(parse.VerifLex("", s, true))
		}
	}
	for i, it := range its {
		if it.Typ == tString && i >= 1 && its[i-1].Typ == tEquals {
			s, err := strconv.Unquote(it.Val)
			if err != nil {
				u[hx.H(it.Val)] = "N"
			} else {
				u[hx.H(it.Val)] = "S" + hx.H(s)
				if i >= 2 && its[i-2].Typ == tIdent && (its[i-2].Val == "data" || its[i-2].Val == "value") && s != "all" {
					addQ(s)
				}
			}
		}
		if it.Typ == tText && i >= 1 && its[i-1].Typ == tCss {
			if c := strings.LastIndex(it.Val, ","); c >= 0 {
				addQ(strings.TrimSpace(it.Val[:c]))
			}
		}
	}
	return
}

func ptErr(r *ptResult, err error) {
	r.Class = "err"
	r.ErrText = err.Error()
	if fp := errortypes.ToErrFilePos(err); fp != nil {
		r.ErrPos, r.ErrFile, r.ErrLine, r.ErrCol = true, fp.File(), fp.Line(), fp.Col()
	}
}

func fileSexp(f *ast.SoyFileNode) string {
	return sp("file", nodesSexp(f.Body, newIDTable()))
}

// globalsLines mirrors the line handling of soy.ParseGlobals.
func globalsLines(text string) []string {
	var out []string
	sc := bufio.NewScanner(strings.NewReader(text))
	for sc.Scan() {
		line := sc.Text()
		if len(line) == 0 || strings.HasPrefix(line, "//") {
			continue
		}
		eq := strings.Index(line, "=")
		if eq == -1 {
			break // ParseGlobals returns an error here
		}
		out = append(out, strings.TrimSpace(line[eq+1:]))
	}
	return out
}

func ptRunOne(c ptCase, base int, known *int) (r ptResult) {
	func() {
		defer func() {
			if p := recover(); p != nil {
				r.Class, r.Detail = "panic", fmt.Sprint(p)
			}
		}()
		switch c.Kind {
		case "file":
			f, err := parse.SoyFile(ptFileName, c.Text)
			if err != nil {
				ptErr(&r, err)
			} else {
				r.Class, r.Sexp = "ok", fileSexp(f)
			}
		case "expr":
			n, err := parse.Expr(c.Text)
			if err != nil {
				ptErr(&r, err)
			} else {
				r.Class, r.Sexp = "ok", nodeSexp(n, newIDTable())
			}
		case "globals":
			_, err := soy.ParseGlobals(strings.NewReader(c.Text))
			if err != nil {
				r.Class, r.ErrText = "err", err.Error()
			} else {
				r.Class = "ok"
			}
		}
	}()
	r.Leak, r.Spin = leakAfterCall(base, *known)
	*known += r.Leak
	func() {
		defer func() {
			if p := recover(); p != nil {
				r.Detail += " | tables: " + fmt.Sprint(p)
			}
		}()
		switch c.Kind {
		case "file":
			its := parse.VerifLex(ptFileName, c.Text, false)
			r.Toks = ptItems(its)
			r.Q, r.U = ptTables(its)
		case "expr":
			r.Toks = ptItems(parse.VerifLex("", c.Text, true))
		case "globals":
			for _, ex := range globalsLines(c.Text) {
				r.Lines = append(r.Lines, ptLine{ex, ptItems(parse.VerifLex("", ex, true))})
			}
		}
	}()
	return
}

func ptWorker(args []string) {
	if len(args) != 1 {
		return
	}
	bs, err := os.ReadFile(args[0])
	if err != nil {
		return
	}
	var cases []ptCase
	if json.Unmarshal(bs, &cases) != nil {
		return
	}
	w := bufio.NewWriter(os.Stdout)
	ptInitCodes()
	base := runtime.NumGoroutine()
	known := 0
	for i, c := range cases {
		fmt.Fprintf(w, "S %d\n", i)
		w.Flush()
		r := ptRunOne(c, base, &known)
		out, _ := json.Marshal(r)
		fmt.Fprintf(w, "D %d %s\n", i, out)
		w.Flush()
	}
	fmt.Fprintln(w, "END")
	w.Flush()
}

// ---------- parent side ----------

// ptRun parses every case in worker processes (chunks of at most chunk cases per process).
func ptRun(e *env, cases []ptCase, chunk int, timeout time.Duration) []ptResult {
	res := make([]ptResult, len(cases))
	dir := os.Getenv("VERIF_BUILD")
	if dir == "" {
		dir = os.TempDir()
	}
	start, hangs := 0, 0
	for start < len(cases) {
		end := start + chunk
		if end > len(cases) {
			end = len(cases)
		}
		next := ptRunChunk(e, cases, res, start, end, dir, timeout)
		if next < end && res[next-1].Class == "hang" {
			hangs++
		}
		start = next
		if hangs >= ptMaxHangs {
			// every further hang would cost a timeout: the parser (or the scanner) has a
			// termination defect, which is C05's to report; stop here
			for i := start; i < len(cases); i++ {
				res[i] = ptResult{Class: "skipped"}
			}
			e.res.Note("%d parses did not return; the remaining %d inputs were not run", hangs, len(cases)-start)
			break
		}
	}
	return res
}

const ptMaxHangs = 25

var ptConfirmedHangs int

// ptRunChunk runs cases[start:end] in one worker; returns the index to continue from
// (end, or the case after a hang/crash).
func ptRunChunk(e *env, cases []ptCase, res []ptResult, start, end int, dir string, timeout time.Duration) int {
	f, err := os.CreateTemp(dir, "ptcases-*.json")
	if err != nil {
		panic(err)
	}
	defer os.Remove(f.Name())
	bs, _ := json.Marshal(cases[start:end])
	f.Write(bs)
	f.Close()
	cmd := exec.Command(e.self, "worker", "parse", f.Name())
	cmd.Env = append(os.Environ(), "GOMAXPROCS=2")
	var stderr strings.Builder
	cmd.Stderr = &stderr
	out, _ := cmd.StdoutPipe()
	if err := cmd.Start(); err != nil {
		panic(err)
	}
	lines := make(chan string, 64)
	go func() {
		rd := bufio.NewReaderSize(out, 1<<20)
		for {
			l, err := rd.ReadString('\n')
			if l != "" {
				lines <- strings.TrimRight(l, "\n")
			}
			if err != nil {
				close(lines)
				return
			}
		}
	}()
	cur := -1 // case started, not yet done
	finish := func() { cmd.Process.Kill(); cmd.Wait() }
	for {
		select {
		case l, ok := <-lines:
			if !ok { // exit without END
				cmd.Wait()
				if cur < 0 {
					cur = 0
				}
				t := stderr.String()
				if len(t) > 600 {
					t = t[:600]
				}
				res[start+cur] = ptResult{Class: "crash", Detail: t}
				return start + cur + 1
			}
			switch {
			case l == "END":
				finish()
				return end
			case strings.HasPrefix(l, "S "):
				cur, _ = strconv.Atoi(l[2:])
			case strings.HasPrefix(l, "D "):
				rest := l[2:]
				sp := strings.IndexByte(rest, ' ')
				i, _ := strconv.Atoi(rest[:sp])
				var r ptResult
				if err := json.Unmarshal([]byte(rest[sp+1:]), &r); err != nil {
					r = ptResult{Class: "crash", Detail: "bad worker output: " + err.Error()}
				}
				res[start+i] = r
			}
		case <-time.After(timeout):
			finish()
			if cur < 0 {
				cur = 0
			}
			// re-confirm alone, with a longer timeout, before calling it a hang
			if timeout < 8*time.Second && ptConfirmedHangs < 5 {
				one := make([]ptResult, start+cur+1)
				ptRunChunk(e, cases, one, start+cur, start+cur+1, dir, 10*time.Second)
				res[start+cur] = one[start+cur]
				if res[start+cur].Class != "hang" {
					e.res.Histogram["slow-in-sequence,returned-when-run-alone"]++
				} else {
					ptConfirmedHangs++
				}
			} else {
				res[start+cur] = ptResult{Class: "hang"}
			}
			return start + cur + 1
		}
	}
}

func ptToks(its []ptItem) string {
	var sb strings.Builder
	for _, it := range its {
		fmt.Fprintf(&sb, " #%d #%d %s", it.T, it.P, it.V)
	}
	return sb.String()
}

// ptModelReq: the request for ops_parser.ml ("" when the case has no single model run).
func ptModelReq(c ptCase, r *ptResult, pinned bool) string {
	switch c.Kind {
	case "file":
		var sb strings.Builder
		fmt.Fprintf(&sb, "parse_file #%d #%d%s #%d", len(c.Text), len(r.Toks), ptToks(r.Toks), len(r.Q))
		for _, k := range sortedKeysItems(r.Q) {
			fmt.Fprintf(&sb, " %s #%d%s", k, len(r.Q[k]), ptToks(r.Q[k]))
		}
		fmt.Fprintf(&sb, " #%d", len(r.U))
		for _, k := range sortedKeysStr(r.U) {
			v := r.U[k]
			if v == "N" {
				fmt.Fprintf(&sb, " %s N -", k)
			} else {
				fmt.Fprintf(&sb, " %s S %s", k, v[1:])
			}
		}
		return sb.String()
	case "expr":
		return ptExprReq(c.Text, r.Toks, pinned)
	}
	return ""
}

func ptExprReq(text string, toks []ptItem, pinned bool) string {
	p := 0
	if pinned {
		p = 1
	}
	return fmt.Sprintf("parse_expr_entry #%d #%d%s", p, len(text), ptToks(toks))
}

func sortedKeysItems(m map[string][]ptItem) []string {
	t := map[string]int{}
	for k := range m {
		t[k] = 1
	}
	return hx.SortedKeys(t)
}
func sortedKeysStr(m map[string]string) []string {
	t := map[string]int{}
	for k := range m {
		t[k] = 1
	}
	return hx.SortedKeys(t)
}

// ptModel is a decoded answer of parse_file / parse_expr_entry.
type ptModel struct {
	Class  string // ok | err | crash | fuel | !...
	Recv   int
	Scans  [][4]int // sent, recv, drained, done
	Sexp   string
	ErrTyp int
	ErrPos int
	ErrCls string
	Quoted bool
	Raw    string
}

func ptDecode(resp []string) ptModel {
	m := ptModel{Raw: strings.Join(resp, " ")}
	if len(resp) == 0 {
		m.Class = "!empty"
		return m
	}
	m.Class = resp[0]
	if strings.HasPrefix(m.Class, "!") {
		return m
	}
	if m.Class == "crash" && len(resp) >= 2 {
		m.ErrCls = hx.UnH(resp[1])
		return m
	}
	if len(resp) >= 3 {
		m.Recv = int(hx.UnI(resp[1]))
		if resp[2] != "-" {
			for _, s := range strings.Split(resp[2], ",") {
				var a [4]int
				fmt.Sscanf(s, "%d:%d:%d:%d", &a[0], &a[1], &a[2], &a[3])
				m.Scans = append(m.Scans, a)
			}
		}
	}
	if m.Class == "ok" && len(resp) >= 4 {
		m.Sexp = strings.Join(resp[3:], " ")
	}
	if m.Class == "err" && len(resp) >= 7 {
		m.ErrTyp, m.ErrPos, m.ErrCls, m.Quoted = int(hx.UnI(resp[3])), int(hx.UnI(resp[4])), hx.UnH(resp[5]), resp[6] == "#1"
	}
	return m
}

// predicted number of scanner goroutines left behind
func (m ptModel) leak() int {
	n := 0
	for _, s := range m.Scans {
		if s[3] == 0 {
			n++
		}
	}
	return n
}

func lineCol(text string, pos int) (int, int) {
	if pos > len(text) {
		return -1, -1
	}
	n := strings.LastIndex(text[:pos], "\n")
	if n == -1 {
		n = 0
	}
	return 1 + strings.Count(text[:pos], "\n"), pos - n
}

// ptCompare: outcome class, tree and error position of the model against the real parser.
// Returns false (after recording a mismatch) when they disagree.
func ptCompare(e *env, c ptCase, r *ptResult, m ptModel) bool {
	bad := func(what string, exp, obs interface{}) bool {
		e.res.Fail(hx.Violation{Kind: "mismatch", What: "parser model (Model/Parser.v) vs parse." + map[string]string{"file": "SoyFile", "expr": "Expr"}[c.Kind] + ": " + what,
			Case: c, Expected: exp, Observed: obs}, "")
		return false
	}
	if m.Class == "crash" && strings.HasPrefix(m.ErrCls, "OUT-OF-MODEL") {
		// the parser model is total on float literals (NumLit.parse_float_round): it must not happen any more
		return bad("the model left its domain on a float literal", "a tree or an error", m.Raw)
	}
	ptFloatShapes(e, c, r)
	if strings.HasPrefix(m.Class, "!") || m.Class == "fuel" {
		return bad("the model runner failed", "an answer", m.Raw)
	}
	real := r.Class
	if real == "panic" {
		real = "crash"
	}
	if m.Class != real {
		return bad("outcome class", map[string]string{"model": m.Class, "detail": m.ErrCls}, map[string]string{"real": r.Class, "error": r.ErrText, "detail": r.Detail})
	}
	switch real {
	case "ok":
		if m.Sexp != r.Sexp {
			return bad("tree", m.Sexp, r.Sexp)
		}
		e.res.Histogram["tie:agree:tree"]++
		for _, k := range ptKindRe.FindAllStringSubmatch(m.Sexp, -1) {
			e.res.Histogram["tie:agree:node:"+k[1]]++
		}
	case "err":
		if !r.ErrPos {
			return bad("the error has no file position", "ErrFilePos", r.ErrText)
		}
		if m.Quoted {
			// the nested scanner's items are positioned in the enclosing file (/repo 228b3d2)
			e.res.Histogram["tie:error-in-quoted-expression"]++
		}
		l, col := lineCol(c.Text, m.ErrPos)
		if l != r.ErrLine || col != r.ErrCol {
			return bad("reported position of the error", fmt.Sprintf("%d:%d (item type %d ending at byte %d, %s)", l, col, m.ErrTyp, m.ErrPos, m.ErrCls), fmt.Sprintf("%d:%d %s", r.ErrLine, r.ErrCol, r.ErrText))
		}
		wantFile := ""
		if c.Kind == "file" {
			wantFile = ptFileName
		}
		if r.ErrFile != wantFile {
			return bad("file name in the error", wantFile, r.ErrFile)
		}
		e.res.Histogram["tie:agree:error-position"]++
	}
	return true
}

// ptKinds: every node kind parse.SoyFile / parse.Expr can build (astsexp.go names).  The tree comparison
// is field by field (every field of every node type, positions included); ptKindCoverage reports, as a
// note, the kinds no agreeing tree of this run contained.
var ptKindRe = regexp.MustCompile(`\((list|raw|print|dir|css|log|debugger|if|ifcond|for|switch|case|call|pval|pcontent|letv|letc|msg|ph|tag|plural|pcase|template|namespace|soydoc|sdparam|hparam|null|bool|int|float|str|global|func|listlit|maplit|ref|idx|key|exp|not|neg|bin|tern) `)

var ptKinds = strings.Fields("raw print dir css log debugger if ifcond for switch case call pval pcontent letv letc msg ph tag plural pcase template namespace soydoc sdparam hparam null bool int float str global func listlit maplit ref idx key exp not neg bin tern")

func ptKindCoverage(e *env) {
	var missing []string
	for _, k := range ptKinds {
		if e.res.Histogram["tie:agree:node:"+k] == 0 {
			missing = append(missing, k)
		}
	}
	if len(missing) > 0 {
		e.res.Note("node kinds in no agreeing tree of this run: %s", strings.Join(missing, " "))
	} else {
		e.res.Note("every node kind the parser builds (%d kinds) occurs in trees on which model and implementation agree field by field", len(ptKinds))
	}
}

// ---------- float literals ----------

// The float syntax of scanNumber: what NumLit.split_float accepts.  The parser model takes a float
// item of any other text to make ParseFloat fail (FRSyntax); the scanner never sends one -- checked
// here on every token stream the tie sees.
var ptFloatRe = regexp.MustCompile(`^-?[0-9]+(\.[0-9]+)?(e[+-]?[0-9]+)?$`)

func ptFloatShapes(e *env, c ptCase, r *ptResult) {
	ptInitCodes()
	check := func(its []ptItem) {
		for _, it := range its {
			if it.T != tFloat {
				continue
			}
			v := hx.UnH(it.V)
			if ptFloatRe.MatchString(v) {
				e.res.Histogram["tie:float-item-of-scanner-syntax"]++
			} else {
				e.res.Fail(hx.Violation{Kind: "mismatch", What: "the scanner sent a float item outside the float syntax the parser model covers (NumLit.split_float)",
					Case: c, Expected: ptFloatRe.String(), Observed: v}, "")
			}
		}
	}
	check(r.Toks)
	for _, q := range r.Q {
		check(q)
	}
	for _, l := range r.Lines {
		check(l.Toks)
	}
}

// ptFloatTie: NumLit.parse_float_round against strconv.ParseFloat on generated literals of the
// scanner's float syntax: the same float64 bit for bit (as odd mantissa * 2^exponent), or ErrRange
// on both sides.
func ptFloatTie(e *env, batch func([]string) [][]string, n int) {
	r := e.rng
	digits := func(k int) string {
		var sb strings.Builder
		for i := 0; i < k; i++ {
			sb.WriteByte(byte('0' + r.Intn(10)))
		}
		return sb.String()
	}
	lits := []string{"0.1", "0.2", "0.3", "3.14", "1e-7", "1e400", "1e-400", "1e308", "1.7976931348623157e308", "1.7976931348623158e308", "1.7976931348623159e308",
		"4.9e-324", "5e-324", "2.4703282292062327e-324", "2.4703282292062328e-324", "2.2250738585072011e-308", "2.2250738585072014e-308", "9007199254740993.0", "9007199254740992.5",
		"-0.0", "0.0", "0e999999", "-0e5", "1e23", "8.41e21", "9.5e-1", "123456789012345678901234567890.0", "0.000000000000000000000000000001", "1e+22", "1e22", "6.02e23", "1e999999999999999999999", "1e-999999999999999999999",
		"179769313486231580793728971405303415079934132710037826936173778980444968292764750946649017977587207096330286416692887910946555547851940402630657488671505820681908902000708383676273854845817711531764475730270069855571366959622842914819860834936475292719074168444365510704342711559699508093042880177904174497791.9"}
	for len(lits) < n {
		var sb strings.Builder
		if r.Chance(25) {
			sb.WriteByte('-')
		}
		sb.WriteString(strings.TrimLeft(digits(1+r.Intn(22)), "0"))
		if sb.Len() == 0 || sb.String() == "-" {
			sb.WriteByte('0')
		}
		form := r.Intn(3)
		if form != 1 {
			sb.WriteByte('.')
			sb.WriteString(digits(1 + r.Intn(25)))
		}
		if form != 0 {
			sb.WriteByte('e')
			sb.WriteString(r.Pick([]string{"", "+", "-", "-", "-"}))
			switch r.Intn(4) {
			case 0:
				sb.WriteString(strconv.Itoa(r.Intn(30)))
			case 1:
				sb.WriteString(strconv.Itoa(290 + r.Intn(50)))
			default:
				sb.WriteString(strconv.Itoa(r.Intn(330)))
			}
		}
		lits = append(lits, sb.String())
	}
	reqs := make([]string, len(lits))
	for i, l := range lits {
		reqs[i] = "parse_float_round " + hx.H(l)
	}
	resp := batch(reqs)
	for i, l := range lits {
		f, err := strconv.ParseFloat(l, 64)
		want := "val " + flSexp(f)
		if err != nil {
			want = "range"
			if ne, ok := err.(*strconv.NumError); !ok || ne.Err != strconv.ErrRange {
				want = "syntax"
			}
		}
		got := strings.Join(resp[i], " ")
		class := "finite"
		switch {
		case err != nil:
			class = "range"
		case f == 0:
			class = "zero"
		case math.Abs(f) < 2.2250738585072014e-308:
			class = "subnormal"
		}
		e.res.Count("float-literal:"+l, true, "float-tie:"+class)
		if got != want {
			e.res.Fail(hx.Violation{Kind: "mismatch", What: "NumLit.parse_float_round differs from strconv.ParseFloat", Case: map[string]string{"literal": l},
				Expected: want, Observed: got}, "")
		} else {
			e.res.Histogram["float-tie:agree"]++
		}
	}
}

// ---------- bytes -> tree: the composed model of Model/ParseBytes.v ----------

// ptBytesReq: the request for the composed model (scanner model + parser model); only
// strconv.Unquote of the attribute strings is handed over.
func ptBytesReq(c ptCase, r *ptResult) string {
	switch c.Kind {
	case "file":
		var sb strings.Builder
		fmt.Fprintf(&sb, "parse_bytes #0 %s #%d", hx.H(c.Text), len(r.U))
		for _, k := range sortedKeysStr(r.U) {
			v := r.U[k]
			if v == "N" {
				fmt.Fprintf(&sb, " %s N -", k)
			} else {
				fmt.Fprintf(&sb, " %s S %s", k, v[1:])
			}
		}
		return sb.String()
	case "expr":
		return fmt.Sprintf("parse_bytes #1 %s #0", hx.H(c.Text))
	}
	return ""
}

// ptBytesTie runs the composed model on the source text of every case that returned and compares
// outcome class, tree, error position and the predicted scanner records with the real parse:
// the statement of C18_no_goroutine_left_file/_expr and soy_file_total_composed, executed.
// Every case with a nested scanner, a float literal or of the fixed families is run, of the others one in
// [every] (the composed model costs a few ms per input).
func ptBytesTie(e *env, cases []ptCase, res []ptResult, batch func([]string) [][]string, every int) {
	var reqs []string
	var idx []int
	for i := range cases {
		r := &res[i]
		if r.Class == "hang" || r.Class == "crash" || r.Class == "skipped" || len(cases[i].Text) > 6000 {
			continue
		}
		if every > 1 && len(r.Q) == 0 && !strings.Contains(cases[i].Fam, "float") && !strings.Contains(cases[i].Fam, "fixed") && i%every != 0 {
			continue
		}
		if q := ptBytesReq(cases[i], r); q != "" {
			reqs, idx = append(reqs, q), append(idx, i)
		}
	}
	t0 := time.Now()
	resp := batch(reqs)
	for k, i := range idx {
		c := cases[i]
		if len(resp[k]) >= 1 && resp[k][0] == "lexfail" {
			e.res.Fail(hx.Violation{Kind: "mismatch", What: "the scanner model does not return an item list (lex_total_linear says it must)", Case: c, Observed: strings.Join(resp[k], " ")}, "")
			continue
		}
		m := ptDecode(resp[k])
		if m.Class == "crash" || m.Class == "fuel" || strings.HasPrefix(m.Class, "!") {
			e.res.Fail(hx.Violation{Kind: "mismatch", What: "the composed model (Model/ParseBytes.v) does not return a tree or an error (C18_no_goroutine_left / soy_file_total_composed say it must)", Case: c, Observed: m.Raw}, "")
			continue
		}
		if n := m.leak(); n != 0 {
			e.res.Fail(hx.Violation{Kind: "mismatch", What: "the composed model predicts a scanner goroutine left behind (the theorem says none)", Case: c, Observed: m.Raw}, "")
			continue
		}
		if ptCompare(e, c, &res[i], m) {
			e.res.Histogram["bytes-tie:agree:"+c.Kind]++
			if len(m.Scans) > 1 {
				e.res.Histogram["bytes-tie:agree:with-nested-scanner-model"]++
			}
		}
	}
	e.res.Note("%d runs of the composed model bytes -> tree: %.1fs", len(reqs), time.Since(t0).Seconds())
}

// ---------- inputs ----------

var ptTagDict = []string{
	"{namespace a.b}", "{namespace a autoescape=\"false\"}", "{template .t}", "{template .t private=\"true\"}", "{/template}",
	"/** doc */", "/** @param x */", "/** @param? y\n @param z */", "{@param x: int}", "{@param? y: string = 'a'}",
	"{if $x}", "{elseif $y}", "{else}", "{/if}", "{switch $x}", "{case 1}", "{case 1, 2}", "{default}", "{/switch}",
	"{foreach $i in $l}", "{ifempty}", "{/foreach}", "{for $i in range(3)}", "{/for}",
	"{let $v: 1 /}", "{let $v}", "{let $v kind=\"text\"}", "{/let}",
	"{call .t /}", "{call .t}", "{call a.b.t data=\"all\" /}", "{call name=\".t\" data=\"$x\" /}", "{call .t data=\"$x +\" /}", "{call .t data=\"1 2\" /}", "{/call}",
	"{param k: 1 /}", "{param k}", "{param key=\"k\" value=\"$x\" /}", "{param key=\"k\" value=\"1 )\" /}", "{param key=\"k\"}", "{/param}",
	"{msg desc=\"d\"}", "{msg meaning=\"m\" desc=\"d\"}", "{/msg}", "{plural $n}", "{case 0}", "{/plural}",
	"{css foo}", "{css $x, foo}", "{css $x +, foo}", "{log}", "{/log}", "{debugger}", "{literal}{x}{/literal}", "{literal}", "{/literal}",
	"{sp}", "{nil}", "{\\n}", "{\\r}", "{\\t}", "{lb}", "{rb}",
	"{$x}", "{$x|escapeHtml}", "{$x|truncate:3,true}", "{print $x + 1}", "{print}", "{1 + }", "{$x.y[0]?.z}", "{f($x, 2)}", "{[1, 2]}", "{['a': 1]}", "{(1)}", "{not $x}", "{-1}",
	"{alias a.b.c}", "{alias}", "{delcall x}", "{deltemplate x}", "{delpackage x}", "{foo bar}", "{}", "{{$x}}", "{{", "}", "{/", "{\\q}",
	"text", " ", "\n", "<b>bold</b>", "a // c\n", " // c\n", "/* c */", "/*", "'q", "{'q}", "{$x ?: 2}", "{$x ? 1 : 2}", "{1 2}",
}

var ptFixedFiles = []string{
	"{template .t}{namespace a.b}{/template}{template .u}{call .t/}{/template}",
	"{namespace n}{alias x.y.zz}{template .t}{call zz.foo/}{call zz.a.b/}{call other.foo/}{call .bar data=\"$a\"/}{/template}",
	"{alias x.y}{alias x.z}{call y.t/}{call z.t/}{alias q.y}{call y.t/}",
	"{call name=\"a.b\" /}{call name=\".c\" data=\"all\"/}{call name=\"x\" data=\"$d.e\"}{/call}",
	"{call}", "{call /}", "{call data=\"all\"/}", "{call .t foo=\"x\"/}", "{call .t data='all'/}", "{call .t data=\"a\\\"b\"/}", "{call .t data=\"\\x41\"/}",
	"{call .t}{param a: 1/}{param b}text{/param}{param key=\"c\" value=\"'v'\"/}{param key=\"d\"}x{$y}{/param}{param e kind=\"text\"}z{/param}{/call}",
	"{call .t} {param a: 1/} // c\n /* c */ {param b: 2/}\n{/call}", "{call .t}orphan{param a: 1/}{/call}", "{call .t}{if $x}{/if}{/call}", "{call .t}{param}{/call}",
	"{call .t}{param a = 1/}{/call}", "{call .t}{param value=\"1\"/}{/call}", "{call .t}{param a b/}{/call}", "{call .t}{param a: 1}{/call}", "{call .t}{param a}x{/call}",
	"{let $a: 1/}{let $b}x{/let}{let $c kind=\"html\"}y{/let}{let $d kind=\"html\"/}{let a: 1/}{let $e: 1}", "{let $a foo=\"x\"}{/let}", "{let $a}x",
	"{css a}{css a-b, c}{css $x, c}{css $x.y, $z, c }{css , c}{css $x +, c}{css 1 2, c}{css }", "{css a", 
	"{msg desc=\"d\"}a<b x=\"1\">c</b>{$x}<br/>d{sp}e{/msg}", "{msg desc=\"d\"}<a href=\"{$u}\">x</a>< 3 > 2 <1> </ x>{/msg}", "{msg desc=\"d\" meaning=\"m\" hidden=\"true\"}x{/msg}",
	"{msg meaning=\"m\"}x{/msg}", "{msg desc=\"d\"}{msg desc=\"e\"}x{/msg}{/msg}", "{msg desc=\"d\"}{if $x}y{/if}{/msg}", "{msg desc=\"d\"}{call .t/}{let $a: 1/}{css c}{/msg}",
	"{msg desc=\"d\"}{plural $n}{case 1}one{default}<i>many</i> {$n}{/plural}{/msg}", "{msg desc=\"d\"}{plural $n}{case 1}one{/plural}{/msg}",
	"{msg desc=\"d\"}{plural $n}{case 'a'}one{default}x{/plural}{/msg}", "{msg desc=\"d\"}{plural $n}{case 1, 2}one{default}x{/plural}{/msg}",
	"{msg desc=\"d\"}a{plural $n}{default}x{/plural}{/msg}", "{msg desc=\"d\"}{plural $n}{default}x{/plural}b{/msg}", "{msg desc=\"d\"}{plural $n}{default}x{default}y{case 2}{plural $m}{default}z{/plural}{/plural}{/msg}",
	"{plural $n}{default}x{/plural}", "{msg desc=\"d\"}{plural $n}{default}x{/switch}{/msg}", "{msg desc=\"d\"}{plural $n} // c\n {case 0}z{default}x{/plural}{/msg}",
	"{switch $x}{case 1}a{case 2, 'b'}c{default}d{/switch}", "{switch $x}{default}a{case 1}b{/switch}", "{switch $x}{default}a{default}b{/switch}", "{switch $x}{case 1}{default}{/switch}", "{switch $x} {case 1}a {/switch}", "{switch $x}text{case 1}a{/switch}", "{switch $x}{case 1}a{/plural}", "{switch $x}{default,}{/switch}",
	"{switch $x}\n  // comment\n  {case 1}a\n  /* c */\n  {default}b\n{/switch}", "{switch $x}{if}{/switch}", "{switch $x}{{case 1}}a{/switch}", "{switch $x}{case 1 2}{/switch}", "{switch $x}",
	"{if $a}1{elseif $b}2{elseif $c}3{else}4{/if}", "{if $a}1{else}2{else}3{/if}", "{if $a}1{else}2{elseif $b}3{/if}", "{if}x{/if}", "{if $a}x", "{if $a}{/foreach}",
	"{foreach $i in $l}a{ifempty}b{/foreach}", "{foreach $i in $l}a{/for}", "{for $i in range(1, 5)}a{/for}", "{for $i in range(5)}a{ifempty}b{/foreach}", "{foreach $i of $l}{/foreach}", "{foreach i in $l}{/foreach}",
	"{foreach $i in $l}a{ifempty}b{ifempty}c{/foreach}", "{foreach $i in $l}", "{foreach $i in $l}a{ifempty}",
	"{namespace a}{namespace b}", "{namespace a.b.c autoescape=\"true\"}", "{namespace a autoescape=\"contextual\"}", "{namespace a autoescape=\"deprecated-contextual\"}", "{namespace a autoescape=\"maybe\"}", "{namespace a foo=\"x\"}", "{namespace}", "{namespace a",
	"{template .t autoescape=\"false\" private=\"true\" kind=\"html\"}x{/template}", "{template .t private=\"no\"}x{/template}", "{template t}x{/template}", "{template .t}x", "{template .t}{template .u}{/template}{/template}",
	"{@param a: int}{@param? b: list<string>}{@param c: map<string, int> = ['a': 1]}{@param d: ? = 1 + 2}", "{@param a}", "{@param a: int = }", "{@param a: int = 1 2}",
	"/** doc\n * @param a the a\n * @param? b\n * more */", "/** @param */", "/**\n*/", "/** @param a", 
	"{literal} {$x} {/literal}", "{literal}{/literal}", "{literal}x", "{log}a{$x}{/log}", "{log}a", "{log x}", "{debugger}", "{debugger x}",
	"{sp}{nil}{\\n}{\\r}{\\t}{lb}{rb}", "{sp x}", "{$x|a|b:1|c:1,2,'s'}", "{$x|}", "{$x|a:}", "{$x|a 1}", "{print $x}", "{print}", "{$x", "{1 + }", "{$x}}",
	"a // c\nb /* c */ c", "// c\n{$x}", "a{$x} // c\nb", "{$x}\n// c\n  text", "x\n  y  \n{sp}\n  <b>\n  z", "}", "{", "{{$x}}", "{{$x}",
	"{delcall a.b}{/delcall}", "{deltemplate a}", "{case 1}", "{default}", "{else}", "{/if}", "{param a: 1/}", "{ifempty}", "{elseif $x}",
}

func ptGenInputs(e *env, budget int) []ptCase {
	r := e.rng
	var cs []ptCase
	add := func(kind, fam, text string) {
		cs = append(cs, ptCase{kind, text, fam})
	}
	mutate := func(text string) string {
		// token-level deletion / duplication / swap on a crude tokenisation
		var toks []string
		cur := ""
		flush := func() {
			if cur != "" {
				toks = append(toks, cur)
				cur = ""
			}
		}
		for _, ch := range text {
			if ch == '_' || ch == '$' || ch == '.' || (ch >= '0' && ch <= '9') || (ch >= 'a' && ch <= 'z') || (ch >= 'A' && ch <= 'Z') {
				cur += string(ch)
			} else {
				flush()
				toks = append(toks, string(ch))
			}
		}
		flush()
		if len(toks) < 2 {
			return text
		}
		i := r.Intn(len(toks))
		switch r.Intn(3) {
		case 0:
			toks = append(toks[:i:i], toks[i+1:]...)
		case 1:
			toks = append(toks[:i+1:i+1], toks[i:]...)
		default:
			j := r.Intn(len(toks))
			toks[i], toks[j] = toks[j], toks[i]
		}
		return strings.Join(toks, "")
	}
	// 1. corpus files, their prefixes and mutations
	var corpus []string
	for _, f := range []string{"testdata/features.soy", "testdata/simple.soy"} {
		repo := os.Getenv("VERIF_REPO")
		if repo == "" {
			repo = "/repo"
		}
		if bs, err := os.ReadFile(repo + "/" + f); err == nil {
			corpus = append(corpus, string(bs))
			add("file", "corpus", string(bs))
		}
	}
	for _, t := range corpus {
		for i := 0; i < budget/60; i++ {
			add("file", "corpus-prefix", t[:r.Intn(len(t)+1)])
		}
		for i := 0; i < budget/100; i++ {
			add("file", "corpus-mutation", mutate(t))
		}
	}
	// 2. generated bundles, prefixes, mutations
	nb := budget / 25
	for i := 0; i < nb; i++ {
		files, _, _, _ := genBundle(r, progOpts{depth: 3, directives: true})
		for _, f := range files {
			add("file", "generated", f.Text)
			for j := 0; j < 3; j++ {
				add("file", "generated-prefix", f.Text[:r.Intn(len(f.Text)+1)])
			}
			for j := 0; j < 3; j++ {
				add("file", "generated-mutation", mutate(f.Text))
			}
		}
	}
	// one small file: every prefix
	{
		files, _, _, _ := genBundle(r, progOpts{depth: 2, directives: true})
		t := files[0].Text
		if len(t) > 1500 {
			t = t[:1500]
		}
		for i := 0; i <= len(t); i++ {
			add("file", "every-prefix", t[:i])
		}
	}
	// 3. tag dictionary: singles, pairs, triples at three levels
	wrap := func(level int, s string) string {
		switch level {
		case 1:
			return "{namespace n}\n/** */\n{template .t}\n" + s + "\n{/template}\n"
		case 2:
			return "{namespace n}\n{template .t}\n{if $c}" + s + "{/if}{msg desc=\"d\"}" + s + "{/msg}\n{/template}\n"
		}
		return s
	}
	for level := 0; level < 3; level++ {
		for _, t := range ptTagDict {
			add("file", fmt.Sprintf("tags1-level%d", level), wrap(level, t))
		}
	}
	for i := 0; i < budget/2; i++ {
		n := 2 + r.Intn(2)
		var sb strings.Builder
		for j := 0; j < n; j++ {
			sb.WriteString(r.Pick(ptTagDict))
		}
		add("file", fmt.Sprintf("tags%d", n), wrap(r.Intn(3), sb.String()))
	}
	// 3b. fixed files: one per path of the command parsers that the random families rarely reach
	for _, t := range ptFixedFiles {
		add("file", "fixed", t)
		add("file", "fixed-in-template", "{namespace n}\n{template .t}\n"+t+"\n{/template}\n")
	}
	// 4. expressions: valid, with trailing items, truncated, mutated
	g := &progGen{r: r, o: progOpts{depth: 3, directives: true}, feats: map[string]int{}}
	env := genv{}.with(gvar{name: "a", k: kInt}).with(gvar{name: "s", k: kStr}).with(gvar{name: "l", k: kListInt}).with(gvar{name: "m", k: kRec})
	trail := []string{" 2", " 2 3", " )", " ]", " ,", " }", " } text {$x}", " :", " $x", " 'unterminated", " #", " |x", " ? 1", " and", " = 1"}
	for i := 0; i < budget/4; i++ {
		ex := g.expr(env, kind(r.Intn(int(kNull)+1)), 1+r.Intn(3))
		switch r.Intn(5) {
		case 0, 1:
			add("expr", "expr-valid", ex)
		case 2:
			add("expr", "expr-trailing", ex+r.Pick(trail))
		case 3:
			add("expr", "expr-prefix", ex[:r.Intn(len(ex)+1)])
		default:
			add("expr", "expr-mutation", mutate(ex))
		}
	}
	for _, ex := range []string{"1 2 3", "", " ", "1", "$a.b.c", "f(", "[", "['a':", "1 +", "'s' 't'", "$x ?", "$x ? 1 :", "not", "-", "(", ")", "1 }", "1 } {"} {
		add("expr", "expr-fixed", ex)
	}
	// 4b. float literals outside the exact decimal domain (correctly rounded / ErrRange in the model)
	for _, ex := range []string{"0.1", "3.14 * 2.0", "1e-7 + 0.3", "1e400", "-1e400 + 1", "1e-400", "[0.1, 1e400]", "f(2.5e-3, 1e308)", "0.1 2", "$a.b + 4.9e-324",
		"1.7976931348623158e308", "1.7976931348623159e308", "123456789012345678901.5", "['k': 0.7]", "0.30000000000000004 == 0.1 + 0.2", "1.5e", "1.", "2.e3", "1e+", "0x1.8", "00.5", "1.5x"} {
		add("expr", "expr-float", ex)
		add("file", "file-float", "{namespace n}\n{template .t}\n{"+ex+"}{call .u data=\"["+strings.ReplaceAll(ex, "\"", "")+"]\" /}\n{/template}\n")
	}
	// 5. quoted attribute expressions (nested scanner)
	for i := 0; i < budget/8; i++ {
		ex := g.expr(env, kind(r.Intn(int(kNull)+1)), 1+r.Intn(2))
		if strings.ContainsAny(ex, "\"\\\n") {
			continue
		}
		switch r.Intn(4) {
		case 1:
			ex += r.Pick(trail)
		case 2:
			ex = ex[:r.Intn(len(ex)+1)]
		case 3:
			ex = mutate(ex)
		}
		if strings.ContainsAny(ex, "\"\\\n") {
			continue
		}
		var body string
		switch r.Intn(4) {
		case 0:
			body = "{call .u data=\"" + ex + "\" /}"
		case 1:
			body = "{call .u}{param key=\"k\" value=\"" + ex + "\" /}{/call}"
		case 2:
			body = "{call name=\".u\" data=\"" + ex + "\"}{param k: 1 /}{/call}"
		default:
			if strings.Contains(ex, "}") {
				continue
			}
			body = "{css " + ex + ", cls}"
		}
		add("file", "quoted-attribute-expr", "{namespace n}\n{template .t}\n"+body+"\n{/template}\n")
	}
	// 6. globals files
	if bs, err := os.ReadFile("/repo/testdata/FeaturesUsage_globals.txt"); err == nil {
		add("globals", "globals-corpus", string(bs))
	}
	for i := 0; i < budget/20; i++ {
		var sb strings.Builder
		for j, n := 0, 1+r.Intn(5); j < n; j++ {
			switch r.Intn(8) {
			case 0:
				sb.WriteString("// comment\n")
			case 1:
				sb.WriteString("\n")
			case 2:
				fmt.Fprintf(&sb, "G%d = %s%s\n", j, g.expr(genv{}, kind(r.Intn(4)), 1), r.Pick(trail))
			case 3:
				fmt.Fprintf(&sb, "G%d = 'x' 'y'\n", j)
			default:
				fmt.Fprintf(&sb, "G%d = %s\n", j, r.Pick([]string{"1", "'s'", "true", "null", "0.5", "-3", "'a' + 'b'", "1 + 2"}))
			}
		}
		add("globals", "globals-generated", sb.String())
	}
	// 7. random bytes (invalid UTF-8 included) around soy punctuation
	alpha := []string{"{", "}", "/", "*", "$", "a", " ", "\n", "'", "\"", ".", "|", ":", ",", "[", "]", "(", ")", "\x80", "\xc3", "é", "if", "call", "msg", "=", "?", "\\"}
	for i := 0; i < budget/10; i++ {
		var sb strings.Builder
		for j, n := 0, r.Intn(30); j < n; j++ {
			if r.Chance(10) {
				sb.WriteByte(byte(r.Intn(256)))
			} else {
				sb.WriteString(r.Pick(alpha))
			}
		}
		add("file", "random-bytes", sb.String())
	}
	// shortest inputs first: the first failing input reported is then a small one
	sort.SliceStable(cs, func(i, j int) bool { return len(cs[i].Text) < len(cs[j].Text) })
	return cs
}
