//go:build c10

package main

// C10 — message ids are a stable function of content and meaning.
//
//  (1) byte level: hash32 / fingerprint / toUpperUnderscore (hooks in
//      soymsg/verif_export.go) against the model whose mix block, constants
//      and tables are regenerated from the Go source.
//  (2) message level: a generator of {msg} bodies (raw text of any bytes,
//      print placeholders over many expression shapes, HTML tags, other
//      commands, repeated and colliding base names, plurals, nested plurals,
//      meanings, descriptions).  Every message is compiled 30 times in this
//      process (Go randomises map iteration per loop) and once in each of two
//      fresh processes.
//      oracle: all compilations agree on id, names and PlaceholderString; the
//      id does not change with the description, the surrounding code or other
//      messages, and does change when text or meaning change; id < 2^63;
//      names follow the official rule (transcribed in c10Official).
//      correspondence: id, names, PlaceholderString and base names equal the
//      Coq model's (Model/MsgId.v).

import (
	"context"
	"encoding/json"
	"fmt"
	"os"
	"os/exec"
	"regexp"
	"sort"
	"strconv"
	"strings"
	"time"

	"github.com/robfig/soy"
	"github.com/robfig/soy/ast"
	"github.com/robfig/soy/soymsg"
	"github.com/robfig/soy/template"
	"soyverif/internal/hx"
)

func init() {
	props["C10"] = runC10
	workers["c10"] = c10Worker
}

const c10Reps = 30

// ---------- observation of a compiled message ----------

type c10Obs struct {
	ID    uint64   `json:"id"`
	PhStr string   `json:"phstr"`
	Names []string `json:"names"` // Name / VarName in document order
	Err   string   `json:"err,omitempty"`
}

func (o c10Obs) key() string {
	return fmt.Sprintf("%d|%q|%q|%s", o.ID, o.PhStr, o.Names, o.Err)
}

func c10WalkMsgs(n ast.Node, f func(*ast.MsgNode)) {
	if n == nil {
		return
	}
	if m, ok := n.(*ast.MsgNode); ok {
		f(m)
		return
	}
	if p, ok := n.(ast.ParentNode); ok {
		for _, c := range p.Children() {
			c10WalkMsgs(c, f)
		}
	}
}

func c10Names(l []ast.Node, out *[]string) {
	for _, c := range l {
		switch c := c.(type) {
		case *ast.MsgPlaceholderNode:
			*out = append(*out, c.Name)
		case *ast.MsgPluralNode:
			*out = append(*out, c.VarName)
			for _, pc := range c.Cases {
				c10Names(pc.Body.Children(), out)
			}
			c10Names(c.Default.Children(), out)
		}
	}
}

// c10Compile compiles one file and returns the registry; panics become errors.
func c10Compile(src string) (reg *template.Registry, err error) {
	defer func() {
		if r := recover(); r != nil {
			err = fmt.Errorf("PANIC: %v", r)
		}
	}()
	return soy.NewBundle().AddTemplateString("c10.soy", src).Compile()
}

// c10Msgs returns the msg nodes of a compiled file in document order.
func c10Msgs(reg *template.Registry) []*ast.MsgNode {
	var ms []*ast.MsgNode
	for _, t := range reg.Templates {
		c10WalkMsgs(t.Node, func(m *ast.MsgNode) { ms = append(ms, m) })
	}
	return ms
}

func c10Observe(m *ast.MsgNode) (o c10Obs) {
	defer func() {
		if r := recover(); r != nil {
			o.Err = fmt.Sprintf("PANIC: %v", r)
		}
	}()
	o.ID = m.ID
	o.Names = []string{}
	c10Names(m.Body.Children(), &o.Names)
	o.PhStr = soymsg.PlaceholderString(m)
	return o
}

// c10CompileObserve compiles src and observes its idx-th message.
func c10CompileObserve(src string, idx int) (c10Obs, *ast.MsgNode) {
	reg, err := c10Compile(src)
	if err != nil {
		return c10Obs{Err: "compile: " + err.Error()}, nil
	}
	ms := c10Msgs(reg)
	if idx >= len(ms) {
		return c10Obs{Err: fmt.Sprintf("compile: message %d not found (%d messages)", idx, len(ms))}, nil
	}
	return c10Observe(ms[idx]), ms[idx]
}

// ---------- encoding for the model (grammar in ocaml/ops_msgid.ml) ----------

func c10EncExpr(e ast.Node) []string {
	switch e := e.(type) {
	case *ast.GlobalNode:
		return []string{"EG", hx.H(e.Name)}
	case *ast.DataRefNode:
		r := []string{"ED", hx.H(e.Key), hx.I(int64(len(e.Access)))}
		for _, a := range e.Access {
			if k, ok := a.(*ast.DataRefKeyNode); ok {
				r = append(r, "K", hx.H(k.Key))
			} else {
				r = append(r, "O")
			}
		}
		return r
	}
	return []string{"EO"}
}

// c10EncNode describes the node handed to genBasePlaceholderName.
func c10EncNode(n ast.Node) []string {
	switch n := n.(type) {
	case *ast.PrintNode:
		return append([]string{"NP"}, c10EncExpr(n.Arg)...)
	case *ast.MsgHtmlTagNode:
		return []string{"NH", hx.H(string(n.Text))}
	case *ast.DataRefNode, *ast.GlobalNode:
		return append([]string{"NE"}, c10EncExpr(n)...)
	}
	return []string{"NO"}
}

type c10Entry struct{ Base, Str string }

// c10EncParts encodes a body; bases collects genBasePlaceholderName of every
// placeholder in document order; ok is false for a child writeFingerprint
// does not know.
func c10EncParts(l []ast.Node, bases *[]string, ok *bool) []string {
	r := []string{hx.I(int64(len(l)))}
	for _, c := range l {
		switch c := c.(type) {
		case *ast.RawTextNode:
			r = append(r, "T", hx.H(string(c.Text)))
		case *ast.MsgPlaceholderNode:
			*bases = append(*bases, soymsg.VerifGenBaseName(c.Body, "XXX"))
			r = append(r, "P")
			r = append(r, c10EncNode(c.Body)...)
			r = append(r, hx.H(c.String()))
		case *ast.MsgPluralNode:
			*bases = append(*bases, soymsg.VerifGenBaseName(c.Value, "NUM"))
			r = append(r, "L")
			r = append(r, c10EncNode(c.Value)...)
			r = append(r, hx.H(c.String()), hx.I(int64(len(c.Cases))))
			for _, pc := range c.Cases {
				r = append(r, hx.I(int64(pc.Value)))
				r = append(r, c10EncParts(pc.Body.Children(), bases, ok)...)
			}
			r = append(r, c10EncParts(c.Default.Children(), bases, ok)...)
		default:
			*ok = false
		}
	}
	return r
}

// ---------- the official naming rule, transcribed (Spec/Msg.v) ----------

func c10PhChildren(l []ast.Node) []ast.Node {
	var r []ast.Node
	for _, c := range l {
		switch c.(type) {
		case *ast.MsgPlaceholderNode, *ast.MsgPluralNode:
			r = append(r, c)
		}
	}
	return r
}

// c10Official returns "" when the names on m follow the official rule, else a
// description.  Placeholders are visited breadth first (a plural's case bodies
// after everything queued before it); per base name the distinct source texts
// in first-appearance order are its variants; one variant: the base name;
// several: base_N with N running through the positive numbers for which base_N
// is not itself a base name.
func c10Official(m *ast.MsgNode) (problem string, variantsMax int) {
	type node struct {
		n    ast.Node
		e    c10Entry
		name string
	}
	var nodes []node
	queue := c10PhChildren(m.Body.Children())
	for len(queue) > 0 {
		n := queue[0]
		queue = queue[1:]
		switch n := n.(type) {
		case *ast.MsgPlaceholderNode:
			nodes = append(nodes, node{n, c10Entry{soymsg.VerifGenBaseName(n.Body, "XXX"), n.String()}, n.Name})
		case *ast.MsgPluralNode:
			nodes = append(nodes, node{n, c10Entry{soymsg.VerifGenBaseName(n.Value, "NUM"), n.String()}, n.VarName})
			for _, pc := range n.Cases {
				queue = append(queue, c10PhChildren(pc.Body.Children())...)
			}
			queue = append(queue, c10PhChildren(n.Default.Children())...)
		}
	}
	variants := map[string][]string{}
	for _, nd := range nodes {
		vs := variants[nd.e.Base]
		seen := false
		for _, v := range vs {
			if v == nd.e.Str {
				seen = true
			}
		}
		if !seen {
			variants[nd.e.Base] = append(vs, nd.e.Str)
		}
	}
	want := map[c10Entry]string{}
	for base, vs := range variants {
		if len(vs) > variantsMax {
			variantsMax = len(vs)
		}
		if len(vs) == 1 {
			want[c10Entry{base, vs[0]}] = base
			continue
		}
		n := 1
		for _, v := range vs {
			for {
				name := base + "_" + strconv.Itoa(n)
				n++
				if _, isBase := variants[name]; !isBase {
					want[c10Entry{base, v}] = name
					break
				}
			}
		}
	}
	byName := map[string]c10Entry{}
	for _, nd := range nodes {
		if nd.name == "" {
			return fmt.Sprintf("placeholder %q (base name %s) has no name", nd.e.Str, nd.e.Base), variantsMax
		}
		if prev, ok := byName[nd.name]; ok && prev != nd.e {
			return fmt.Sprintf("name %s is used for two distinct placeholders %q and %q", nd.name, prev.Str, nd.e.Str), variantsMax
		}
		byName[nd.name] = nd.e
		if w := want[nd.e]; w != nd.name {
			return fmt.Sprintf("placeholder %q (base name %s) is named %s, the official rule gives %s", nd.e.Str, nd.e.Base, nd.name, w), variantsMax
		}
	}
	return "", variantsMax
}

// ---------- generator ----------

type c10Gen struct {
	r    *hx.Rand
	vars map[string]bool
	feat map[string]bool
}

var c10Words = []string{"Hello", "world", " ", "  ", "a", "NAME", "X_1", "é", "日本", "\U0001F600", ",", ".", "!", "'", "\"", "&", "<", ">", "< a>", "=1", "other", ",plural,", "=", "#", "|", "[", "]", "(", ")", "\\", "\t", "x<y", "a>b", "<>", "<3", "%s", " ", " "}
var c10Specials = []string{"{lb}", "{rb}", "{sp}", "{nil}", "{\\n}", "{\\t}", "{lb}NAME{rb}", "{lb}X_1{rb}"}

func (g *c10Gen) text() string {
	var sb strings.Builder
	n := 1 + g.r.Intn(4)
	for i := 0; i < n; i++ {
		switch {
		case g.r.Chance(60):
			sb.WriteString(g.r.Pick(c10Words))
		case g.r.Chance(30):
			g.feat["text:special"] = true
			sb.WriteString(g.r.Pick(c10Specials))
		default:
			// any bytes except the braces and the slash (comment starts)
			g.feat["text:bytes"] = true
			k := 1 + g.r.Intn(6)
			for j := 0; j < k; j++ {
				c := byte(1 + g.r.Intn(255))
				if c == '{' || c == '}' || c == '/' {
					c = 'z'
				}
				sb.WriteByte(c)
			}
		}
	}
	return sb.String()
}

// expression templates: %a %b %c are replaced by variable names
var c10RefShapes = []string{
	"$%a", "$%a.x", "$%b.x", "$%a.x_1", "$%a.x_2", "$%a.b.x", "$%a.b.cD", "$%a.fooBar", "$%a.foo_bar", "$%a.FooBar8", "$%a.HTTPServer",
	"$%a._x_", "$%a.x__y", "$%a.b9c", "$%a.x1", "$%a[0]", "$%a.0", "$%a.x[0]", "$%a.b[0].x", "$%a.b.0.x", "$%a?.x", "$%a?.b?.x", "$%a['k']",
	"$%a['x']", "$%a[$%b]", "$%a[$%b].x", "$%a.x.x", "$%a.X", "$%a.Xy", "$%a.xY", "$%a.xYz", "$%a.aBC", "$%a.a1B2", "$%a.num", "$%a.xxx",
}
var c10VarNames = []string{"a", "b", "c", "x", "x_1", "x_2", "x_1_1", "fooBar", "foo_bar", "n", "l", "url", "name", "eggs", "a1", "X", "num", "xxx", "_y", "y_", "aB1c"}
var c10OtherExprs = []string{
	"length($%a)", "round(1.5)", "max(1, $%a)", "keys($%a)", "isNonnull($%a)", "['a':1,'b':2,'c':3]", "['b':2,'c':3,'a':1]", "['a':1,'b':2,'c':3,'d':$%a,'e':5,'f':6]",
	"['k': ['p':1,'q':2,'r':3]]", "[1, 2]", "[$%a, $%b]", "[:]", "[]", "'str'", "'a' + $%a", "1 + $%a", "$%a.x + 1", "not $%a", "$%a ? 1 : 2", "$%a ?: 'd'",
	"$%a and $%b", "$%a == $%b", "1", "1.5", "true", "null", "length(['a':1,'b':2,'c':3,'d':4])",
}
var c10Directives = []string{"", "", "", "", "|noAutoescape", "|escapeHtml", "|truncate:5", "|id", "|insertWordBreaks:3|escapeUri"}

func (g *c10Gen) v() string {
	n := c10VarNames[g.r.Intn(len(c10VarNames))]
	if g.r.Chance(70) {
		n = c10VarNames[g.r.Intn(6)] // favour collisions
	}
	g.vars[n] = true
	return n
}

func (g *c10Gen) subst(shape string) string {
	shape = strings.ReplaceAll(shape, "%a", g.v())
	shape = strings.ReplaceAll(shape, "%b", g.v())
	return shape
}

func (g *c10Gen) expr() string {
	if g.r.Chance(75) {
		if g.r.Chance(50) {
			return g.subst(c10RefShapes[g.r.Intn(8)]) // the colliding family
		}
		return g.subst(g.r.Pick(c10RefShapes))
	}
	g.feat["print:other-expr"] = true
	return g.subst(g.r.Pick(c10OtherExprs))
}

func (g *c10Gen) print() string {
	e := g.expr() + g.r.Pick(c10Directives)
	if g.r.Chance(10) {
		return "{print " + e + "}"
	}
	return "{" + e + "}"
}

var c10Tags = []string{
	"<a href=\"foo\">", "<a href=\"bar\">", "<a>", "</a>", "</a >", "<br>", "<br/>", "<br />", "<b>", "</b>", "<i>", "</i>", "<p>", "</p>", "<img src=\"x.png\"/>",
	"<img src='y.png'>", "<h1>", "</h1>", "<DIV class=\"c\">", "</DIV>", "<Em>", "<li>", "<ol>", "<ul>", "<x-y>", "<1>", "<a1b>", "<span\tid=q>", "<a href=foo phname=\"z\">",
	"<fooBar>", "<foo_bar>", "<b/>", "</br/>",
}

func (g *c10Gen) tag() string {
	if g.r.Chance(8) {
		g.feat["tag:print-inside"] = true
		return "<a href=\"" + g.print() + "\">"
	}
	return g.r.Pick(c10Tags)
}

func (g *c10Gen) cmd() string {
	switch g.r.Intn(4) {
	case 0:
		return "{call .helper /}"
	case 1:
		return "{call .helper}{param p: $" + g.v() + " /}{/call}"
	case 2:
		return "{call .helper}{param p}<b>{$" + g.v() + "}</b>{/param}{/call}"
	default:
		return "{call .helper data=\"all\" /}"
	}
}

func (g *c10Gen) parts(n int, depth int) string {
	var sb strings.Builder
	var pool []string // repeat earlier parts: equal placeholders share a name
	for i := 0; i < n; i++ {
		var p string
		switch {
		case depth > 0 && g.r.Chance(10):
			// only reachable inside a plural case: nested plural
			g.feat["plural:nested"] = true
			p = g.plural(depth - 1)
		case len(pool) > 0 && g.r.Chance(15):
			g.feat["repeat"] = true
			p = g.r.Pick(pool)
		case g.r.Chance(35):
			p = g.text()
		case g.r.Chance(60):
			g.feat["print"] = true
			p = g.print()
			pool = append(pool, p)
		case g.r.Chance(70):
			g.feat["tag"] = true
			p = g.tag()
			pool = append(pool, p)
		default:
			g.feat["cmd"] = true
			p = g.cmd()
			pool = append(pool, p)
		}
		sb.WriteString(p)
	}
	return sb.String()
}

func (g *c10Gen) plural(depth int) string {
	g.feat["plural"] = true
	var val string
	switch g.r.Intn(5) {
	case 0:
		val = "length($" + g.v() + ")"
	case 1:
		val = g.subst(c10RefShapes[g.r.Intn(8)])
	default:
		val = "$" + g.v()
	}
	var sb strings.Builder
	sb.WriteString("{plural " + val + "}")
	used := map[int]bool{}
	for i, nc := 0, g.r.Intn(4); i < nc; i++ {
		c := g.r.Intn(7)
		if g.r.Chance(10) {
			c = 10 + g.r.Intn(1000)
		}
		if used[c] {
			continue
		}
		used[c] = true
		sb.WriteString("{case " + strconv.Itoa(c) + "}" + g.parts(g.r.Intn(4), depth))
	}
	sb.WriteString("{default}" + g.parts(g.r.Intn(5), depth) + "{/plural}")
	return sb.String()
}

// body returns the source of a message body and a mutation of it that changes
// its text only (appends "q" to the last top-level text position).
func (g *c10Gen) body() (body, mutated string) {
	if g.r.Chance(22) {
		val := "$" + g.v()
		inner := g.parts(g.r.Intn(4), 1)
		var cases string
		if g.r.Chance(80) {
			cases = "{case 1}" + g.parts(g.r.Intn(4), 1)
			if g.r.Chance(40) {
				cases += "{case 0}" + g.parts(g.r.Intn(3), 1)
			}
		}
		g.feat["plural"] = true
		if g.r.Chance(40) {
			val = g.subst(c10RefShapes[g.r.Intn(8)])
		} else if g.r.Chance(15) {
			val = "length($" + g.v() + ")"
		}
		return "{plural " + val + "}" + cases + "{default}" + inner + "{/plural}", "{plural " + val + "}" + cases + "{default}" + inner + "q{/plural}"
	}
	n := g.r.Intn(7)
	if g.r.Chance(10) {
		n = 8 + g.r.Intn(12)
	}
	b := g.parts(n, 0)
	return b, b + "q"
}

var c10Meanings = []string{"", "", "", "noun", "verb", "m", "é x", "A trip was taken.", "0"}
var c10Descs = []string{"", "d", "Link to Help", "some description", "é 日本", "NAME", "{NAME}"}

type c10Case struct {
	Body, Mutated string
	Meaning, Desc string
	Vars          []string
	Feat          []string
}

func c10GenCase(r *hx.Rand) c10Case {
	g := &c10Gen{r: r, vars: map[string]bool{}, feat: map[string]bool{}}
	var c c10Case
	c.Body, c.Mutated = g.body()
	c.Meaning = r.Pick(c10Meanings)
	c.Desc = r.Pick(c10Descs)
	c.Vars = c10VarsOf(c.Body)
	for f := range g.feat {
		c.Feat = append(c.Feat, f)
	}
	sort.Strings(c.Feat)
	return c
}

var c10VarRe = regexp.MustCompile(`\$([a-zA-Z_][a-zA-Z0-9_]*)`)

// c10VarsOf lists the variables a body refers to (they become the template's parameters).
func c10VarsOf(body string) []string {
	seen := map[string]bool{}
	var vs []string
	for _, m := range c10VarRe.FindAllStringSubmatch(body, -1) {
		if !seen[m[1]] {
			seen[m[1]] = true
			vs = append(vs, m[1])
		}
	}
	sort.Strings(vs)
	return vs
}

func c10MsgSrc(meaning, desc, body string) string {
	s := "{msg"
	if meaning != "" {
		s += " meaning=" + strconv.Quote(meaning)
	}
	return s + " desc=" + strconv.Quote(desc) + "}" + body + "{/msg}"
}

// c10File builds a file around the message; style selects the surroundings.
// It returns the source and the index of the message among the file's messages.
func c10File(c c10Case, style int, meaning, desc, body string) (string, int) {
	doc := "/**\n"
	for _, v := range c.Vars {
		doc += " * @param? " + v + "\n"
	}
	doc += " */\n"
	helper := "\n/** @param? p */\n{template .helper}\nh{$p}\n{/template}\n"
	msg := c10MsgSrc(meaning, desc, body)
	uses := ""
	for _, v := range c.Vars {
		uses += "{$" + v + "}"
	}
	switch style {
	case 1: // other code around the message
		return "{namespace c10.ns}\n\n/** */\n{template .first}\nfirst {sp} template\n{/template}\n" + helper + "\n" + doc + "{template .t}\n<div>" + uses +
			"{if true}yes{/if}\n" + msg + "\n{foreach $i in [1,2]}{$i}{/foreach}</div>\n{/template}\n", 0
	case 2: // other messages before and after, in this and in other templates
		other1 := c10MsgSrc("", "first", "Other message {$q.x}{$r.x}{$x_1} <a>link</a>")
		other2 := c10MsgSrc(meaning, "same meaning", c.Mutated)
		other3 := c10MsgSrc("verb", "third", "{plural $q}{case 1}one{default}{$q} many{/plural}")
		return "{namespace c10.ns}\n\n/**\n * @param? q\n * @param? r\n * @param? x_1\n */\n{template .before}\n" + other1 + "\n{/template}\n" + helper + "\n" + doc +
			"{template .t}\n" + other2 + "\n" + msg + "\n" + c10MsgSrc("", desc, "Help") + "\n{/template}\n\n/** @param? q */\n{template .after}\n" + other3 + "\n{/template}\n", 2
	case 3: // the message inside a {param} block of a call
		return "{namespace c10.ns}\n\n" + doc + "{template .t}\n{call .helper}{param p}" + msg + "{/param}{/call}\n{/template}\n" + helper, 0
	case 4: // inside a {let} block, itself inside if / foreach / switch
		return "{namespace c10.ns}\n\n" + doc + "{template .t}\n{if true}{foreach $i in [1]}{switch $i}{case 1}{let $l}" + msg + "{/let}{$l}{default}d{/switch}{/foreach}{/if}\n{/template}\n" + helper, 0
	case 5: // inside {log}, {ifempty}, {elseif} and a param block nested in a param block
		return "{namespace c10.ns}\n\n" + doc + "{template .t}\n{if false}n{elseif true}{foreach $i in []}x{ifempty}{call .helper}{param p}{call .helper}{param p}{log}" + c10MsgSrc("", "logged", "Logged") + "{/log}" + msg +
			"{/param}{/call}{/param}{/call}{/foreach}{/if}\n{/template}\n" + helper, 1
	}
	return "{namespace c10.ns}\n\n" + doc + "{template .t}\n" + msg + "\n{/template}\n" + helper, 0
}

// ---------- worker: compile in a fresh process ----------

type c10Job struct {
	Src string `json:"src"` // hex
	Idx int    `json:"idx"`
}

// c10Wire is c10Obs with byte strings in hex (JSON would mangle invalid UTF-8).
func c10ToWire(o c10Obs) c10Obs {
	w := c10Obs{ID: o.ID, PhStr: hx.H(o.PhStr), Err: o.Err, Names: []string{}}
	for _, n := range o.Names {
		w.Names = append(w.Names, hx.H(n))
	}
	return w
}
func c10FromWire(w c10Obs) c10Obs {
	o := c10Obs{ID: w.ID, PhStr: hx.UnH(w.PhStr), Err: w.Err, Names: []string{}}
	for _, n := range w.Names {
		o.Names = append(o.Names, hx.UnH(n))
	}
	return o
}

func c10Worker(args []string) {
	if len(args) != 2 {
		os.Exit(2)
	}
	bs, err := os.ReadFile(args[0])
	if err != nil {
		os.Exit(2)
	}
	var jobs []c10Job
	if json.Unmarshal(bs, &jobs) != nil {
		os.Exit(2)
	}
	res := make([]c10Obs, len(jobs))
	for i, j := range jobs {
		o, _ := c10CompileObserve(hx.UnH(j.Src), j.Idx)
		res[i] = c10ToWire(o)
	}
	out, _ := json.Marshal(res)
	if os.WriteFile(args[1], out, 0o644) != nil {
		os.Exit(2)
	}
}

func c10RunWorker(e *env, jobs []c10Job, tag string) ([]c10Obs, error) {
	dir, err := os.MkdirTemp("", "c10w")
	if err != nil {
		return nil, err
	}
	defer os.RemoveAll(dir)
	in, out := dir+"/in-"+tag+".json", dir+"/out-"+tag+".json"
	bs, _ := json.Marshal(jobs)
	if err := os.WriteFile(in, bs, 0o644); err != nil {
		return nil, err
	}
	ctx, cancel := context.WithTimeout(context.Background(), 120*time.Second)
	defer cancel()
	if o, err := exec.CommandContext(ctx, e.self, "worker", "c10", in, out).CombinedOutput(); err != nil {
		return nil, fmt.Errorf("%v: %s", err, o)
	}
	rb, err := os.ReadFile(out)
	if err != nil {
		return nil, err
	}
	var res []c10Obs
	if err := json.Unmarshal(rb, &res); err != nil || len(res) != len(jobs) {
		return nil, fmt.Errorf("worker result unreadable")
	}
	for i := range res {
		res[i] = c10FromWire(res[i])
	}
	return res, nil
}

// ---------- the check ----------

func runC10(e *env) {
	e.res.Rule = "byte level: hash32/fingerprint on byte strings of every length 0..40 (all tail cases) and random longer ones, toUpperUnderscore on all strings of length <=5 over {a,B,1,_,z,Z,9} plus random identifiers. Message level: generated {msg} bodies (text of any bytes, prints over ~60 expression shapes with favoured colliding base names, HTML tags, commands, plurals incl. nested, meanings, descriptions), each compiled 30x in process + 2 fresh processes + 2 other surroundings + 1 other description + text and meaning mutations. Non-trivial = message with at least one placeholder (message level) / non-empty input (byte level); distinct by message source."
	if e.replay != "" {
		c10Replay(e)
		return
	}
	c10Bytes(e)
	c10Messages(e)
}

func c10Bytes(e *env) {
	var strs []string
	for n := 0; n <= 75; n++ {
		for k := 0; k < 4; k++ {
			bs := make([]byte, n)
			for i := range bs {
				switch k {
				case 0:
					bs[i] = byte(e.rng.Intn(256))
				case 1:
					bs[i] = 0xff
				case 2:
					bs[i] = 0
				default:
					bs[i] = "Hello {NAME}, a trip was taken."[e.rng.Intn(31)]
				}
			}
			strs = append(strs, string(bs))
		}
	}
	for i := 0; i < 300*e.scale; i++ {
		bs := make([]byte, e.rng.Intn(200))
		for j := range bs {
			bs[j] = byte(e.rng.Intn(256))
		}
		strs = append(strs, string(bs))
	}
	strs = append(strs, "Archive", "A trip was taken.", "NAME took a trip to DESTINATION.")
	var reqs []string
	seeds := []uint32{0, 102072, 1, 0xffffffff, 0x9e3779b9}
	for _, s := range strs {
		reqs = append(reqs, "fingerprint "+hx.H(s))
		for _, c := range seeds {
			reqs = append(reqs, "hash32 "+hx.H(s)+" "+hx.I(int64(c)))
		}
	}
	resp := e.m.Batch(reqs)
	k := 0
	for i, s := range strs {
		e.res.Count("fp:"+s, len(s) > 0, "bytes:fingerprint")
		fp := soymsg.VerifFingerprint([]byte(s))
		if ref := c10RefFingerprint([]byte(s)); ref != fp {
			e.res.Fail(hx.Violation{Kind: "oracle", What: "the fingerprint is not the official Soy algorithm's (independent transcription of Jenkins' lookup2 as in SoyMsgIdComputer), so ids no longer match extracted catalogues",
				Case: map[string]string{"kind": "fingerprint", "input": hx.Q(s), "length": fmt.Sprint(len(s))}, Expected: strconv.FormatUint(ref, 10), Observed: strconv.FormatUint(fp, 10)}, "")
		}
		if got := resp[k][0]; got != "#"+strconv.FormatUint(fp, 10) {
			e.res.Fail(hx.Violation{Kind: "mismatch", What: "model fingerprint differs from soymsg.fingerprint", Case: map[string]string{"kind": "fingerprint", "input": hx.Q(s)},
				Expected: got, Observed: strconv.FormatUint(fp, 10)}, "")
		}
		k++
		for _, c := range seeds {
			h := soymsg.VerifHash32([]byte(s), c)
			if got := resp[k][0]; got != "#"+strconv.FormatUint(uint64(h), 10) {
				e.res.Fail(hx.Violation{Kind: "mismatch", What: "model hash32 differs from soymsg.hash32", Case: map[string]string{"kind": "hash32", "input": hx.Q(s), "seed": fmt.Sprint(c)},
					Expected: got, Observed: fmt.Sprint(h)}, "")
			}
			k++
		}
		if i%97 == 0 {
			e.res.Sample(map[string]string{"kind": "fingerprint", "input": hx.Q(s), "fingerprint": strconv.FormatUint(fp, 10)})
		}
	}
	// toUpperUnderscore
	var ids []string
	alpha := []string{"a", "B", "1", "_", "z", "Z", "9"}
	var rec func(p string, d int)
	rec = func(p string, d int) {
		ids = append(ids, p)
		if d == 0 {
			return
		}
		for _, a := range alpha {
			rec(p+a, d-1)
		}
	}
	rec("", 5)
	for i := 0; i < 500*e.scale; i++ {
		n := 1 + e.rng.Intn(14)
		var sb strings.Builder
		for j := 0; j < n; j++ {
			sb.WriteByte("abcXYZ019__qQ"[e.rng.Intn(13)])
		}
		ids = append(ids, sb.String())
	}
	reqs = reqs[:0]
	for _, s := range ids {
		reqs = append(reqs, "tuu "+hx.H(s))
	}
	resp = e.m.Batch(reqs)
	for i, s := range ids {
		e.res.Count("tuu:"+s, len(s) > 0, "bytes:toUpperUnderscore")
		want := soymsg.VerifToUpperUnderscore(s)
		if got := hx.UnH(resp[i][0]); got != want {
			e.res.Fail(hx.Violation{Kind: "mismatch", What: "model to_upper_underscore differs from toUpperUnderscore", Case: map[string]string{"kind": "toUpperUnderscore", "input": hx.Q(s)},
				Expected: hx.Q(got), Observed: hx.Q(want)}, "")
		}
	}
}

// corpus: small messages checked first (the tests' examples and the shapes of
// the recorded defects M1 and M2)
var c10Corpus = []c10Case{
	{Body: "{$a.x}{$b.x}{$x_1}", Vars: []string{"a", "b", "x_1"}},
	{Body: "{$x_1}{$a.x}{$b.x}", Vars: []string{"a", "b", "x_1"}},
	{Body: "{$a.x}{$b.x}{$x_1}{$c.x_1}", Vars: []string{"a", "b", "c", "x_1"}},
	{Body: "{$a.x}{$b.x}{$c.x_2}{$x_1}", Vars: []string{"a", "b", "c", "x_1"}},
	{Body: "{['a':1,'b':2,'c':3]}{['a':1,'b':2,'c':3]}"},
	{Body: "{['a':1,'b':2,'c':3]} and {['c':3,'b':2,'a':1]}"},
	{Body: "Archive", Meaning: "noun", Desc: "The word 'Archive' used as a noun, i.e. an information store."},
	{Body: "Archive", Meaning: "verb"},
	{Body: "A trip was taken."},
	{Body: "{$name} took a trip to {$destination}.", Vars: []string{"destination", "name"}},
	{Body: "{plural $eggs}{case 1}You have one egg{default}You have {$eggs} eggs{/plural}", Vars: []string{"eggs"}, Desc: "The number of eggs you need."},
	{Body: "{$a} {$b.a}", Vars: []string{"a", "b"}},
	{Body: "<a href=foo>Click</a> <a href=bar>here</a >"},
	{Body: "<br><br/><br/>"},
	{Body: "Hello NAME"},
	{Body: "Hello {$name}", Vars: []string{"name"}},
	{Body: ""},
	{Body: "{plural $a}{case 1}x{plural $b}{case 2}{$c}{default}z{$b}{/plural}{default}y{$b}{/plural}", Vars: []string{"a", "b", "c"}},
}

func c10Messages(e *env) {
	n := 600 * e.scale
	cases := append([]c10Case{}, c10Corpus...)
	for i := range cases {
		if cases[i].Mutated == "" {
			if strings.HasSuffix(cases[i].Body, "{/plural}") {
				cases[i].Mutated = strings.TrimSuffix(cases[i].Body, "{/plural}") + "q{/plural}"
			} else {
				cases[i].Mutated = cases[i].Body + "q"
			}
		}
	}
	for i := 0; i < n; i++ {
		cases = append(cases, c10GenCase(e.rng))
	}
	type pend struct {
		c     c10Case
		src   string
		first c10Obs
		reqIx int
		bases []string
		skip  bool
	}
	ps := make([]*pend, len(cases))
	var jobs []c10Job
	var jobOf []int
	var reqs []string
	compileErrs := 0
	for i, c := range cases {
		p := &pend{c: c, reqIx: -1}
		ps[i] = p
		p.src, _ = c10File(c, 0, c.Meaning, c.Desc, c.Body)
		caseJSON := map[string]interface{}{"kind": "msg", "src": p.src, "src_hex": hx.H(p.src), "idx": 0, "body": c.Body, "meaning": c.Meaning}
		first, node := c10CompileObserve(p.src, 0)
		p.first = first
		if strings.HasPrefix(first.Err, "compile:") {
			// the generator produced something the parser or checker rejects: not a C10 matter
			compileErrs++
			e.res.Histogram["skipped:compile-error"]++
			if compileErrs <= 3 {
				e.res.Note("skipped (does not compile): %s -- %s", hx.Q(c.Body), first.Err)
			}
			p.skip = true
			continue
		}
		class := "msg:plain"
		nontrivial := len(first.Names) > 0
		if nontrivial {
			class = "msg:placeholders"
		}
		if strings.Contains(c.Body, "{plural") {
			class = "msg:plural"
		}
		e.res.Count("m:"+c.Meaning+"|"+c.Body, nontrivial, class)
		for _, f := range c.Feat {
			e.res.Histogram["feature:"+f]++
		}
		if i%41 == 0 {
			e.res.Sample(map[string]interface{}{"kind": "msg", "body": hx.Q(c.Body), "meaning": c.Meaning, "id": strconv.FormatUint(first.ID, 10), "placeholder_string": hx.Q(first.PhStr)})
		}
		if first.Err != "" {
			e.res.Fail(hx.Violation{Kind: "oracle", What: "panic while reading the compiled message", Case: caseJSON, Observed: first.Err}, "")
			p.skip = true
			continue
		}
		// ---- oracle 1: repeated compilation in this process ----
		stable := true
		for rep := 1; rep < c10Reps; rep++ {
			o, _ := c10CompileObserve(p.src, 0)
			if o.key() != first.key() {
				e.res.Fail(hx.Violation{Kind: "oracle", What: "two compilations of the same source give different message id / placeholder names",
					Case: caseJSON, Expected: first, Observed: o}, "")
				stable = false
				break
			}
		}
		if !stable {
			p.skip = true
			continue
		}
		// ---- oracle 2: id < 2^63 ----
		if first.ID >= 1<<63 {
			e.res.Fail(hx.Violation{Kind: "oracle", What: "message id has the top bit set", Case: caseJSON, Observed: first.ID}, "")
		}
		// ---- oracle 3: names follow the official rule ----
		problem, vmax := c10Official(node)
		if vmax > 1 {
			e.res.Histogram["feature:base-name-shared-by-distinct-placeholders"]++
		}
		if problem != "" {
			e.res.Fail(hx.Violation{Kind: "oracle", What: "placeholder names do not follow the official rule: " + problem, Case: caseJSON, Observed: first}, "")
			p.skip = true
			continue
		}
		// ---- oracle 4: independence from description, surrounding code, other messages ----
		otherDesc := c.Desc + " (reworded)"
		variants := []struct {
			what        string
			style       int
			desc        string
			meaning     string
			body        string
			mustDiffer  bool
		}{
			{"the description changed", 0, otherDesc, c.Meaning, c.Body, false},
			{"the code around the message changed", 1, c.Desc, c.Meaning, c.Body, false},
			{"other messages were added to the file", 2, c.Desc, c.Meaning, c.Body, false},
			{"the message was moved into a {param} block of a call", 3, c.Desc, c.Meaning, c.Body, false},
			{"the message was moved into a {let} block nested in if/foreach/switch", 4, c.Desc, c.Meaning, c.Body, false},
			{"the message was moved into nested param blocks after a {log} with another message", 5, c.Desc, c.Meaning, c.Body, false},
			{"the text changed", 0, c.Desc, c.Meaning, c.Mutated, true},
			{"the meaning changed", 0, c.Desc, c.Meaning + "q", c.Body, true},
		}
		for _, v := range variants {
			src, idx := c10File(c, v.style, v.meaning, v.desc, v.body)
			o, _ := c10CompileObserve(src, idx)
			vcase := map[string]interface{}{"kind": "msg-variant", "src": p.src, "src_hex": hx.H(p.src), "idx": 0, "variant_src": src, "variant_src_hex": hx.H(src), "variant_idx": idx, "variant": v.what}
			if strings.HasPrefix(o.Err, "compile:") {
				e.res.Histogram["skipped:variant-compile-error"]++
				continue
			}
			if !v.mustDiffer && (o.ID != first.ID || o.PhStr != first.PhStr) {
				e.res.Fail(hx.Violation{Kind: "oracle", What: "message id changed although only " + v.what, Case: vcase, Expected: first, Observed: o}, "")
			}
			if v.mustDiffer && o.ID == first.ID {
				e.res.Fail(hx.Violation{Kind: "oracle", What: "message id did not change although " + v.what, Case: vcase, Expected: "an id other than " + strconv.FormatUint(first.ID, 10), Observed: o}, "")
			}
		}
		// ---- model request ----
		okShape := true
		var bases []string
		toks := c10EncParts(node.Body.Children(), &bases, &okShape)
		if okShape {
			p.bases = bases
			p.reqIx = len(reqs)
			reqs = append(reqs, "msg "+hx.H(node.Meaning)+" "+hx.H(node.Desc)+" "+strings.Join(toks, " "))
		} else {
			e.res.Histogram["skipped:unmodelled-child"]++
		}
		jobOf = append(jobOf, i)
		jobs = append(jobs, c10Job{hx.H(p.src), 0})
	}
	if compileErrs > 0 {
		e.res.Note("%d generated messages did not compile and were skipped", compileErrs)
	}
	// ---- oracle 5: fresh processes ----
	for w := 0; w < 2; w++ {
		obs, err := c10RunWorker(e, jobs, strconv.Itoa(w))
		if err != nil {
			e.res.Fail(hx.Violation{Kind: "obligation", What: "C10 worker process failed: " + err.Error(), Case: map[string]string{"kind": "worker"}}, "")
			break
		}
		for k, o := range obs {
			p := ps[jobOf[k]]
			if p.skip {
				continue
			}
			e.res.Histogram["fresh-process-compilations"]++
			if o.key() != p.first.key() {
				e.res.Fail(hx.Violation{Kind: "oracle", What: "a fresh process gives a different message id / placeholder names for the same source",
					Case: map[string]interface{}{"kind": "msg", "src": p.src, "src_hex": hx.H(p.src), "idx": 0, "body": p.c.Body}, Expected: p.first, Observed: o}, "")
				p.skip = true
			}
		}
	}
	// ---- correspondence with the model ----
	resp := e.m.Batch(reqs)
	for _, p := range ps {
		if p.skip || p.reqIx < 0 {
			continue
		}
		r := resp[p.reqIx]
		caseJSON := map[string]interface{}{"kind": "msg", "src": p.src, "src_hex": hx.H(p.src), "idx": 0, "body": p.c.Body, "meaning": p.c.Meaning, "model_request": reqs[p.reqIx]}
		if len(r) < 5 || r[0] != "ok" {
			e.res.Fail(hx.Violation{Kind: "mismatch", What: "the model does not produce an id for this message", Case: caseJSON, Expected: strings.Join(r, " "), Observed: p.first}, "")
			continue
		}
		mo := c10Obs{PhStr: hx.UnH(r[2]), Names: []string{}}
		mo.ID, _ = strconv.ParseUint(strings.TrimPrefix(r[1], "#"), 10, 64)
		nn := int(hx.UnI(r[4]))
		for _, f := range r[5 : 5+nn] {
			mo.Names = append(mo.Names, hx.UnH(f))
		}
		var mbases []string
		nb := int(hx.UnI(r[5+nn]))
		for _, f := range r[6+nn : 6+nn+nb] {
			mbases = append(mbases, hx.UnH(f))
		}
		if fmt.Sprintf("%q", mbases) != fmt.Sprintf("%q", p.bases) {
			e.res.Fail(hx.Violation{Kind: "mismatch", What: "model base names differ from genBasePlaceholderName", Case: caseJSON, Expected: mbases, Observed: p.bases}, "")
			continue
		}
		if mo.key() != p.first.key() {
			e.res.Fail(hx.Violation{Kind: "mismatch", What: "model id / names / PlaceholderString differ from the implementation", Case: caseJSON, Expected: mo, Observed: p.first}, "")
		}
	}
}

// c10Replay re-runs the case of a replay file.
func c10Replay(e *env) {
	bs, err := os.ReadFile(e.replay)
	if err != nil {
		e.res.Fail(hx.Violation{Kind: "obligation", What: "cannot read replay: " + err.Error(), Case: e.replay}, "")
		return
	}
	var rp struct {
		Case struct {
			Kind       string `json:"kind"`
			Src        string `json:"src"`
			SrcHex     string `json:"src_hex"`
			VarHex     string `json:"variant_src_hex"`
			Idx        int    `json:"idx"`
			VariantSrc string `json:"variant_src"`
			VariantIdx int    `json:"variant_idx"`
			Variant    string `json:"variant"`
		} `json:"case"`
	}
	if err := json.Unmarshal(bs, &rp); err != nil || rp.Case.Src == "" {
		e.res.Fail(hx.Violation{Kind: "obligation", What: "replay file has no message case", Case: e.replay}, "")
		return
	}
	c := rp.Case
	if c.SrcHex != "" {
		c.Src = hx.UnH(c.SrcHex)
	}
	if c.VarHex != "" {
		c.VariantSrc = hx.UnH(c.VarHex)
	}
	caseJSON := map[string]interface{}{"kind": c.Kind, "src": c.Src, "src_hex": hx.H(c.Src), "idx": c.Idx}
	first, node := c10CompileObserve(c.Src, c.Idx)
	e.res.Count("replay", true, "replay")
	if first.Err != "" {
		e.res.Fail(hx.Violation{Kind: "oracle", What: "replayed message does not compile or panics", Case: caseJSON, Observed: first.Err}, "")
		return
	}
	seen := map[string]int{first.key(): 1}
	for i := 1; i < 400; i++ {
		o, _ := c10CompileObserve(c.Src, c.Idx)
		seen[o.key()]++
	}
	if len(seen) > 1 {
		e.res.Fail(hx.Violation{Kind: "oracle", What: "two compilations of the same source give different message id / placeholder names", Case: caseJSON, Observed: seen}, "")
		return
	}
	if problem, _ := c10Official(node); problem != "" {
		e.res.Fail(hx.Violation{Kind: "oracle", What: "placeholder names do not follow the official rule: " + problem, Case: caseJSON, Observed: first}, "")
		return
	}
	if c.VariantSrc != "" {
		o, _ := c10CompileObserve(c.VariantSrc, c.VariantIdx)
		differ := strings.Contains(c.Variant, "text changed") || strings.Contains(c.Variant, "meaning changed")
		if !differ && (o.ID != first.ID || o.PhStr != first.PhStr) {
			e.res.Fail(hx.Violation{Kind: "oracle", What: "message id changed although only " + c.Variant, Case: caseJSON, Expected: first, Observed: o}, "")
		}
		if differ && o.ID == first.ID {
			e.res.Fail(hx.Violation{Kind: "oracle", What: "message id did not change although " + c.Variant, Case: caseJSON, Observed: o}, "")
		}
	}
	if e.m != nil {
		ok := true
		var bases []string
		toks := c10EncParts(node.Body.Children(), &bases, &ok)
		if ok {
			r := e.m.Call("msg", hx.H(node.Meaning), hx.H(node.Desc), strings.Join(toks, " "))
			if len(r) < 3 || r[0] != "ok" || r[1] != "#"+strconv.FormatUint(first.ID, 10) || hx.UnH(r[2]) != first.PhStr {
				e.res.Fail(hx.Violation{Kind: "mismatch", What: "model id / PlaceholderString differ from the implementation", Case: caseJSON, Expected: strings.Join(r, " "), Observed: first}, "")
			}
		}
	}
}
