//go:build c09

package main

// C09, second part of the harness:
//
//   * the tie of the access-logging JavaScript generator (Generated/JsGenTrace.v,
//     derived from the text of Model/JsGen.v; op jsgen_traced) to the generator
//     model itself (op jsgen): same outcome class and the same text on every
//     file of every case, in both formatters; its log holds tree reads and
//     accesses to the generator's own record only.  The text of soyjs.Write is
//     compared too, but only counted: that correspondence is C14's / C04's
//     obligation and the model describes the tree after their repairs;
//   * the package-level state enumerated by tablegen (tables.json: pkg_vars,
//     pkg_var_writes, pkg_var_methods, shared_type_writes) goes into the
//     evidence.  That it EQUALS the reviewed lists is a proof obligation
//     (Proofs/ConcGlobalsProofs.v), not something this file decides.

import (
	"bytes"
	"encoding/json"
	"fmt"
	"os"
	"sort"
	"strings"

	"github.com/robfig/soy/ast"
	"github.com/robfig/soy/soyjs"
	"soyverif/internal/hx"
)

func c09JsTraceTie(e *env, bt *c09Built) {
	if e.m == nil || bt.reg == nil {
		return
	}
	for _, sf := range bt.reg.SoyFiles {
		for _, es6 := range []bool{false, true} {
			c09JsTraceOne(e, bt, sf, es6)
		}
	}
}

func c09JsTraceOne(e *env, bt *c09Built, sf *ast.SoyFileNode, es6 bool) {
	f := "#5"
	if es6 {
		f = "#6"
	}
	sexp := c09JsFileSexp(sf)
	plain := e.m.Call("jsgen", f, "#100000", sexp)
	traced := e.m.Call("jsgen_traced", f, "#100000", sexp)
	if len(plain) == 0 || len(traced) == 0 {
		e.res.Histogram["jstrace-model-call-failed"]++
		return
	}
	e.res.Histogram["jstrace-files"]++
	kase := map[string]interface{}{"file": sf.Name, "es6": es6, "files": bt.c.Files}
	if plain[0] != traced[0] {
		e.res.Fail(hx.Violation{Kind: "mismatch", What: "the access-logging generator (Generated/JsGenTrace.v) and Model/JsGen.v disagree on the outcome class", Case: kase, Expected: plain[0], Observed: traced[0]}, "")
		return
	}
	e.res.Histogram["jstrace-"+plain[0]]++
	if plain[0] != "ok" {
		return
	}
	if len(plain) < 2 || len(traced) < 6 {
		e.res.Histogram["jstrace-short-answer"]++
		return
	}
	if plain[1] != traced[1] {
		e.res.Fail(hx.Violation{Kind: "mismatch", What: "the access-logging generator (Generated/JsGenTrace.v) and Model/JsGen.v generate different text", Case: kase, Expected: clip(hx.UnH(plain[1])), Observed: clip(hx.UnH(traced[1]))}, "")
		return
	}
	var rd, own, wr, sw int
	fmt.Sscanf(traced[2], "#%d", &rd)
	fmt.Sscanf(traced[3], "#%d", &own)
	fmt.Sscanf(traced[4], "#%d", &wr)
	fmt.Sscanf(traced[5], "#%d", &sw)
	e.res.Histogram["jstrace tree reads"] += rd
	e.res.Histogram["jstrace own reads"] += own
	e.res.Histogram["jstrace own writes"] += wr
	if sw != 0 {
		e.res.Fail(hx.Violation{Kind: "mismatch", What: "the access-logging generator logged a write to shared memory", Case: kase, Observed: traced[5]}, "")
	}
	if rd == 0 || wr == 0 {
		e.res.Histogram["jstrace-empty-log"]++
	}
	// the real generator on the same tree, without a bundle (informational)
	if out, err := c09JsWrite(sf, es6); err == nil {
		if out == hx.UnH(plain[1]) {
			e.res.Histogram["jstrace-go-text-equal"]++
		} else {
			e.res.Histogram["jstrace-go-text-differs(C14/C04's obligation)"]++
		}
	}
}

// the request of ops jsgen / jsgen_traced for one file, without translations (as jsgen_common.go builds it for C14 / C04)
func c09JsFileSexp(sf *ast.SoyFileNode) string {
	ids := newIDTable()
	return strings.TrimSpace("(jsfile "+sx(sf.Name)+" none "+nodesSexp(sf.Body, ids)) + ")"
}

func c09JsWrite(sf *ast.SoyFileNode, es6 bool) (out string, err error) {
	defer func() {
		if r := recover(); r != nil {
			err = fmt.Errorf("PANIC: %v", r)
		}
	}()
	var buf bytes.Buffer
	o := soyjs.Options{}
	if es6 {
		o.Formatter = soyjs.ES6Formatter{}
	}
	err = soyjs.Write(&buf, sf, o)
	return buf.String(), err
}

// c09PackageState copies the enumerated package-level state into the evidence.
func c09PackageState(e *env) {
	if e.tables == "" {
		return
	}
	bs, err := os.ReadFile(e.tables)
	if err != nil {
		return
	}
	var t struct {
		Vars []struct{ Dir, Name, Kind string } `json:"pkg_vars"`
		W    []struct {
			Dir, Func, Var, Kind, File string
			Line                       int
		} `json:"pkg_var_writes"`
		M []struct {
			Dir, Func, Var, Kind, File string
			Line                       int
		} `json:"pkg_var_methods"`
		S []struct {
			Dir, Func, Var, Kind, File string
			Line                       int
		} `json:"shared_type_writes"`
	}
	if json.Unmarshal(bs, &t) != nil {
		return
	}
	kinds := map[string]int{}
	for _, v := range t.Vars {
		kinds[v.Kind]++
	}
	var ks []string
	for k, n := range kinds {
		ks = append(ks, fmt.Sprintf("%s %d", k, n))
	}
	sort.Strings(ks)
	e.res.Histogram["package-level variables (source)"] += len(t.Vars)
	e.res.Histogram["writes to package-level variables (source)"] += len(t.W)
	e.res.Histogram["method calls on package-level variables (source)"] += len(t.M)
	e.res.Histogram["writes through tree/registry/bundle types in soyhtml, soyjs, template (source)"] += len(t.S)
	var ws []string
	for _, w := range t.W {
		ws = append(ws, fmt.Sprintf("%s.%s %s in %s (%s:%d)", w.Dir, w.Var, w.Kind, w.Func, w.File, w.Line))
	}
	var ss []string
	for _, w := range t.S {
		ss = append(ss, fmt.Sprintf("%s %s in %s (%s:%d)", w.Var, w.Kind, w.Func, w.File, w.Line))
	}
	e.res.Note("package-level state enumerated from the source (tied to the reviewed lists by Proofs/ConcGlobalsProofs.v): %d variables by kind: %s; writes: %s; writes through shared types: %s",
		len(t.Vars), strings.Join(ks, ", "), strings.Join(ws, "; "), strings.Join(ss, "; "))
}
