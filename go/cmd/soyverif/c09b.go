//go:build c09

package main

// C09, second part of the harness:
//
//   * the tie of the access-logging JavaScript generator (Generated/JsGenTrace.v,
//     derived from the text of Model/JsGen.v; op jsgen_traced) to the generator
//     model itself (op jsgen): same outcome class and the same text on every
//     file of every case, in both formatters; its log holds tree reads and
//     accesses to the generator's own record only.  Since wave 3 the equality
//     of the two is a THEOREM (Generated/JsGenSim.v, C09_jsgen_traced_is_model);
//     running both remains as a check of extraction and of the op itself.  The text of soyjs.Write is
//     compared too, but only counted: that correspondence is C14's / C04's
//     obligation and the model describes the tree after their repairs;
//   * the package-level state enumerated by tablegen (tables.json: pkg_vars,
//     pkg_var_writes, pkg_var_methods, shared_type_writes) goes into the
//     evidence.  That it EQUALS the reviewed lists is a proof obligation
//     (Proofs/ConcGlobalsProofs.v), not something this file decides.

import (
	"bytes"
	"encoding/json"
	"fmt"
	"os"
	"sort"
	"strings"

	"github.com/robfig/soy/ast"
	"github.com/robfig/soy/soyjs"
	"soyverif/internal/hx"
)

func c09JsTraceTie(e *env, bt *c09Built) {
	if e.m == nil || bt.reg == nil {
		return
	}
	for _, sf := range bt.reg.SoyFiles {
		for _, es6 := range []bool{false, true} {
			c09JsTraceOne(e, bt, sf, es6)
		}
	}
}

func c09JsTraceOne(e *env, bt *c09Built, sf *ast.SoyFileNode, es6 bool) {
	f := "#5"
	if es6 {
		f = "#6"
	}
	sexp := c09JsFileSexp(sf)
	plain := e.m.Call("jsgen", f, "#100000", sexp)
	traced := e.m.Call("jsgen_traced", f, "#100000", sexp)
	if len(plain) == 0 || len(traced) == 0 {
		e.res.Histogram["jstrace-model-call-failed"]++
		return
	}
	e.res.Histogram["jstrace-files"]++
	kase := map[string]interface{}{"file": sf.Name, "es6": es6, "files": bt.c.Files}
	if plain[0] != traced[0] {
		e.res.Fail(hx.Violation{Kind: "mismatch", What: "the access-logging generator (Generated/JsGenTrace.v) and Model/JsGen.v disagree on the outcome class", Case: kase, Expected: plain[0], Observed: traced[0]}, "")
		return
	}
	e.res.Histogram["jstrace-"+plain[0]]++
	if len(traced) < 6 {
		e.res.Histogram["jstrace-short-answer"]++
		return
	}
	var rd, own, wr, sw int
	fmt.Sscanf(traced[2], "#%d", &rd)
	fmt.Sscanf(traced[3], "#%d", &own)
	fmt.Sscanf(traced[4], "#%d", &wr)
	fmt.Sscanf(traced[5], "#%d", &sw)
	if sw != 0 {
		e.res.Fail(hx.Violation{Kind: "mismatch", What: "the access-logging generator logged a write to shared memory", Case: kase, Observed: traced[5]}, "")
	}
	if plain[0] != "ok" {
		// a failing generation keeps its log (the accesses up to the failure)
		e.res.Histogram["jstrace failing runs: tree reads"] += rd
		e.res.Histogram["jstrace failing runs: own writes"] += wr
		if rd == 0 {
			e.res.Histogram["jstrace-empty-log-on-failure"]++
		}
		if (plain[0] == "err" || plain[0] == "crash") && len(plain) > 1 && plain[1] != traced[1] {
			e.res.Fail(hx.Violation{Kind: "mismatch", What: "the access-logging generator (Generated/JsGenTrace.v) and Model/JsGen.v fail differently", Case: kase, Expected: hx.UnH(plain[1]), Observed: hx.UnH(traced[1])}, "")
		}
		return
	}
	if len(plain) < 2 {
		e.res.Histogram["jstrace-short-answer"]++
		return
	}
	if plain[1] != traced[1] {
		e.res.Fail(hx.Violation{Kind: "mismatch", What: "the access-logging generator (Generated/JsGenTrace.v) and Model/JsGen.v generate different text", Case: kase, Expected: clip(hx.UnH(plain[1])), Observed: clip(hx.UnH(traced[1]))}, "")
		return
	}
	e.res.Histogram["jstrace tree reads"] += rd
	e.res.Histogram["jstrace own reads"] += own
	e.res.Histogram["jstrace own writes"] += wr
	if rd == 0 || wr == 0 {
		e.res.Histogram["jstrace-empty-log"]++
	}
	// the real generator on the same tree, without a bundle (informational)
	if out, err := c09JsWrite(sf, es6); err == nil {
		if out == hx.UnH(plain[1]) {
			e.res.Histogram["jstrace-go-text-equal"]++
		} else {
			e.res.Histogram["jstrace-go-text-differs(C14/C04's obligation)"]++
		}
	}
}

// the request of ops jsgen / jsgen_traced for one file, without translations (as jsgen_common.go builds it for C14 / C04)
func c09JsFileSexp(sf *ast.SoyFileNode) string {
	ids := newIDTable()
	return strings.TrimSpace("(jsfile "+sx(sf.Name)+" none "+nodesSexp(sf.Body, ids)) + ")"
}

func c09JsWrite(sf *ast.SoyFileNode, es6 bool) (out string, err error) {
	defer func() {
		if r := recover(); r != nil {
			err = fmt.Errorf("PANIC: %v", r)
		}
	}()
	var buf bytes.Buffer
	o := soyjs.Options{}
	if es6 {
		o.Formatter = soyjs.ES6Formatter{}
	}
	err = soyjs.Write(&buf, sf, o)
	return buf.String(), err
}

type c09Site struct {
	Dir, Func, Var, Kind, File string
	Line                       int
}
type c09PkgTables struct {
	Vars []struct{ Dir, Name, Kind string } `json:"pkg_vars"`
	W    []c09Site                          `json:"pkg_var_writes"`
	M    []c09Site                          `json:"pkg_var_methods"`
	S    []c09Site                          `json:"shared_type_writes"`
}

func c09LoadPkgTables(e *env) *c09PkgTables {
	if e.tables == "" {
		return nil
	}
	bs, err := os.ReadFile(e.tables)
	if err != nil {
		return nil
	}
	var t c09PkgTables
	if json.Unmarshal(bs, &t) != nil {
		return nil
	}
	return &t
}

// c09PackageStateDiff: SOFT tie.  The lists enumerated from the current sources against the lists recorded
// when the model boundary was reviewed (bin/c09_pkgstate_reviewed.json): the differences, as text.  A
// difference is never an alarm (renaming a regexp or moving code between functions changes the lists); it
// is named in the evidence and makes the race harness search three times as many cases.  The HARD tie --
// no variable of a kind that can hold mutable state, no write outside init, no unreviewed method, no write
// through a shared type outside Registry.Add -- is a proof obligation (Proofs/ConcGlobalsProofs.v).
func c09PackageStateDiff(e *env) []string {
	t := c09LoadPkgTables(e)
	dir := os.Getenv("VERIF_DIR")
	if t == nil || dir == "" {
		return nil
	}
	bs, err := os.ReadFile(dir + "/bin/c09_pkgstate_reviewed.json")
	if err != nil {
		return nil
	}
	var base map[string]json.RawMessage
	if json.Unmarshal(bs, &base) != nil {
		return nil
	}
	cur := map[string][]string{}
	for _, v := range t.Vars {
		cur["pkg_vars"] = append(cur["pkg_vars"], v.Dir+"."+v.Name+" : "+v.Kind)
	}
	add := func(k string, l []c09Site) {
		for _, s := range l {
			cur[k] = append(cur[k], s.Dir+" "+s.Var+" in "+s.Func+": "+s.Kind)
		}
	}
	add("pkg_var_writes", t.W)
	add("pkg_var_methods", t.M)
	add("shared_type_writes", t.S)
	var diffs []string
	for _, k := range []string{"pkg_vars", "pkg_var_writes", "pkg_var_methods", "shared_type_writes"} {
		var rows [][]string
		if json.Unmarshal(base[k], &rows) != nil {
			continue
		}
		was := map[string]bool{}
		for _, r := range rows {
			if k == "pkg_vars" && len(r) == 3 {
				was[r[0]+"."+r[1]+" : "+r[2]] = true
			} else if len(r) == 4 {
				was[r[0]+" "+r[1]+" in "+r[2]+": "+r[3]] = true
			}
		}
		now := map[string]bool{}
		for _, c := range cur[k] {
			now[c] = true
			if !was[c] {
				diffs = append(diffs, "+"+k+" "+c)
			}
		}
		for w := range was {
			if !now[w] {
				diffs = append(diffs, "-"+k+" "+w)
			}
		}
	}
	sort.Strings(diffs)
	return diffs
}

// c09PackageState copies the enumerated package-level state into the evidence.
func c09PackageState(e *env) {
	t := c09LoadPkgTables(e)
	if t == nil {
		return
	}
	kinds := map[string]int{}
	for _, v := range t.Vars {
		kinds[v.Kind]++
	}
	var ks []string
	for k, n := range kinds {
		ks = append(ks, fmt.Sprintf("%s %d", k, n))
	}
	sort.Strings(ks)
	e.res.Histogram["package-level variables (source)"] += len(t.Vars)
	e.res.Histogram["writes to package-level variables (source)"] += len(t.W)
	e.res.Histogram["method calls on package-level variables (source)"] += len(t.M)
	e.res.Histogram["writes through tree/registry/bundle types in soyhtml, soyjs, template (source)"] += len(t.S)
	var ws []string
	for _, w := range t.W {
		ws = append(ws, fmt.Sprintf("%s.%s %s in %s (%s:%d)", w.Dir, w.Var, w.Kind, w.Func, w.File, w.Line))
	}
	var ss []string
	for _, w := range t.S {
		ss = append(ss, fmt.Sprintf("%s %s in %s (%s:%d)", w.Var, w.Kind, w.Func, w.File, w.Line))
	}
	e.res.Note("package-level state enumerated from the source (tied to the reviewed lists by Proofs/ConcGlobalsProofs.v): %d variables by kind: %s; writes: %s; writes through shared types: %s",
		len(t.Vars), strings.Join(ks, ", "), strings.Join(ws, "; "), strings.Join(ss, "; "))
}
