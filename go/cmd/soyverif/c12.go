//go:build c12

package main

// C12 — a failing output writer always surfaces as a render error.
//
// For each generated bundle and data set: the fault-free render against a
// recording writer (the sequence of Write calls), then a render against a
// writer that fails Write call k for EVERY k (once "sticky": every later call
// fails too; once "transient": only call k fails), and a render against a
// short-capacity writer for EVERY byte offset b of the fault-free output.
// Oracle (on the implementation alone): a fault was injected => err != nil and
// the accepted bytes are a prefix of the fault-free output; err == nil => every
// byte of the fault-free output was accepted.  Correspondence: the model's
// render with the same automaton (calls_left / bytes_left) agrees on
// (error?, accepted bytes), and on the fault-free Write call sequence.

import (
	"bytes"
	"encoding/hex"
	"encoding/json"
	"errors"
	"fmt"
	"io"
	"os"
	"sort"
	"strconv"
	"strings"

	"github.com/robfig/soy"
	"github.com/robfig/soy/ast"
	"github.com/robfig/soy/data"
	"github.com/robfig/soy/errortypes"
	"github.com/robfig/soy/soyhtml"
	"github.com/robfig/soy/soyjs"
	"github.com/robfig/soy/soymsg"
	"github.com/robfig/soy/template"
	"soyverif/internal/hx"
)

func init() { props["C12"] = runC12 }

var errInjected = errors.New("injected write failure")

// recWriter records every Write call; it deliberately has no WriteString method.
type recWriter struct{ calls [][]byte }

func (w *recWriter) Write(p []byte) (int, error) {
	w.calls = append(w.calls, append([]byte(nil), p...))
	return len(p), nil
}

// failAt fails Write call number k (0-based); sticky: and every later one.
type failAt struct {
	k      int
	sticky bool
	n      int
	acc    []byte
	failed bool
}

func (w *failAt) Write(p []byte) (int, error) {
	i := w.n
	w.n++
	if i == w.k || (w.sticky && i > w.k) {
		w.failed = true
		return 0, errInjected
	}
	w.acc = append(w.acc, p...)
	return len(p), nil
}

// shortCap accepts left bytes in total; the call that exceeds them is a short write with an error.
type shortCap struct {
	left   int
	acc    []byte
	failed bool
}

func (w *shortCap) Write(p []byte) (int, error) {
	if len(p) <= w.left {
		w.left -= len(p)
		w.acc = append(w.acc, p...)
		return len(p), nil
	}
	n := w.left
	w.acc = append(w.acc, p[:n]...)
	w.left = 0
	w.failed = true
	return n, io.ErrShortWrite
}

func execInto(tofu *soyhtml.Tofu, name string, d data.Map, w io.Writer, msgs soymsg.Bundle) (err error) {
	defer func() {
		if r := recover(); r != nil {
			err = fmt.Errorf("PANIC: %v", r)
		}
	}()
	r := tofu.NewRenderer(name)
	if msgs != nil {
		r = r.WithMessages(msgs)
	}
	return r.Execute(w, d)
}

// c12Msgs is a message bundle that HAS a translation of every message of a registry (flat and {plural}), so
// that rendering goes through evalMsg -> evalMsgParts (its own checked writes, the recursive call for the
// selected plural form, the placeholders walked from inside a translation).  Three styles:
//
//	0 identity   the source parts in source order; every plural form = the parts of one source case
//	1 reordered  the parts in reverse order between a raw-text head and tail (a placeholder is no longer
//	             where the source has it; text before the first and after the last placeholder)
//	2 tail       the source parts followed by raw text (the translation ends in text after its last
//	             placeholder: a refused write there is the last thing the message does)
//
// A plural translation has c12Forms forms, selected by PluralCase(n) = |n| mod c12Forms; form i is built from
// the i-th explicit case of the source (its placeholders are reachable through MsgNode.Placeholder) or from
// the default case.
const c12Forms = 3
const c12PluralTable = 1000 // PluralCase is |n| mod c12Forms for |n| <= this, 0 beyond

type c12Msgs struct {
	msgs  map[uint64]*soymsg.Message
	style int
}

func (b *c12Msgs) Locale() string                    { return "xx" }
func (b *c12Msgs) Message(id uint64) *soymsg.Message { return b.msgs[id] }
func (b *c12Msgs) PluralCase(n int) int {
	if n < -c12PluralTable || n > c12PluralTable {
		return 0 // outside the table the model is given (ops_interpext.ml render_msgs): the default
	}
	if n < 0 {
		n = -n
	}
	return n % c12Forms
}

// c12PartsSexp: the parts of a translation as the nodes Model/Interp.v's msg_bundle holds (raw text, NIdent =
// placeholder name, NMsgPlural var _ forms _ with one NMsgPluralCase per form)
func c12PartsSexp(parts []soymsg.Part) string {
	var out []string
	for _, p := range parts {
		switch p := p.(type) {
		case soymsg.RawTextPart:
			out = append(out, sp("raw", "0", sx(p.Text)))
		case soymsg.PlaceholderPart:
			out = append(out, sp("ident", "0", sx(p.Name)))
		case soymsg.PluralPart:
			var forms []string
			for _, c := range p.Cases {
				forms = append(forms, sp("pcase", "0", "0", "("+c12PartsSexp(c.Parts)+")"))
			}
			out = append(out, sp("plural", "0", sx(p.VarName), sp("null", "0"), "("+strings.Join(forms, " ")+")", "()"))
		}
	}
	return strings.Join(out, " ")
}

func c12BundleSexp(b *c12Msgs) string {
	var ids []uint64
	for id := range b.msgs {
		ids = append(ids, id)
	}
	sort.Slice(ids, func(i, j int) bool { return ids[i] < ids[j] })
	var ms []string
	for _, id := range ids {
		ms = append(ms, "("+strconv.FormatUint(id, 10)+" "+c12PartsSexp(b.msgs[id].Parts)+")")
	}
	return "(bundle " + strings.Join(ms, " ") + ")"
}

func c12Parts(children []ast.Node, style int, tag string) []soymsg.Part {
	var parts []soymsg.Part
	for _, c := range children {
		switch c := c.(type) {
		case *ast.RawTextNode:
			parts = append(parts, soymsg.RawTextPart{Text: string(c.Text)})
		case *ast.MsgPlaceholderNode:
			parts = append(parts, soymsg.PlaceholderPart{Name: c.Name})
		case *ast.MsgPluralNode:
			pp := soymsg.PluralPart{VarName: c.VarName}
			for i := 0; i < c12Forms; i++ {
				body := c.Default.Children()
				if i < len(c.Cases) {
					body = c.Cases[i].Body.Children()
				}
				pp.Cases = append(pp.Cases, soymsg.PluralCase{Spec: soymsg.PluralSpec{Type: soymsg.PluralSpecOther},
					Parts: c12Parts(body, style, fmt.Sprintf("%s.f%d", tag, i))})
			}
			return []soymsg.Part{pp} // a plural is the whole message
		}
	}
	switch style {
	case 1:
		rev := []soymsg.Part{soymsg.RawTextPart{Text: "[" + tag + ":"}}
		for i := len(parts) - 1; i >= 0; i-- {
			rev = append(rev, parts[i])
		}
		return append(rev, soymsg.RawTextPart{Text: "]"})
	case 2:
		return append(parts, soymsg.RawTextPart{Text: " ~" + tag})
	}
	return parts
}

// c12Translate returns the bundle of the given style and whether the registry has a {plural} message.
func c12Translate(reg *template.Registry, style int) (*c12Msgs, bool) {
	out := &c12Msgs{msgs: map[uint64]*soymsg.Message{}, style: style}
	plural := false
	var visit func(n ast.Node)
	visit = func(n ast.Node) {
		if n == nil {
			return
		}
		if m, ok := n.(*ast.MsgNode); ok {
			for _, c := range m.Body.Children() {
				if _, ok := c.(*ast.MsgPluralNode); ok {
					plural = true
				}
			}
			out.msgs[m.ID] = &soymsg.Message{ID: m.ID, Parts: c12Parts(m.Body.Children(), style, "tr")}
		}
		if p, ok := n.(ast.ParentNode); ok {
			for _, c := range p.Children() {
				visit(c)
			}
		}
	}
	for _, f := range reg.SoyFiles {
		visit(f)
	}
	return out, plural
}

type c12Case struct {
	Files    []srcFile `json:"files"`
	Template string    `json:"template"`
	Data     string    `json:"data"`
	Fault    string    `json:"fault"` // "none" | "call:<k>:sticky" | "call:<k>:transient" | "bytes:<b>"
	Msgs     bool      `json:"with_message_bundle,omitempty"`
	Style    int       `json:"bundle_style,omitempty"` // c12Msgs.style
}

func runC12(e *env) {
	e.res.Rule = "bundles from the command grammar (gen_prog.go: depth<=3, 1-5 templates, all call forms, print directives, msg/plural, let/foreach/for/if/switch, css, log) x 2 data sets (a quarter of the bundles with ill-typed operands, so that the fault-free run itself errors half-way). Per render: the fault-free run against a recording writer, then EXHAUSTIVELY a writer failing Write call k for every k in 0..#calls (sticky and transient) and a short-capacity writer for every byte budget 0..len(output). Oracle on the implementation: fault injected => err != nil and accepted bytes are a prefix of the fault-free output; err == nil => output complete. Model (Interp.render with calls_left/bytes_left) vs implementation on (error?, accepted bytes) for every injection and on the fault-free Write call sequence. Every bundle that contains a {msg} is swept three more times through Renderer.WithMessages with a soymsg.Bundle that TRANSLATES every message (identity / parts reordered between text / text after the last placeholder; {plural} messages as a PluralPart with 3 forms selected by n mod 3): oracle only, the model renders without a bundle. JavaScript-side counterpart (stream js-write): soyjs.Write of every file of every bundle (ES5 and ES6 formatters) against a writer failing each of its Write calls (sticky and transient) and against short-capacity writers; same oracle (error returned, accepted bytes a prefix, nil only if complete). Non-trivial = the fault-free run makes at least 2 Write calls (js-write: 2 non-empty ones); distinct by source text + data."
	e.res.Exhaustive = true
	if e.replay != "" {
		c12Replay(e)
		return
	}
	// hand-written shapes around the escaper and block capture
	fixed := []struct {
		body string
		d    data.Map
	}{
		{"{$x}", data.Map{"x": data.String("a<b>&\"'c")}},
		{"head{$x}", data.Map{"x": data.String("<<>>")}},
		{"{$x}tail", data.Map{"x": data.String("")}},
		{"{$x|noAutoescape}{$x}", data.Map{"x": data.String("p&q")}},
		{"{let $y}{$x}<i>{/let}{$y|noAutoescape}{$y}", data.Map{"x": data.String("1<2")}},
		{"{foreach $c in ['<', '>', '&']}{$c}{/foreach}{$x|escapeUri}", data.Map{"x": data.String("a b")}},
		{"{msg desc=\"d\"}Hello <b>{$x}</b>!{/msg}{css foo}", data.Map{"x": data.String("'w'")}},
		{"{log}{$x}{/log}{$x}{$x.y}", data.Map{"x": data.String("<")}},
		// message parts at the very end of the file: their positions must stay inside the source
		// (errRecover slices the source at the failing node's position)
		{"{msg desc=\"d\"}Hello <b>{$x}</b>, this is <i>long</i> <a href=\"x\">enough</a>{/msg}", data.Map{"x": data.String("w")}},
		// messages rendered through a translation (the bundle sweeps of c12Bundle): placeholders before, inside and
		// after text; a plural as the last output of the render, with text after the last placeholder of a form;
		// every plural form (PluralCase = n mod 3); output after the message
		{"{msg desc=\"d\"}{$x} before, in {$n} side, after {$x}{/msg}", data.Map{"x": data.String("<w>"), "n": data.Int(2)}},
		{"{msg desc=\"d\"}{plural $n}{case 0}none for {$x}{case 1}one <b>{$x}</b> item{default}{$n} items for {$x} here{/plural}{/msg}", data.Map{"x": data.String("u"), "n": data.Int(0)}},
		{"{msg desc=\"d\"}{plural $n}{case 0}none for {$x}{case 1}one <b>{$x}</b> item{default}{$n} items for {$x} here{/plural}{/msg}", data.Map{"x": data.String("u"), "n": data.Int(1)}},
		{"{msg desc=\"d\"}{plural $n}{case 0}none for {$x}{case 1}one <b>{$x}</b> item{default}{$n} items for {$x} here{/plural}{/msg}", data.Map{"x": data.String("u"), "n": data.Int(5)}},
		{"a{msg desc=\"d\"}{plural $n}{case 1}one{default}{$n} Benutzer sind da{/plural}{/msg}{$x}z", data.Map{"x": data.String("&"), "n": data.Int(7)}},
		{"{msg desc=\"d\"}{plural $n}{default}many{/plural}{/msg}", data.Map{"x": data.String(""), "n": data.Int(4)}},
		{"{msg desc=\"d\"}{plural $x}{default}many{/plural}{/msg}", data.Map{"x": data.String("not a number"), "n": data.Int(4)}},
		// NESTED placeholder lookup (ast.MsgNode.Placeholder is breadth first): the same placeholder {$x.y} in a case
		// and in the default of a plural, on different lines, failing when walked ($x is a string).  Rendered through
		// a translation, the placeholder walked is the DEFAULT's (two levels below the plural; a case's is three),
		// whichever form is selected: the line of the error says which one was walked.  From here on
		// (c12LineFrom) the error's line is compared with the model's (Model/InterpExt.v msg_placeholder).
		{"{msg desc=\"d\"}{plural $n}{case 1}one\n{$x.y}\n{default}many\n\n{$x.y}{/plural}{/msg}", data.Map{"x": data.String("s"), "n": data.Int(1)}},
		{"{msg desc=\"d\"}{plural $n}{case 1}one\n{$x.y}\n{default}many\n\n{$x.y}{/plural}{/msg}", data.Map{"x": data.String("s"), "n": data.Int(5)}},
		{"{msg desc=\"d\"}{plural $n}{case 0}\n{$x.y} none{case 1}one\n\n{$x.y}{default}\n\n\nmany{/plural}{/msg}", data.Map{"x": data.String("s"), "n": data.Int(1)}},
		{"{msg desc=\"d\"}a\n{$x.y}\nb\n{$x.y}{/msg}", data.Map{"x": data.String("s"), "n": data.Int(1)}},
		// evalPrint applies each directive right after its own arguments: the Apply of the first truncate fails
		// (its argument is not an integer) BEFORE the argument of the second, on the next line, is evaluated (it
		// would fail too): the error is reported on the print's line (Model/Interp.v print_dirs; the line is compared
		// without a bundle too for these shapes)
		{"a\n{$x|truncate:'a'|truncate:\n$x.v}", data.Map{"x": data.String("hello")}},
		{"a\n{$x|truncate:3|truncate:\n$x.v}", data.Map{"x": data.String("hello")}},
	}
	const c12LineFrom = 16 // index of the first nested-placeholder shape
	for j, f := range fixed {
		files := []srcFile{{"fixed.soy", "{namespace fx}\n\n/**\n * @param x\n * @param? n\n */\n{template .t}\n" + f.body + "\n{/template}\n"}}
		c12CheckLine = j >= c12LineFrom
		c12Bundle(e, fmt.Sprintf("fx%d", j), files, "fx.t", []data.Map{f.d}, j == 0)
	}
	c12CheckLine = false
	n := 400 * e.scale
	for i := 0; i < n; i++ {
		o := progOpts{depth: 3, directives: true}
		if i%4 == 3 {
			o.illTyped = 8 // renders that fail half-way for reasons of their own
		}
		files, entry, dataSets, feats := genBundle(e.rng, o)
		for f := range feats {
			e.res.Histogram["feat:"+f]++
		}
		c12Bundle(e, fmt.Sprintf("reg%d", i), files, entry, dataSets, i%23 == 0)
	}
}

// c12CheckLine: the renders through a translation also compare the LINE of the fault-free run's error with the
// model's (a mismatch of the model; set for the nested-placeholder shapes, elsewhere deviations are only counted
// in the histogram: error-line-deviation)
var c12CheckLine bool

func c12Bundle(e *env, key string, files []srcFile, entry string, dataSets []data.Map, sample bool) {
	b := soy.NewBundle()
	for _, f := range files {
		b.AddTemplateString(f.Name, f.Text)
	}
	reg, err := b.Compile()
	if err != nil {
		e.res.Histogram["compile-errors"]++
		return
	}
	c12JsWrite(e, key, files, reg)
	tofu := soyhtml.NewTofu(reg)
	ids := newIDTable()
	modelOK := true
	if r := e.m.Call("load_registry", key, registrySexp(reg, ids)); len(r) == 0 || r[0] != "#1" {
		e.res.Fail(hx.Violation{Kind: "mismatch", What: "model cannot load the registry", Case: c12Case{Files: files, Template: entry}, Observed: fmt.Sprint(r)}, "")
		modelOK = false
	}
	for _, d := range dataSets {
		dsx := valueSexp(d, ids)
		c12Render(e, key, tofu, files, entry, d, dsx, modelOK, sample, nil)
		for style := 0; style < 3; style++ {
			msgs, plural := c12Translate(reg, style)
			if len(msgs.msgs) == 0 {
				break
			}
			// the same sweep with a message bundle that translates every message; the model is the extended
			// walker of Model/InterpExt.v (evalMsg through a translation), op render_msgs
			if plural {
				e.res.Histogram["bundle-renders-with-plural-translation"]++
			}
			c12Render(e, key, tofu, files, entry, d, dsx, modelOK, false, msgs)
		}
	}
}

// ---- the JavaScript-side counterpart: soyjs.Write on a failing writer ----
//
// soyjs.Write generates into memory and hands the writer two Write calls (the import block, the script).  For
// every file of the bundle, ES5 and ES6: the fault-free run against a recording writer, then a failure at every
// Write call index (sticky and transient) and every byte budget.  Oracle: the writer refused something => Write
// returns an error; accepted bytes are a prefix of the fault-free script; nil => complete.  Not a render in the
// sense of the property's text: recorded under the finding key js-write-drops-writer-errors while /repo's
// soyjs.Write ignores the result of out.Write (notes/pending/C12-js-write-errors.diff).
const c12FindingJsWrite = "js-write-drops-writer-errors"

type c12JsCase struct {
	Files  []srcFile `json:"files"`
	File   string    `json:"file"`
	Format string    `json:"formatter"`
	Fault  string    `json:"fault"`
}

func c12JsInto(reg *template.Registry, i int, es6 bool, w io.Writer) (err error) {
	defer func() {
		if r := recover(); r != nil {
			err = fmt.Errorf("PANIC: %v", r)
		}
	}()
	var o soyjs.Options
	if es6 {
		o.Formatter = soyjs.ES6Formatter{}
	}
	return soyjs.Write(w, reg.SoyFiles[i], o)
}

func c12JsWrite(e *env, key string, files []srcFile, reg *template.Registry) {
	for i, sf := range reg.SoyFiles {
		for _, es6 := range []bool{false, true} {
			format := "ES5"
			if es6 {
				format = "ES6"
			}
			mk := func(fault string) c12JsCase {
				return c12JsCase{Files: files, File: sf.Name, Format: format, Fault: fault}
			}
			rec := &recWriter{}
			err0 := c12JsInto(reg, i, es6, rec)
			if err0 != nil {
				e.res.Histogram["js-write:generation-errors"]++ // C14's business (unimplemented functions ...)
				continue
			}
			var out0 []byte
			nonempty := 0
			for _, c := range rec.calls {
				out0 = append(out0, c...)
				if len(c) > 0 {
					nonempty++
				}
			}
			e.res.Count("js:"+format+sf.Name+fmt.Sprint(files), nonempty >= 2, "js-write")
			e.res.Histogram["js-write:write-calls"] += len(rec.calls)
			type inj struct {
				fault    string
				err      error
				acc      []byte
				injected bool
			}
			var injs []inj
			for k := 0; k <= len(rec.calls); k++ {
				for _, sticky := range []bool{true, false} {
					w := &failAt{k: k, sticky: sticky}
					err := c12JsInto(reg, i, es6, w)
					mode := "transient"
					if sticky {
						mode = "sticky"
					}
					injs = append(injs, inj{fmt.Sprintf("call:%d:%s", k, mode), err, w.acc, w.failed})
				}
			}
			step := 1
			if len(out0) > 400 {
				step = len(out0) / 200 // every byte budget of a long script is the same two cases over and over
			}
			for bb := 0; bb <= len(out0); bb += step {
				w := &shortCap{left: bb}
				err := c12JsInto(reg, i, es6, w)
				injs = append(injs, inj{fmt.Sprintf("bytes:%d", bb), err, w.acc, w.failed})
			}
			for _, in := range injs {
				e.res.Histogram["js-write:injections"]++
				switch {
				case isPanicErr(in.err):
					e.res.Fail(hx.Violation{Kind: "oracle", What: "soyjs.Write panicked on a failing writer", Case: mk(in.fault), Observed: errStr(in.err)}, "")
				case in.injected && in.err == nil:
					e.res.Fail(hx.Violation{Kind: "oracle", What: "the writer returned an error and soyjs.Write returned nil", Case: mk(in.fault),
						Expected: "a non-nil error", Observed: fmt.Sprintf("nil; accepted %d of %d bytes", len(in.acc), len(out0))}, c12FindingJsWrite)
				case !bytes.HasPrefix(out0, in.acc):
					e.res.Fail(hx.Violation{Kind: "oracle", What: "the bytes accepted from soyjs.Write by the failing writer are not a prefix of the fault-free script", Case: mk(in.fault),
						Expected: "a prefix of the fault-free script", Observed: hx.Q(string(in.acc))}, c12FindingJsWrite)
				case in.err == nil && !bytes.Equal(in.acc, out0):
					e.res.Fail(hx.Violation{Kind: "oracle", What: "soyjs.Write returned nil although not every byte of the script was accepted", Case: mk(in.fault)}, c12FindingJsWrite)
				case !in.injected && in.err != nil:
					e.res.Fail(hx.Violation{Kind: "oracle", What: "a writer that never failed made soyjs.Write fail", Case: mk(in.fault), Observed: errStr(in.err)}, "")
				}
			}
		}
	}
}

type c12Inj struct {
	fault    string
	cl, bl   string // model arguments
	err      error
	acc      []byte
	injected bool // the writer actually refused something
}

func c12Render(e *env, key string, tofu *soyhtml.Tofu, files []srcFile, entry string, d data.Map, dsx string, modelOK bool, sample bool, msgs soymsg.Bundle) {
	mk := func(fault string) c12Case {
		c := c12Case{Files: files, Template: entry, Data: dsx, Fault: fault, Msgs: msgs != nil}
		if b, ok := msgs.(*c12Msgs); ok {
			c.Style = b.style
		}
		return c
	}
	rec := &recWriter{}
	err0 := execInto(tofu, entry, d, rec, msgs)
	var out0 []byte
	for _, c := range rec.calls {
		out0 = append(out0, c...)
	}
	nontrivial := len(rec.calls) >= 2
	if msgs != nil {
		e.res.Count(fmt.Sprint(files)+dsx+"+msgs", nontrivial, "render-with-message-bundle")
	} else {
		e.res.Count(fmt.Sprint(files)+dsx, nontrivial, "render")
	}
	e.res.Histogram["write-calls"] += len(rec.calls)
	e.res.Histogram["output-bytes"] += len(out0)
	if err0 != nil {
		e.res.Histogram["fault-free-run-errors"]++
	}
	if isPanicErr(err0) {
		// not this property's business (C06); the injections below still must not return nil
		e.res.Histogram["fault-free-run-panics"]++
	}

	var injs []*c12Inj
	for k := 0; k <= len(rec.calls); k++ {
		for _, sticky := range []bool{true, false} {
			w := &failAt{k: k, sticky: sticky}
			err := execInto(tofu, entry, d, w, msgs)
			mode := "transient"
			if sticky {
				mode = "sticky"
			}
			injs = append(injs, &c12Inj{fault: fmt.Sprintf("call:%d:%s", k, mode), cl: fmt.Sprintf("#%d", k), bl: "none", err: err, acc: w.acc, injected: w.failed})
		}
	}
	for bb := 0; bb <= len(out0); bb++ {
		w := &shortCap{left: bb}
		err := execInto(tofu, entry, d, w, msgs)
		injs = append(injs, &c12Inj{fault: fmt.Sprintf("bytes:%d", bb), cl: "none", bl: fmt.Sprintf("#%d", bb), err: err, acc: w.acc, injected: w.failed})
	}

	// ---- the property's oracle, on the implementation alone ----
	for _, in := range injs {
		e.res.Histogram["injections"]++
		if in.injected {
			e.res.Histogram["injections-refused"]++
		}
		if isPanicErr(in.err) && !isPanicErr(err0) {
			// the property asks for a returned error: a panic out of Render is not one
			e.res.Fail(hx.Violation{Kind: "oracle", What: "the writer returned an error and Render panicked instead of returning an error", Case: mk(in.fault),
				Expected: "a non-nil error", Observed: errStr(in.err)}, "")
			continue
		}
		if in.injected && in.err == nil {
			e.res.Fail(hx.Violation{Kind: "oracle", What: "the writer returned an error and Render returned nil", Case: mk(in.fault),
				Expected: "a non-nil error", Observed: "nil; accepted " + hx.Q(string(in.acc)) + " of " + hx.Q(string(out0))}, "")
			continue
		}
		if !bytes.HasPrefix(out0, in.acc) {
			e.res.Fail(hx.Violation{Kind: "oracle", What: "the bytes accepted by the failing writer are not a prefix of the fault-free output", Case: mk(in.fault),
				Expected: "a prefix of " + hx.Q(string(out0)), Observed: hx.Q(string(in.acc))}, "")
			continue
		}
		if in.err == nil && err0 == nil && !bytes.Equal(in.acc, out0) {
			e.res.Fail(hx.Violation{Kind: "oracle", What: "Render returned nil although not every byte of the output was accepted", Case: mk(in.fault),
				Expected: hx.Q(string(out0)), Observed: hx.Q(string(in.acc))}, "")
			continue
		}
		if !in.injected && (in.err == nil) != (err0 == nil) {
			e.res.Fail(hx.Violation{Kind: "oracle", What: "a writer that never failed changed the result of the render", Case: mk(in.fault),
				Expected: errStr(err0), Observed: errStr(in.err)}, "")
		}
	}
	if sample {
		e.res.Sample(map[string]interface{}{"files": files, "template": entry, "data": dsx, "write_calls": len(rec.calls), "output": hx.Q(string(out0)),
			"error": errStr(err0), "injections": len(injs)})
	}

	// ---- model vs implementation ----
	if !modelOK || isPanicErr(err0) {
		return
	}
	bsx := ""
	if b, ok := msgs.(*c12Msgs); ok {
		bsx = c12BundleSexp(b)
		e.res.Histogram["model:render_msgs"]++
	}
	req := func(cl, bl string) string {
		if bsx != "" {
			return strings.Join([]string{"render_msgs", key, sx(entry), "#4000", cl, bl, bsx, ";", dsx}, " ")
		}
		return strings.Join([]string{"render", key, sx(entry), "#4000", cl, bl, "-", "none", ";", dsx}, " ")
	}
	reqs := []string{req("none", "none")}
	for _, in := range injs {
		if strings.HasSuffix(in.fault, ":transient") {
			continue // same automaton as the sticky one: the model makes no call after a refused one
		}
		reqs = append(reqs, req(in.cl, in.bl))
	}
	rs := e.m.Batch(reqs)
	parse := func(r []string) (cls string, writes []string, ok bool) {
		if len(r) < 5 {
			return "", nil, false
		}
		cls = strings.Split(r[0], ",")[0]
		for _, f := range r[5:] {
			writes = append(writes, hx.UnH(f))
		}
		return cls, writes, true
	}
	cls0, w0, ok := parse(rs[0])
	if !ok {
		e.res.Fail(hx.Violation{Kind: "mismatch", What: "model render failed", Case: mk("none"), Observed: fmt.Sprint(rs[0])}, "")
		return
	}
	if cls0 == "outofmodel" || cls0 == "fuel" {
		e.res.Histogram["model:"+cls0]++
		return
	}
	if cls0 == "crash" && strings.Contains(rs[0][0], hex.EncodeToString([]byte("not modelled"))) {
		e.res.Histogram["model:directive-not-modelled"]++ // a library encoder the model has no function for (C16's business)
		return
	}
	if (cls0 == "ok") != (err0 == nil) || (cls0 != "ok" && cls0 != "err") {
		e.res.Fail(hx.Violation{Kind: "mismatch", What: "fault-free run: model outcome " + rs[0][0] + " vs implementation error " + hx.Q(errStr(err0)), Case: mk("none")}, "")
		return
	}
	if (bsx != "" || c12CheckLine) && cls0 == "err" && err0 != nil && len(rs[0]) > 2 {
		if fp := errortypes.ToErrFilePos(err0); fp != nil {
			e.res.Histogram["error-line-compared"]++
			if ml := strings.TrimPrefix(rs[0][2], "#"); ml != strconv.Itoa(fp.Line()) {
				e.res.Histogram["error-line-deviation"]++
				if c12CheckLine {
					e.res.Fail(hx.Violation{Kind: "mismatch", What: "the line of the fault-free run's error differs from the model's (which placeholder node was walked / which directive failed first)", Case: mk("none"),
						Expected: "line " + ml, Observed: fmt.Sprintf("line %d: %.160s", fp.Line(), errStr(err0))}, "")
					return
				}
			}
		}
	}
	same := len(w0) == len(rec.calls)
	for i := 0; same && i < len(w0); i++ {
		same = w0[i] == string(rec.calls[i])
	}
	if !same {
		var got []string
		for _, c := range rec.calls {
			got = append(got, hx.Q(string(c)))
		}
		var want []string
		for _, c := range w0 {
			want = append(want, hx.Q(c))
		}
		e.res.Fail(hx.Violation{Kind: "mismatch", What: "the sequence of Write calls differs from the model", Case: mk("none"), Expected: want, Observed: got}, "")
		return
	}
	j := 1
	for _, in := range injs {
		if strings.HasSuffix(in.fault, ":transient") {
			continue
		}
		cls, ws, ok := parse(rs[j])
		j++
		if !ok {
			e.res.Fail(hx.Violation{Kind: "mismatch", What: "model render failed", Case: mk(in.fault), Observed: fmt.Sprint(rs[j-1])}, "")
			continue
		}
		macc := strings.Join(ws, "")
		if isPanicErr(in.err) {
			// judged by the oracle above; the model's image of it is Crash (LineNumber's slice inside errRecover)
			if cls != "crash" {
				e.res.Fail(hx.Violation{Kind: "mismatch", What: "implementation panics, model outcome " + rs[j-1][0], Case: mk(in.fault), Observed: errStr(in.err)}, "")
			}
			continue
		}
		if (cls == "ok") != (in.err == nil) || (cls != "ok" && cls != "err") {
			e.res.Fail(hx.Violation{Kind: "mismatch", What: "model outcome " + rs[j-1][0] + " vs implementation error " + hx.Q(errStr(in.err)), Case: mk(in.fault)}, "")
			continue
		}
		if macc != string(in.acc) {
			e.res.Fail(hx.Violation{Kind: "mismatch", What: "accepted bytes differ from the model", Case: mk(in.fault), Expected: hx.Q(macc), Observed: hx.Q(string(in.acc))}, "")
		}
	}
}

func c12Replay(e *env) {
	bs, err := os.ReadFile(e.replay)
	if err != nil {
		e.res.Fail(hx.Violation{Kind: "obligation", What: "cannot read replay: " + err.Error(), Case: e.replay}, "")
		return
	}
	var rp struct {
		Case c12Case `json:"case"`
	}
	if err := json.Unmarshal(bs, &rp); err != nil || len(rp.Case.Files) == 0 {
		e.res.Fail(hx.Violation{Kind: "obligation", What: "replay file has no C12 case", Case: e.replay}, "")
		return
	}
	v, err := sexpToValue(rp.Case.Data, nil)
	if err != nil {
		e.res.Fail(hx.Violation{Kind: "obligation", What: "replay: cannot parse the data: " + err.Error(), Case: rp.Case}, "")
		return
	}
	d, _ := v.(data.Map)
	// the whole exhaustive sweep of that template and data set is cheap: re-run it
	c12Bundle(e, "replay", rp.Case.Files, rp.Case.Template, []data.Map{d}, true)
}
