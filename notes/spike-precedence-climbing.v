From Coq Require Import List Arith Lia Bool.
Import ListNotations.

Inductive tok := TNum (n:nat) | TOp (o:nat) | TL | TR.
Inductive expr := Num (n:nat) | Bin (o:nat) (a b:expr).

Section P.
Variable prec : nat -> nat.

Fixpoint parse (fuel:nat) (p:nat) (ts:list tok) {struct fuel} : option (expr * list tok) :=
  match fuel with 0 => None | S f =>
    let first :=
      match ts with
      | TNum n :: r => Some (Num n, r)
      | TL :: r => match parse f 0 r with
                   | Some (e, TR :: r') => Some (e, r')
                   | _ => None end
      | _ => None end in
    match first with None => None | Some (n, r) => loop f p n r end
  end
with loop (fuel:nat) (p:nat) (n:expr) (ts:list tok) {struct fuel} : option (expr * list tok) :=
  match fuel with 0 => None | S f =>
    match ts with
    | TOp o :: r =>
        if prec o <? p then Some (n, ts)
        else match parse f (S (prec o)) r with
             | Some (b, r') => loop f p (Bin o n b) r'
             | None => None end
    | _ => Some (n, ts)
    end
  end.

(* atoms bind tighter than anything: eprec = None *)
Definition needs_paren_left (o:nat) (a:expr) : bool :=
  match a with Num _ => false | Bin oa _ _ => prec oa <? prec o end.
Definition needs_paren_right (o:nat) (b:expr) : bool :=
  match b with Num _ => false | Bin ob _ _ => prec ob <=? prec o end.
Fixpoint show (e:expr) : list tok :=
  match e with
  | Num n => [TNum n]
  | Bin o a b =>
      (if needs_paren_left o a then TL :: show a ++ [TR] else show a)
      ++ TOp o ::
      (if needs_paren_right o b then TL :: show b ++ [TR] else show b)
  end.

Fixpoint size (e:expr) : nat := match e with Num _ => 1 | Bin _ a b => S (size a + size b) end.

Definition stops (p:nat) (ts:list tok) : Prop :=
  match ts with TOp o :: _ => prec o < p | _ => True end.

(* every operator on the left spine has precedence >= p *)
Fixpoint exposed_ge (p:nat) (e:expr) : Prop :=
  match e with Num _ => True | Bin o a _ => p <= prec o /\ (needs_paren_left o a = false -> exposed_ge p a) end.

Lemma exposed_ge_0 e : exposed_ge 0 e.
Proof. induction e; cbn; auto. split; [lia|auto]. Qed.

Lemma exposed_ge_weaken p q e : q <= p -> exposed_ge p e -> exposed_ge q e.
Proof. induction e; cbn; auto. intros Hq [H1 H2]. split; [lia|auto]. Qed.

(* unfolding equations *)
Lemma parse_S f p ts : parse (S f) p ts =
    match (match ts with
      | TNum n :: r => Some (Num n, r)
      | TL :: r => match parse f 0 r with
                   | Some (e, TR :: r') => Some (e, r')
                   | _ => None end
      | _ => None end) with None => None | Some (n, r) => loop f p n r end.
Proof. reflexivity. Qed.
Lemma loop_S f p n ts : loop (S f) p n ts =
    match ts with
    | TOp o :: r =>
        if prec o <? p then Some (n, ts)
        else match parse f (S (prec o)) r with
             | Some (b, r') => loop f p (Bin o n b) r'
             | None => None end
    | _ => Some (n, ts)
    end.
Proof. reflexivity. Qed.
Opaque parse loop.

(* fuel monotonicity *)
Lemma mono : forall f,
  (forall p ts r, parse f p ts = Some r -> parse (S f) p ts = Some r) /\
  (forall p n ts r, loop f p n ts = Some r -> loop (S f) p n ts = Some r).
Proof.
  induction f as [|f [IHp IHl]]; split; intros.
  - Transparent parse. cbn in H. discriminate.
  - Transparent loop. cbn in H. discriminate.
  - Opaque parse loop. rewrite parse_S in H. rewrite parse_S.
    destruct ts as [|[k|o| |] rr]; try discriminate.
    + now apply IHl.
    + destruct (parse f 0 rr) as [[e r']|] eqn:E; try discriminate.
      rewrite (IHp _ _ _ E). destruct r' as [|[ | | |] r'']; try discriminate. now apply IHl.
  - rewrite loop_S in H. rewrite loop_S.
    destruct ts as [|[k|o| |] rr]; auto.
    destruct (prec o <? p); auto.
    destruct (parse f (S (prec o)) rr) as [[b r']|] eqn:E; try discriminate.
    rewrite (IHp _ _ _ E). now apply IHl.
Qed.

Lemma parse_mono f g p ts r : f <= g -> parse f p ts = Some r -> parse g p ts = Some r.
Proof. induction 1; auto. intros. apply mono; auto. Qed.
Lemma loop_mono f g p n ts r : f <= g -> loop f p n ts = Some r -> loop g p n ts = Some r.
Proof. induction 1; auto. intros. apply mono; auto. Qed.

Lemma loop_stops f p n ts : stops p ts -> loop (S f) p n ts = Some (n, ts).
Proof.
  intros H. rewrite loop_S. destruct ts as [|[k|o| |] r]; try reflexivity.
  cbn in H. apply Nat.ltb_lt in H. rewrite H. reflexivity.
Qed.


(* right spine: rest must not be swallowed by an unparenthesised right operand *)
Fixpoint rstops (e:expr) (rest:list tok) : Prop :=
  match e with Num _ => True
  | Bin o _ b => stops (S (prec o)) rest /\ (needs_paren_right o b = false -> rstops b rest) end.

Fixpoint rspine_ge (q:nat) (e:expr) : Prop :=
  match e with Num _ => True
  | Bin o _ b => q <= prec o /\ (needs_paren_right o b = false -> rspine_ge q b) end.
Fixpoint lspine_ge (q:nat) (e:expr) : Prop :=
  match e with Num _ => True
  | Bin o a _ => q <= prec o /\ (needs_paren_left o a = false -> lspine_ge q a) end.

Lemma rspine_weaken q q' e : q' <= q -> rspine_ge q e -> rspine_ge q' e.
Proof. induction e; cbn; auto. intros ? [? ?]. split; [lia|auto]. Qed.
Lemma lspine_weaken q q' e : q' <= q -> lspine_ge q e -> lspine_ge q' e.
Proof. induction e; cbn; auto. intros ? [? ?]. split; [lia|auto]. Qed.

Lemma rspine_self e : match e with Num _ => True | Bin o _ _ => rspine_ge (prec o) e end.
Proof.
  induction e as [|o a _ b IHb]; auto. cbn. split; [lia|]. intros Hb.
  destruct b as [|ob b1 b2]; cbn; auto. cbn in Hb. apply Nat.leb_gt in Hb.
  cbn in IHb. destruct IHb as [_ IHb]. split; [lia|]. intros H. apply rspine_weaken with (q:=prec ob); [lia|auto].
Qed.
Lemma lspine_self e : match e with Num _ => True | Bin o _ _ => lspine_ge (prec o) e end.
Proof.
  induction e as [|o a IHa b _]; auto. cbn. split; [lia|]. intros Ha.
  destruct a as [|oa a1 a2]; cbn; auto. cbn in Ha. apply Nat.ltb_ge in Ha.
  cbn in IHa. destruct IHa as [_ IHa]. split; [lia|]. intros H. apply lspine_weaken with (q:=prec oa); [lia|auto].
Qed.

Lemma lspine_exposed q e : lspine_ge q e -> exposed_ge q e.
Proof. induction e; cbn; auto; intros [? ?]; split; auto. Qed.

Lemma rstops_of_rspine q e o r : rspine_ge q e -> prec o <= q -> rstops e (TOp o :: r).
Proof. induction e; cbn; auto. intros [? ?] ?. split; [lia|auto]. Qed.
Lemma rstops_nonop e ts : (match ts with TOp _ :: _ => False | _ => True end) -> rstops e ts.
Proof. induction e; cbn; auto. intros H. split; auto. destruct ts as [|[ | | | ] ?]; cbn; auto. contradiction. Qed.

Lemma main : forall k e, size e <= k -> forall p rest f r,
  exposed_ge p e -> rstops e rest ->
  loop f p e rest = Some r ->
  exists g, parse g p (show e ++ rest) = Some r.
Proof.
  induction k as [|k IH]; intros e Hk p rest f r Hexp Hr Hloop.
  { destruct e; cbn in Hk; lia. }
  destruct e as [n|o a b].
  - exists (S f). rewrite parse_S. cbn. exact Hloop.
  - cbn [size] in Hk. cbn [exposed_ge] in Hexp. destruct Hexp as [Hp Hexpa].
    cbn [rstops] in Hr. destruct Hr as [Hstop Hrb].
    (* step 1: parsing the right operand at level S (prec o) gives (b, rest) *)
    assert (HB : exists g, parse g (S (prec o))
                   ((if needs_paren_right o b then TL :: show b ++ [TR] else show b) ++ rest) = Some (b, rest)).
    { destruct (needs_paren_right o b) eqn:Eb.
      - destruct (IH b ltac:(lia) 0 (TR :: rest) 1 (b, TR :: rest)) as [g Hg].
        + apply exposed_ge_0. + apply rstops_nonop; exact I. + apply loop_stops; exact I.
        + exists (S (S g)). rewrite parse_S. cbn [app]. rewrite <- app_assoc. cbn [app].
          rewrite (parse_mono g (S g) _ _ _ ltac:(lia) Hg).
          apply loop_stops. exact Hstop.
      - apply (IH b ltac:(lia) (S (prec o)) rest 1 (b, rest)).
        + destruct b as [|ob b1 b2]; cbn; auto. cbn in Eb. apply Nat.leb_gt in Eb.
          pose proof (lspine_self (Bin ob b1 b2)) as L. cbn in L. destruct L as [_ L].
          split; [lia|]. intros H. apply lspine_exposed. apply lspine_weaken with (q:=prec ob); [lia|auto].
        + auto.
        + apply loop_stops. exact Hstop. }
    destruct HB as [gb HB].
    (* step 2: the loop, started with accumulator a in front of "o B rest", reaches r *)
    assert (HL : exists g, loop g p a (TOp o :: (if needs_paren_right o b then TL :: show b ++ [TR] else show b) ++ rest) = Some r).
    { exists (S (gb + f)). rewrite loop_S. assert (prec o <? p = false) as -> by (apply Nat.ltb_ge; lia).
      rewrite (parse_mono gb (gb + f) _ _ _ ltac:(lia) HB).
      apply (loop_mono f (gb + f)); [lia|exact Hloop]. }
    destruct HL as [gl HL].
    cbn [show]. destruct (needs_paren_left o a) eqn:Ea.
    + (* parenthesised left operand *)
      destruct (IH a ltac:(lia) 0 (TR :: TOp o :: (if needs_paren_right o b then TL :: show b ++ [TR] else show b) ++ rest) 1
                  (a, TR :: TOp o :: (if needs_paren_right o b then TL :: show b ++ [TR] else show b) ++ rest)) as [ga Hga].
      * apply exposed_ge_0. * apply rstops_nonop; exact I. * apply loop_stops; exact I.
      * exists (S (ga + gl)). rewrite parse_S. cbn [app]. repeat (rewrite <- app_assoc; cbn [app]).
        rewrite (parse_mono ga (ga + gl) _ _ _ ltac:(lia) Hga).
        apply (loop_mono gl (ga + gl)); [lia|exact HL].
    + (* bare left operand: continue the loop through it *)
      rewrite <- app_assoc. cbn [app].
      apply (IH a ltac:(lia) p _ gl r).
      * auto.
      * destruct a as [|oa a1 a2]; cbn; auto. cbn in Ea. apply Nat.ltb_ge in Ea.
        pose proof (rspine_self (Bin oa a1 a2)) as R. cbn in R. destruct R as [_ R].
        split; [cbn; lia|]. intros H. apply rstops_of_rspine with (q:=prec oa); auto.
      * exact HL.
Qed.

Theorem parse_show e rest : stops 0 rest -> exists g, parse g 0 (show e ++ rest) = Some (e, rest).
Proof.
  intros Hs. apply (main (size e) e (le_n _) 0 rest 1 (e, rest)).
  - apply exposed_ge_0.
  - (* rest stops at level 0: no operator at all can follow, since prec o < 0 is impossible *)
    clear -Hs. induction e; cbn; auto. split; auto.
    destruct rest as [|[ |o'| | ] ?]; cbn in *; auto; lia.
  - apply loop_stops. exact Hs.
Qed.
End P.
Print Assumptions parse_show.
