// node runner for C16 (and reusable): node c16.js <in.json> <out.json>
// in : { utils: path of soyutils.js, code: [generated JS source ...],
//        evals: [JS source text of an expression ...],
//        calls: [{f: "ns.tmpl", d: {...data}} ...] }
// out: { evals: [{hex}|{err}], calls: [{hex}|{err}] }   (hex = UTF-8 bytes of the string result)
'use strict';
const fs = require('fs');
const vm = require('vm');
const inp = JSON.parse(fs.readFileSync(process.argv[2], 'utf8'));
const out = { evals: [], calls: [], load_errors: [] };
function hexOf(v) {
  if (typeof v !== 'string') v = String(v);
  return Buffer.from(v, 'utf8').toString('hex');
}
// lone surrogates would be hidden by the UTF-8 conversion (they become U+FFFD): report them
function wellFormed(v) {
  for (let i = 0; i < v.length; i++) {
    const c = v.charCodeAt(i);
    if (c >= 0xD800 && c <= 0xDBFF) {
      const d = i + 1 < v.length ? v.charCodeAt(i + 1) : 0;
      if (d >= 0xDC00 && d <= 0xDFFF) { i++; continue; }
      return false;
    }
    if (c >= 0xDC00 && c <= 0xDFFF) return false;
  }
  return true;
}
for (const e of inp.evals || []) {
  try {
    const v = vm.runInNewContext(e, {}, { timeout: 120000 } /* a guard only: a quoted literal cannot loop; a short limit raised false alarms on a loaded machine */);
    out.evals.push({ hex: hexOf(v), wf: wellFormed(String(v)) });
  } catch (err) {
    out.evals.push({ err: String(err) });
  }
}
if (inp.utils) {
  try { vm.runInThisContext(fs.readFileSync(inp.utils, 'utf8'), { filename: 'soyutils.js' }); }
  catch (err) { out.load_errors.push('soyutils: ' + String(err)); }
}
for (const c of inp.code || []) {
  try { vm.runInThisContext(c, { filename: 'generated.js' }); }
  catch (err) { out.load_errors.push('generated: ' + String(err)); }
}
const fcache = {};
for (const c of inp.calls || []) {
  try {
    let f = fcache[c.f];
    if (!f) { f = vm.runInThisContext(c.f); fcache[c.f] = f; }
    const v = f(c.d);
    const s = String(v);
    out.calls.push({ hex: hexOf(s), wf: wellFormed(s), u16: s.length });
  } catch (err) {
    out.calls.push({ err: String(err) });
  }
}
// helper calls on code-unit strings: {fn, u: "<4 hex digits per unit>", a: [args...]} -> {u: "..."} | {err}
// fn: escapeJsString | escapeUri | escapeHtml | changeNewlineToBr | insertWordBreaks | truncate
//     (changeNewlineToBr / insertWordBreaks as the generated code calls them: on soy.$$escapeHtml(x))
// or {fn, all: true}: the helper on every single code unit 0..65535, results joined by ","
function unitsOf(h) { let s = ''; for (let i = 0; i < h.length; i += 4) s += String.fromCharCode(parseInt(h.substr(i, 4), 16)); return s; }
function hexUnits(s) { let h = ''; for (let i = 0; i < s.length; i++) h += ('000' + s.charCodeAt(i).toString(16)).slice(-4); return h; }
function helper(fn, x, a) {
  switch (fn) {
    case 'escapeJsString': return soy.$$escapeJsString(x);
    case 'escapeUri': return soy.$$escapeUri(x);
    case 'escapeHtml': return soy.$$escapeHtml(x);
    case 'changeNewlineToBr': return soy.$$changeNewlineToBr(soy.$$escapeHtml(x));
    case 'insertWordBreaks': return soy.$$insertWordBreaks(soy.$$escapeHtml(x), a[0]);
    case 'truncate': return soy.$$truncate(x, a[0], a[1]);
  }
  throw new Error('unknown helper ' + fn);
}
if (inp.units) {
  out.units = [];
  for (const c of inp.units) {
    try {
      if (c.all) {
        const parts = [];
        for (let u = 0; u < 65536; u++) {
          try { parts.push(hexUnits(String(helper(c.fn, String.fromCharCode(u), c.a || [])))); } catch (err) { parts.push('!'); }
        }
        out.units.push({ u: parts.join(',') });
      } else {
        out.units.push({ u: hexUnits(String(helper(c.fn, unitsOf(c.u || ''), c.a || []))) });
      }
    } catch (err) {
      out.units.push({ err: String(err) });
    }
  }
}
fs.writeFileSync(process.argv[3], JSON.stringify(out));
