// syntax-only check for C14's token grammar: node --experimental-vm-modules c14wf.js <in.json> <out.json>
// in : [ { mode: "es5"|"es6", code } ]      out: [ null | "SyntaxError: ..." ]   (nothing is executed)
'use strict';
const fs = require('fs');
const vm = require('vm');
const inp = JSON.parse(fs.readFileSync(process.argv[2], 'utf8'));
const ctx = vm.createContext({});
const out = [];
for (const u of inp) {
  let r = null;
  try {
    if (u.mode === 'es6') new vm.SourceTextModule(u.code, { context: ctx, identifier: 'm.js' });
    else new vm.Script(u.code, { filename: 's.js' });
  } catch (err) { r = String(err); }
  out.push(r);
}
fs.writeFileSync(process.argv[3], JSON.stringify(out));
