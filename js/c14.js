// node runner for C14 (and C04): node --experimental-vm-modules c14.js <in.json> <out.json>
// in : { utils: path of soyutils.js,
//        units: [ { id, mode: "es5"|"es6",
//                   files: [ { name, code, templates: ["ns.t", ...] } ],
//                   calls: [ { f: "ns.t", d: {..}|null, ij: {..}|null } ] } ] }
// out: { units: [ { id, files: [ { syntax: null|"message", run: null|"message", missing: ["ns.t", ...] } ],
//                   calls: [ { hex, wf } | { err } ] } ] }
// Every unit is loaded into a fresh context that contains soyutils.js.
'use strict';
const fs = require('fs');
const vm = require('vm');
const inp = JSON.parse(fs.readFileSync(process.argv[2], 'utf8'));
const utilsSrc = fs.readFileSync(inp.utils, 'utf8');
const utilsScript = new vm.Script(utilsSrc, { filename: 'soyutils.js' });

function hexOf(v) { return Buffer.from(v, 'utf8').toString('hex'); }
function wellFormed(v) {
  for (let i = 0; i < v.length; i++) {
    const c = v.charCodeAt(i);
    if (c >= 0xD800 && c <= 0xDBFF) {
      const d = i + 1 < v.length ? v.charCodeAt(i + 1) : 0;
      if (d >= 0xDC00 && d <= 0xDFFF) { i++; continue; }
      return false;
    }
    if (c >= 0xDC00 && c <= 0xDFFF) return false;
  }
  return true;
}
function es6id(s) { return s.split('.').join('__'); }
function result(v) {
  if (typeof v !== 'string') return { err: 'result is not a string: ' + typeof v + ' ' + String(v) };
  return { hex: hexOf(v), wf: wellFormed(v), u16: v.length };
}

async function runUnit(u) {
  const res = { id: u.id, files: [], calls: [] };
  const ctx = vm.createContext({ console: { log: function () {} } });
  try { utilsScript.runInContext(ctx); } catch (err) { res.utils_error = String(err); }
  const fns = {};   // template name -> function
  if (u.mode === 'es5') {
    for (const f of u.files) {
      const fr = { syntax: null, run: null, missing: [] };
      let script = null;
      try { script = new vm.Script(f.code, { filename: f.name + '.js' }); }
      catch (err) { fr.syntax = String(err); }
      if (script) {
        try { script.runInContext(ctx, { timeout: 5000 }); } catch (err) { fr.run = String(err); }
      }
      res.files.push(fr);
    }
    u.files.forEach((f, i) => {
      for (const t of f.templates) {
        let v;
        try { v = vm.runInContext('(typeof ' + t + " === 'function') ? " + t + ' : undefined', ctx); } catch (err) { v = undefined; }
        if (typeof v === 'function') fns[t] = v; else res.files[i].missing.push(t);
      }
    });
  } else {
    // ES6: one module per file; an import of '<template>.js' resolves to the module of the file defining it,
    // any other specifier to a synthetic module exporting the imported name
    const mods = [];
    const byTemplate = {};
    for (const f of u.files) {
      const fr = { syntax: null, run: null, missing: [] };
      let m = null;
      try { m = new vm.SourceTextModule(f.code, { context: ctx, identifier: f.name + '.js' }); }
      catch (err) { fr.syntax = String(err); }
      mods.push(m);
      res.files.push(fr);
      if (m) for (const t of f.templates) byTemplate[t + '.js'] = m;
    }
    const synth = {};
    const imported = {};   // specifier -> set of names
    for (const f of u.files) {
      const re = /^import \{ (\S+) \} from '([^']*)';$/gm;
      let mm;
      while ((mm = re.exec(f.code)) !== null) {
        (imported[mm[2]] = imported[mm[2]] || {})[mm[1]] = true;
      }
    }
    const linker = function (spec) {
      if (byTemplate[spec]) return byTemplate[spec];
      if (!synth[spec]) {
        const names = Object.keys(imported[spec] || {});
        synth[spec] = new vm.SyntheticModule(names, function () { for (const n of names) this.setExport(n, function () { return ''; }); }, { context: ctx, identifier: spec });
      }
      return synth[spec];
    };
    for (let i = 0; i < mods.length; i++) {
      const m = mods[i];
      if (!m) continue;
      try {
        if (m.status === 'unlinked') await m.link(linker);
        if (m.status === 'linked') await m.evaluate({ timeout: 5000 });
        if (m.status === 'errored') throw m.error;
      }
      catch (err) { res.files[i].run = String(err); continue; }
    }
    u.files.forEach((f, i) => {
      const m = mods[i];
      for (const t of f.templates) {
        let v;
        try { v = m && m.status === 'evaluated' ? m.namespace[es6id(t)] : undefined; } catch (err) { v = undefined; }
        if (typeof v === 'function') fns[t] = v; else res.files[i].missing.push(t);
      }
    });
  }
  for (const c of u.calls || []) {
    const f = fns[c.f];
    if (!f) { res.calls.push({ err: 'no function ' + c.f }); continue; }
    try {
      // data objects are rebuilt inside the context so that prototypes match
      ctx.__d = c.d === undefined ? null : JSON.stringify(c.d);
      ctx.__ij = c.ij === undefined || c.ij === null ? null : JSON.stringify(c.ij);
      ctx.__f = f;
      const v = vm.runInContext('__f(__d === null ? undefined : JSON.parse(__d), undefined, __ij === null ? undefined : JSON.parse(__ij))', ctx, { timeout: 5000 });
      res.calls.push(result(v));
    } catch (err) {
      res.calls.push({ err: String(err) });
    }
  }
  return res;
}

(async function () {
  const out = { units: [] };
  for (const u of inp.units) {
    try { out.units.push(await runUnit(u)); }
    catch (err) { out.units.push({ id: u.id, fatal: String(err), files: [], calls: [] }); }
  }
  fs.writeFileSync(process.argv[3], JSON.stringify(out));
})();
