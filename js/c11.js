// node runner for C11: node c11.js <in.json> <out.json>
// in : { utils: path of soyutils.js,
//        units: [{ plural: "<JS function body of soy.$$pluralIndex(n)>" | null,
//                  code: [generated JS source ...],
//                  calls: [{f: "ns.tmpl", d: {...data}} ...] } ...] }
// out: { units: [{ load_errors: [...], calls: [{hex}|{err}] }] }
// Every unit runs in a fresh vm context: soyutils.js, then soy.$$pluralIndex
// (soyutils.js does not define it; the embedding page must -- here it is the
// plural rule of the unit's locale, as in soyjs/exec_test.go), then the code.
'use strict';
const fs = require('fs');
const vm = require('vm');
const inp = JSON.parse(fs.readFileSync(process.argv[2], 'utf8'));
const utils = new vm.Script(fs.readFileSync(inp.utils, 'utf8'), { filename: 'soyutils.js' });
const out = { units: [] };
for (const u of inp.units) {
  const res = { load_errors: [], calls: [] };
  const ctx = vm.createContext({});
  try { utils.runInContext(ctx); } catch (err) { res.load_errors.push('soyutils: ' + String(err)); }
  if (u.plural) {
    try { vm.runInContext('soy.$$pluralIndex = function(n){' + u.plural + '};', ctx); }
    catch (err) { res.load_errors.push('pluralIndex: ' + String(err)); }
  }
  for (const c of u.code || []) {
    try { vm.runInContext(c, ctx, { filename: 'generated.js' }); }
    catch (err) { res.load_errors.push('generated: ' + String(err)); }
  }
  for (const c of u.calls || []) {
    try {
      const f = vm.runInContext(c.f, ctx);
      const v = f(c.d);
      res.calls.push({ hex: Buffer.from(String(v), 'utf8').toString('hex') });
    } catch (err) {
      res.calls.push({ err: String(err) });
    }
  }
  out.units.push(res);
}
fs.writeFileSync(process.argv[3], JSON.stringify(out));
