#!/usr/bin/env python3
"""resolve_claim.py <path>: three-way resolution of a conflicted bin/claims/Cxx.json.  The branch being merged (theirs) is the
owner's rewrite; what main (ours) appended to a field since the common base (other workers' sentences) is appended to it."""
import json, subprocess, sys
p = sys.argv[1]
def show(stage):
    return json.loads(subprocess.check_output(['git', 'show', ':%d:%s' % (stage, p)]))
base, ours, theirs = show(1), show(2), show(3)
out = dict(theirs)
for k in ours:
    if ours.get(k) == base.get(k):
        continue
    bv, ov, tv = base.get(k, ''), ours[k], theirs.get(k, '')
    if theirs.get(k) == base.get(k):
        out[k] = ov
    elif isinstance(ov, str) and isinstance(bv, str) and ov.startswith(bv):
        suffix = ov[len(bv):]
        if suffix.strip() and suffix.strip() not in tv:
            out[k] = tv + suffix
    elif isinstance(ov, str) and ov not in tv:
        out[k] = tv + '  ALSO: ' + ov
json.dump(out, open(p, 'w'), indent=1, ensure_ascii=False)
print('resolved', p)
