#!/usr/bin/env python3
"""Regenerates MANIFEST.json from the table below (kept in one place so that it stays valid)."""
import json, os
V = os.path.dirname(os.path.dirname(os.path.abspath(__file__)))
props = [json.loads(l) for l in open(os.path.join(V, "properties.jsonl"))]
import glob
claims = {os.path.basename(f)[:-5]: json.load(open(f)) for f in glob.glob(os.path.join(V, "bin", "claims", "*.json"))}
checks, na = [], []
for p in props:
    pid = p["id"]
    c = claims.get(pid)
    if not c or c.get("not_applicable") or c.get("text", "").strip() == "in progress":
        na.append({"property_id": pid, "reason": (c or {}).get("reason", "check not built yet; it will be claimed once its Coq model, theorems and correspondence exist (see DESIGN.md section 4)")})
        continue
    checks.append({
        "property_id": pid,
        "quick_cmd": "bin/check %s --tier quick" % pid,
        "thorough_cmd": "bin/check %s --tier thorough" % pid,
        "evidence_file": "/verif/evidence/%s.json" % pid,
        "replay_cmd_template": "bin/check %s --replay {path}" % pid,
        "engine": "coq-proof+correspondence",
        "level_claimed": {"category": c.get("category", "proof"), "text": c["text"], "design_ref": "DESIGN.md section 4, " + pid},
        "level_note": c["note"],
        "technique": c["technique"],
    })
m = {
    "version": 1,
    "setup_cmd": "bin/check --setup",
    "hooks": {
        "guard": "verif",
        "enable": "go build -tags verif (harness module with replace github.com/robfig/soy => /repo)",
        "baseline_off_cmd": "cd /repo && GOFLAGS=-mod=mod GOPROXY=off go test -vet=off -count=1 ./...",
        "source_commits": json.load(open(os.path.join(V, "bin", "hooks.json"))),
        "add_only": True,
    },
    "engines": [{"name": "coq-proof+correspondence", "path": "/verif/bin/check", "serves_properties": [c["property_id"] for c in checks],
                 "kind_free_text": "Coq 8.16 development (coq/), tables regenerated from the Go source by go/cmd/tablegen, model extracted to OCaml and run against robfig/soy by go/cmd/soyverif"}],
    "checks": checks,
    "not_applicable": na,
    "notes": "All checks share one build (flock). known_findings.json lists recorded findings and repaired defects.",
}
json.dump(m, open(os.path.join(V, "MANIFEST.json"), "w"), indent=1)
# known_findings.json is assembled from the per-property fragments known_findings.d/Cxx.json
# (at commit time, by this script -- never at run time)
kf = []
for f in sorted(glob.glob(os.path.join(V, "known_findings.d", "C*.json"))):
    kf += json.load(open(f))
json.dump(kf, open(os.path.join(V, "known_findings.json"), "w"), indent=1, ensure_ascii=False)
print("MANIFEST.json:", len(checks), "claimed,", len(na), "not claimed")
