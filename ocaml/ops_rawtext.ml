(* C15: rawtext loop model and the Spec's normalize / body_text.
   rawtext   <hex s> #tb #ta   -> ok <hex> | crash <hex msg>
   normalize <hex s> #tb #ta   -> <hex>
   normalize_nul <hex s> #tb #ta -> <hex>   (the rule with NUL as a third joiner)
   body_text <hex T> #start    -> some <hex> | none
   rawtext4  <hex s>           -> r00 n00 r01 n01 r10 n10 r11 n11  (r = model rawtext under tb,ta: hex or C for a
                                  crash; n = Spec normalize; one request for the four flag pairs)
*)
open Model
open Driver

let flag f = int_field f <> 0

let () =
  register "rawtext" (fun a -> match a with
    | [s; tb; ta] -> outcome_s (fun v -> [hex_of_bstr v]) (rawtext_run (bstr_of_hex s) (flag tb) (flag ta))
    | _ -> failwith "rawtext: wrong arity");
  register "normalize" (fun a -> match a with
    | [s; tb; ta] -> [hex_of_bstr (text_normalize (flag tb) (flag ta) (bstr_of_hex s))]
    | _ -> failwith "normalize: wrong arity");
  register "normalize_nul" (fun a -> match a with
    | [s; tb; ta] -> [hex_of_bstr (text_normalize_with is_tight_joiner (flag tb) (flag ta) (bstr_of_hex s))]
    | _ -> failwith "normalize_nul: wrong arity");
  register "rawtext4" (fun a -> match a with
    | [s] ->
        let s = bstr_of_hex s in
        List.concat_map (fun (tb, ta) ->
          [ (match rawtext_run s tb ta with Ok v -> hex_of_bstr v | _ -> "C"); hex_of_bstr (text_normalize tb ta s) ])
          [(false, false); (false, true); (true, false); (true, true)]
    | _ -> failwith "rawtext4: wrong arity");
  register "body_text" (fun a -> match a with
    | [t; st] -> (match text_body_text (flag st) (bstr_of_hex t) with Some v -> ["some"; hex_of_bstr v] | None -> ["none"])
    | _ -> failwith "body_text: wrong arity")
