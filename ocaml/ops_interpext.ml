(* the extended walker of Model/InterpExt.v under the installation of the C08 harness *)
open Model
open Driver
open Sexp_ast
open Ops_interp

let () =
  (* render_x <key> <xTemplate> <fuel> <calls_left|none> <bytes_left|none> <oblig: x,x,..|-> <#dir> <#funcs> <ij sexp | none> ; <data sexp> *)
  register "render_x" (fun a ->
    match a with
    | key :: tname :: fuel :: cl :: bl :: oblig :: wd :: wf :: rest ->
        let reg = Hashtbl.find registries key in
        let s = String.concat " " rest in
        let (ijs, ds) = (match String.index_opt s ';' with
                         | Some i -> (String.trim (String.sub s 0 i), String.trim (String.sub s (i + 1) (String.length s - i - 1)))
                         | None -> failwith "render_x: missing ;") in
        let ij = if ijs = "none" then None else Some (value_of (Sexp.parse ijs)) in
        let (did, dm) = (match value_of (Sexp.parse ds) with
                         | VMap (id, m) -> (id, m)
                         | VNull -> (N0, [])
                         | _ -> failwith "render_x: data must be a map") in
        let ob = if oblig = "-" then [] else List.map (fun h -> bstr_of_hex h) (String.split_on_char ',' oblig) in
        let cf = { c_reg = reg; c_ij = ij; c_oblig = ob; c_msgs = None } in
        let ux = ux_harness (int_field wd <> 0) (int_field wf <> 0) in
        let r = render_x cf ux (nat_of_int (int_field fuel)) (xs tname) did dm (opt_nat cl) (opt_n bl) (n_of_int 1000000) in
        let cls = (match r.rr_outcome with
                   | Ok _ -> ["ok"] | Err m -> ["err"; hex_of_bstr m] | Crash m -> ["crash"; hex_of_bstr m]
                   | Diverge -> ["diverge"] | OutOfFuel -> ["fuel"] | OutOfModel -> ["outofmodel"]) in
        [String.concat "," cls; hex_of_bstr r.rr_file; n_s r.rr_line; "#" ^ string_of_int (int_of_nat r.rr_unbound);
         "#" ^ string_of_int (List.length r.rr_shared_writes)] @ List.map hex_of_bstr r.rr_writes
    | _ -> failwith "render_x")

(* rendering through a message bundle (C12): the bundle as Model/Interp.v's msg_bundle; PluralCase(n) = |n| mod 3 for
   |n| <= 1000 and 0 beyond (go/cmd/soyverif/c12.go c12Msgs.PluralCase) *)
let plural_table : (z * n) list =
  let rec go i acc = if i > 1000 then acc else go (i + 1) ((z_of_int i, n_of_int ((abs i) mod 3)) :: acc) in
  go (-1000) []

let bundle_of = function
  | Sexp.L (Sexp.A "bundle" :: ms) ->
      { mb_msgs = List.map (function
                    | Sexp.L (id :: parts) -> (nn id, List.map node_of parts)
                    | _ -> failwith "bad bundle entry") ms;
        mb_plural = plural_table; mb_plural_default = N0 }
  | _ -> failwith "bad bundle"

let () =
  (* render_msgs <key> <xTemplate> <fuel> <calls_left|none> <bytes_left|none> <bundle sexp> ; <data sexp> *)
  register "render_msgs" (fun a ->
    match a with
    | key :: tname :: fuel :: cl :: bl :: rest ->
        let reg = Hashtbl.find registries key in
        let s = String.concat " " rest in
        let (bs, ds) = (match String.index_opt s ';' with
                        | Some i -> (String.trim (String.sub s 0 i), String.trim (String.sub s (i + 1) (String.length s - i - 1)))
                        | None -> failwith "render_msgs: missing ;") in
        let (did, dm) = (match value_of (Sexp.parse ds) with
                         | VMap (id, m) -> (id, m)
                         | VNull -> (N0, [])
                         | _ -> failwith "render_msgs: data must be a map") in
        let cf = { c_reg = reg; c_ij = None; c_oblig = []; c_msgs = Some (bundle_of (Sexp.parse bs)) } in
        let r = render_x cf (ux_harness false false) (nat_of_int (int_field fuel)) (xs tname) did dm (opt_nat cl) (opt_n bl) (n_of_int 1000000) in
        let cls = (match r.rr_outcome with
                   | Ok _ -> ["ok"] | Err m -> ["err"; hex_of_bstr m] | Crash m -> ["crash"; hex_of_bstr m]
                   | Diverge -> ["diverge"] | OutOfFuel -> ["fuel"] | OutOfModel -> ["outofmodel"]) in
        [String.concat "," cls; hex_of_bstr r.rr_file; n_s r.rr_line; "#" ^ string_of_int (int_of_nat r.rr_unbound);
         "#" ^ string_of_int (List.length r.rr_shared_writes)] @ List.map hex_of_bstr r.rr_writes
    | _ -> failwith "render_msgs")
