(* operations of the model runner; one match arm per op *)
open Model
open Driver

(* directive list: D<hexname> then its args: #int | T | F | O *)
let parse_dirs (fs : string list) : (n list * darg list) list =
  let rec go fs cur acc =
    match fs with
    | [] -> List.rev (match cur with None -> acc | Some (n, a) -> (n, List.rev a) :: acc)
    | f :: rest ->
        if f.[0] = 'D' then
          let acc = (match cur with None -> acc | Some (n, a) -> (n, List.rev a) :: acc) in
          go rest (Some (bstr_of_hex (String.sub f 1 (String.length f - 1)), [])) acc
        else
          let arg = (match f.[0] with '#' -> DInt (big_field f) | 'T' -> DBool true | 'F' -> DBool false | _ -> DOther) in
          (match cur with Some (n, a) -> go rest (Some (n, arg :: a)) acc | None -> failwith "arg before directive")
  in go fs None []

let dispatch (op : string) (a : string list) : string list =
  match op, a with
  | "ping", _ -> ["#1"]
  | "untranslatable", _ -> List.map hex_of_bstr untranslatable
  | "html_escape", [s] -> [hex_of_bstr (html_escape (bstr_of_hex s))]
  | "esc_writes", [s] -> List.map hex_of_bstr (esc_writes [] (bstr_of_hex s))
  | "tmpl_html_escape", [s] -> [hex_of_bstr (tmpl_html_escape (bstr_of_hex s))]
  | "html_decode", [s] -> [hex_of_bstr (html_decode (bstr_of_hex s))]
  | "escape_decision", m :: cancels ->
      [bool_s (escape_decision (n_of_int (int_field m)) (List.map (fun c -> int_field c <> 0) cancels))]
  | "modes", [ns; tm; callee] ->
      let ns = n_of_int (int_field ns) and tm = n_of_int (int_field tm) in
      let cur = if int_field callee <> 0 then call_mode ns else entry_mode ns in
      [n_s (template_mode cur tm)]
  | "print", m :: s :: dirs -> outcome_s (fun ws -> List.map hex_of_bstr ws) (print_writes (n_of_int (int_field m)) (parse_dirs dirs) (bstr_of_hex s))
  | "decode_rune", [s] -> let (r, w) = decode_rune (bstr_of_hex s) in [n_s r; "#" ^ string_of_int (int_of_nat w)]
  | "encode_rune", [r] -> [hex_of_bstr (encode_rune (n_of_int (int_field r)))]
  | "utf8_valid", [s] -> [bool_s (utf8_valid (bstr_of_hex s))]
  | "truncate", [s; n; e] -> outcome_s (fun v -> [hex_of_bstr v]) (truncate (bstr_of_hex s) (big_field n) (int_field e <> 0))
  | "iwb", [s; n] -> [hex_of_bstr (insert_word_breaks (bstr_of_hex s) (big_field n))]
  | "nl2br", [s] -> [hex_of_bstr (change_newline_to_br (bstr_of_hex s))]
  | "escape_uri", [s] -> [hex_of_bstr (escape_uri (bstr_of_hex s))]
  | "remove_tok", [t; s] -> [hex_of_bstr (remove_tok (bstr_of_hex t) (bstr_of_hex s))]
  | _ -> failwith ("unknown op or wrong arity: " ^ op)

let () = List.iter (fun n -> register n (dispatch n))
  ["ping"; "untranslatable"; "html_escape"; "esc_writes"; "tmpl_html_escape"; "html_decode"; "escape_decision"; "modes";
   "print"; "decode_rune"; "encode_rune"; "utf8_valid"; "truncate"; "iwb"; "nl2br"; "escape_uri"; "remove_tok"]
