(* C05: the lexer model (Model/Lexer.v), run with the toolchain's unicode tables.
   lex <hex s> #mode        mode 0 = file (lex), 1 = expression (lexExpr)
     -> ok #ticks #n  (#typ #pos <hex val>)*n   | crash <hex> | diverge | fuel | outofmodel
*)
open Model
open Driver

let () =
  register "lex" (fun a -> match a with
    | [s; mode] ->
        let s = bstr_of_hex s in
        (match lex_items_tbl (int_field mode <> 0) s with
         | Ok (items, ticks) ->
             "ok" :: z_s ticks :: ("#" ^ string_of_int (List.length items)) ::
             List.concat_map (fun it -> [n_s it.t_typ; n_s it.t_pos; hex_of_bstr it.t_val]) items
         | o -> outcome_s (fun _ -> []) o)
    | _ -> failwith "lex: wrong arity")
