(* String() of every node type: Model/AstPrintCmd.v *)
open Model
open Driver
open Sexp_ast

let () =
  (* print_tree <sexp of any node> *)
  register "print_tree" (fun a ->
    match print_tree (node_of (Sexp.parse (String.concat " " a))) with
    | Some v -> ["some"; hex_of_bstr v]
    | None -> ["none"]);
  register "go_quote" (fun a ->
    match a with
    | [s] -> (match go_quote (bstr_of_hex s) with Some v -> ["some"; hex_of_bstr v] | None -> ["none"])
    | _ -> failwith "go_quote: arity")
