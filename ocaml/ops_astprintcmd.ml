(* String() of every node type: Model/AstPrintCmd.v *)
open Model
open Driver
open Sexp_ast

let () =
  (* print_tree <sexp of any node> *)
  register "print_tree" (fun a ->
    match print_tree (node_of (Sexp.parse (String.concat " " a))) with
    | Some v -> ["some"; hex_of_bstr v]
    | None -> ["none"]);
  (* body_toks <sexp of a ListNode>: the items Spec/CmdSyntax.v says its printed text lexes to, as #typ hexval ... *)
  register "body_toks" (fun a ->
    let n = node_of (Sexp.parse (String.concat " " a)) in
    List.concat_map (fun t -> [n_s t.t_typ; hex_of_bstr t.t_val]) (body_toks n));
  register "go_quote" (fun a ->
    match a with
    | [s] -> (match go_quote (bstr_of_hex s) with Some v -> ["some"; hex_of_bstr v] | None -> ["none"])
    | _ -> failwith "go_quote: arity")
