(* C16: encoders and the Spec decoders *)
open Model
open Driver

let opt_s (o : n list option) : string list =
  match o with Some v -> ["some"; hex_of_bstr v] | None -> ["none"]

(* canonical text of a JSON value (Spec/Json.v jvalue): numbers as the exact normalised decimal *)
let rec canon_jv (j : jvalue) : string =
  match j with
  | JvNull -> "null"
  | JvBool true -> "true"
  | JvBool false -> "false"
  | JvNum (neg, m, e) -> "#" ^ (if neg then "-" else "") ^ string_of_n m ^ "e" ^ string_of_z e
  | JvStr s -> "\"" ^ (if s = [] then "" else hex_of_bstr s) ^ "\""
  | JvArr l -> "[" ^ String.concat "," (List.map canon_jv l) ^ "]"
  | JvObj m -> "{" ^ String.concat "," (List.map (fun (k, x) -> "\"" ^ (if k = [] then "" else hex_of_bstr k) ^ "\":" ^ canon_jv x) m) ^ "}"

(* code-unit strings: 4 hex digits per unit *)
let units_of_hex4 (s : string) : n list =
  if s = "-" then [] else List.init (String.length s / 4) (fun i -> n_of_int (int_of_string ("0x" ^ String.sub s (4 * i) 4)))
let hex4_of_units (l : n list) : string =
  if l = [] then "-" else String.concat "" (List.map (fun c -> Printf.sprintf "%04x" (int_of_n c)) l)
let u_helper (fn : string) (x : n list) (args : string list) : n list outcome =
  match fn, args with
  | "escapeJsString", [] -> Ok (u_escape_js_string x)
  | "escapeUri", [] -> u_escape_uri x
  | "escapeHtml", [] -> Ok (u_escape_html x)
  | "changeNewlineToBr", [] -> Ok (u_change_newline_to_br x)
  | "insertWordBreaks", [k] -> Ok (u_insert_word_breaks x (z_of_int (int_field k)))
  | "truncate", [k; e] -> Ok (u_truncate x (z_of_int (int_field k)) (e = "T"))
  | _ -> failwith ("u_helper: " ^ fn)

let () =
  (* a soyutils.js helper on a code-unit string: u_helper <fn> <hex4 units> args... *)
  register "u_helper" (fun a -> match a with
    | fn :: x :: args -> outcome_s (fun v -> [hex4_of_units v]) (u_helper fn (units_of_hex4 x) args)
    | _ -> failwith "u_helper: arity");
  (* the helper on every single code unit 0..65535: results joined by "," ("!" = throws) *)
  register "u_helper_all" (fun a -> match a with
    | [fn] ->
        let buf = Buffer.create (1 lsl 20) in
        for u = 0 to 65535 do
          if u > 0 then Buffer.add_char buf ',';
          (match u_helper fn [n_of_int u] [] with
           | Ok v -> Buffer.add_string buf (if v = [] then "" else hex4_of_units v)
           | _ -> Buffer.add_char buf '!')
        done;
        [Buffer.contents buf]
    | _ -> failwith "u_helper_all: arity");
  (* the proved readers on a helper's output *)
  register "jsu_read" (fun a -> match a with
    | [q; x] -> (match jsu_read (n_of_int (int_field q)) (units_of_hex4 x) with Some v -> ["some"; hex4_of_units v] | None -> ["none"])
    | _ -> failwith "jsu_read: arity");
  (* json of a value (sexp, possibly several fields): Model/JsonEncode.v on the tree's nil-collection flag *)
  register "c16_json" (fun a ->
    let v = Sexp_ast.value_of (Sexp.parse (String.concat " " a)) in
    outcome_s (fun s -> [hex_of_bstr s]) (json_encode json_nil_null v));
  (* the Spec reader on a text: canonical form of the value, or none *)
  register "json_canon" (fun a -> match a with
    | [s] -> (match json_parse (bstr_of_hex s) with
              | Some j -> ["some"; hex_of_bstr (bstr_of_string (canon_jv j))]
              | None -> ["none"])
    | _ -> failwith "json_canon: arity");
  (* the theorem's statement evaluated on one value: json_parse (json_encode v) = jv_of_value v *)
  register "c16_json_rt" (fun a ->
    let v = Sexp_ast.value_of (Sexp.parse (String.concat " " a)) in
    match json_encode json_nil_null v with
    | Ok s -> (match json_parse s, jv_of_value v with
               | Some j, Some j' -> [if j = j' then "same" else "differ"]
               | _, _ -> ["none"])
    | _ -> ["noenc"]);
  register "is_print" (fun a -> match a with [r] -> [bool_s (is_print_tbl (n_of_int (int_field r)))] | _ -> failwith "is_print: arity");
  register "js_escape" (fun a -> match a with [s] -> [hex_of_bstr (js_escape is_print_tbl (bstr_of_hex s))] | _ -> failwith "js_escape: arity");
  register "json_string" (fun a -> match a with [s] -> [hex_of_bstr (json_string (bstr_of_hex s))] | _ -> failwith "json_string: arity");
  register "pct_decode" (fun a -> match a with [s] -> opt_s (pct_decode (bstr_of_hex s)) | _ -> failwith "pct_decode: arity");
  register "uri_safe" (fun a -> match a with [s] -> [bool_s (List.for_all uri_safe_byte (bstr_of_hex s))] | _ -> failwith "uri_safe: arity");
  (* js_read q body : q = quote byte *)
  register "js_read" (fun a -> match a with [q; s] -> opt_s (js_read_literal_q (n_of_int (int_field q)) (bstr_of_hex s)) | _ -> failwith "js_read: arity");
  register "json_parse_string" (fun a -> match a with [s] -> opt_s (json_parse_string (bstr_of_hex s)) | _ -> failwith "json_parse_string: arity");
  register "remove_newlines" (fun a -> match a with [s] -> [hex_of_bstr (remove_newlines (bstr_of_hex s))] | _ -> failwith "remove_newlines: arity");
  (* chain of directives on a string, as apply_fn does, extended with the two
     C16 encoders: fields D<hexname> args...; result as outcome *)
  register "c16_chain" (fun a ->
    match a with
    | s :: dirs ->
        let ds = Ops_base.parse_dirs dirs in
        let name_is (nm : n list) (lit : string) = (string_of_bstr nm = lit) in
        let rec go (ds : (n list * darg list) list) (v : n list) : n list outcome =
          match ds with
          | [] -> Ok v
          | (nm, args) :: rest ->
              let r =
                if name_is nm "escapeJsString" then Ok (js_escape_soy jsstr_pair_html is_print_tbl v)
                else if name_is nm "json" then Ok (json_string v)
                else if name_is nm "escapeUri" then Ok (escape_uri v)
                else if name_is nm "escapeHtml" then Ok (tmpl_html_escape v)
                else if name_is nm "changeNewlineToBr" then Ok (change_newline_to_br v)
                else if name_is nm "noAutoescape" || name_is nm "id" then Ok v
                else if name_is nm "insertWordBreaks" then
                  (match args with DInt k :: _ -> Ok (insert_word_breaks v k) | _ -> Err [])
                else if name_is nm "truncate" then
                  (match args with
                   | [DInt k] -> truncate v k true
                   | [DInt k; DBool e] -> truncate v k e
                   | _ -> Err [])
                else Crash []
              in
              (match r with Ok v' -> go rest v' | o -> o)
        in
        outcome_s (fun v -> [hex_of_bstr v]) (go ds (bstr_of_hex s))
    | _ -> failwith "c16_chain: arity")
