(* C16: encoders and the Spec decoders *)
open Model
open Driver

let opt_s (o : n list option) : string list =
  match o with Some v -> ["some"; hex_of_bstr v] | None -> ["none"]

(* canonical text of a JSON value (Spec/Json.v jvalue): numbers as the exact normalised decimal *)
let rec canon_jv (j : jvalue) : string =
  match j with
  | JNull -> "null"
  | JBool true -> "true"
  | JBool false -> "false"
  | JNum (neg, m, e) -> "#" ^ (if neg then "-" else "") ^ string_of_n m ^ "e" ^ string_of_z e
  | JStr s -> "\"" ^ (if s = [] then "" else hex_of_bstr s) ^ "\""
  | JArr l -> "[" ^ String.concat "," (List.map canon_jv l) ^ "]"
  | JObj m -> "{" ^ String.concat "," (List.map (fun (k, x) -> "\"" ^ (if k = [] then "" else hex_of_bstr k) ^ "\":" ^ canon_jv x) m) ^ "}"

let () =
  (* json of a value (sexp, possibly several fields): Model/JsonEncode.v on the tree's nil-collection flag *)
  register "c16_json" (fun a ->
    let v = Sexp_ast.value_of (Sexp.parse (String.concat " " a)) in
    outcome_s (fun s -> [hex_of_bstr s]) (json_encode json_nil_null v));
  (* the Spec reader on a text: canonical form of the value, or none *)
  register "json_canon" (fun a -> match a with
    | [s] -> (match json_parse (bstr_of_hex s) with
              | Some j -> ["some"; hex_of_bstr (bstr_of_string (canon_jv j))]
              | None -> ["none"])
    | _ -> failwith "json_canon: arity");
  (* the theorem's statement evaluated on one value: json_parse (json_encode v) = jv_of_value v *)
  register "c16_json_rt" (fun a ->
    let v = Sexp_ast.value_of (Sexp.parse (String.concat " " a)) in
    match json_encode json_nil_null v with
    | Ok s -> (match json_parse s, jv_of_value v with
               | Some j, Some j' -> [if j = j' then "same" else "differ"]
               | _, _ -> ["none"])
    | _ -> ["noenc"]);
  register "is_print" (fun a -> match a with [r] -> [bool_s (is_print_tbl (n_of_int (int_field r)))] | _ -> failwith "is_print: arity");
  register "js_escape" (fun a -> match a with [s] -> [hex_of_bstr (js_escape is_print_tbl (bstr_of_hex s))] | _ -> failwith "js_escape: arity");
  register "json_string" (fun a -> match a with [s] -> [hex_of_bstr (json_string (bstr_of_hex s))] | _ -> failwith "json_string: arity");
  register "pct_decode" (fun a -> match a with [s] -> opt_s (pct_decode (bstr_of_hex s)) | _ -> failwith "pct_decode: arity");
  register "uri_safe" (fun a -> match a with [s] -> [bool_s (List.for_all uri_safe_byte (bstr_of_hex s))] | _ -> failwith "uri_safe: arity");
  (* js_read q body : q = quote byte *)
  register "js_read" (fun a -> match a with [q; s] -> opt_s (js_read_literal_q (n_of_int (int_field q)) (bstr_of_hex s)) | _ -> failwith "js_read: arity");
  register "json_parse_string" (fun a -> match a with [s] -> opt_s (json_parse_string (bstr_of_hex s)) | _ -> failwith "json_parse_string: arity");
  register "remove_newlines" (fun a -> match a with [s] -> [hex_of_bstr (remove_newlines (bstr_of_hex s))] | _ -> failwith "remove_newlines: arity");
  (* chain of directives on a string, as apply_fn does, extended with the two
     C16 encoders: fields D<hexname> args...; result as outcome *)
  register "c16_chain" (fun a ->
    match a with
    | s :: dirs ->
        let ds = Ops_base.parse_dirs dirs in
        let name_is (nm : n list) (lit : string) = (string_of_bstr nm = lit) in
        let rec go (ds : (n list * darg list) list) (v : n list) : n list outcome =
          match ds with
          | [] -> Ok v
          | (nm, args) :: rest ->
              let r =
                if name_is nm "escapeJsString" then Ok (js_escape_soy jsstr_pair_html is_print_tbl v)
                else if name_is nm "json" then Ok (json_string v)
                else if name_is nm "escapeUri" then Ok (escape_uri v)
                else if name_is nm "escapeHtml" then Ok (tmpl_html_escape v)
                else if name_is nm "changeNewlineToBr" then Ok (change_newline_to_br v)
                else if name_is nm "noAutoescape" || name_is nm "id" then Ok v
                else if name_is nm "insertWordBreaks" then
                  (match args with DInt k :: _ -> Ok (insert_word_breaks v k) | _ -> Err [])
                else if name_is nm "truncate" then
                  (match args with
                   | [DInt k] -> truncate v k true
                   | [DInt k; DBool e] -> truncate v k e
                   | _ -> Err [])
                else Crash []
              in
              (match r with Ok v' -> go rest v' | o -> o)
        in
        outcome_s (fun v -> [hex_of_bstr v]) (go ds (bstr_of_hex s))
    | _ -> failwith "c16_chain: arity")
