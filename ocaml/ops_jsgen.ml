(* C14 / C04: the JavaScript generator model *)
open Model
open Driver
open Sexp
open Sexp_ast

let rec part_of = function
  | L [A "raw"; t] -> JMRaw (xs (atom t))
  | L [A "ph"; n] -> JMPh (xs (atom n))
  | L (A "plural" :: v :: cases) ->
      JMPlural (xs (atom v), List.map (function L (A "case" :: ps) -> List.map part_of ps | _ -> failwith "bad plural case") cases)
  | t -> failwith ("bad part " ^ to_string t)

let msgs_of = function
  | A "none" -> None
  | L (A "msgs" :: ms) ->
      Some (List.map (function L (id :: ps) -> (nn id, List.map part_of ps) | _ -> failwith "bad msg") ms)
  | t -> failwith ("bad msgs " ^ to_string t)

let chunk_kind = function CText _ -> "t" | CStrLit (_, _) -> "s" | CName _ -> "n" | CNum _ -> "d" | CFile _ -> "f"

let () =
  (* jsgen <5|6> <fuel> (jsfile xName MSGS NODE...)  ->  ok <hex text> <#chunks> | err <hex> | ... *)
  register "jsgen" (fun a ->
    match a with
    | fmt :: fuel :: rest ->
        (match Sexp.parse (String.concat " " rest) with
         | L (A "jsfile" :: name :: msgs :: body) ->
             let o = { o_fmt = (if int_field fmt = 6 then ES6 else ES5); o_msgs = msgs_of msgs; o_order = (fun l -> List.rev l) } in
             (match gen_file o (nat_of_int (int_field fuel)) (xs (atom name)) (List.map node_of body) with
              | Ok cs -> ["ok"; hex_of_bstr (render_chunks is_print_tbl cs); "#" ^ string_of_int (List.length cs)]
              | Err m -> ["err"; hex_of_bstr m] | Crash m -> ["crash"; hex_of_bstr m]
              | Diverge -> ["diverge"] | OutOfFuel -> ["fuel"] | OutOfModel -> ["outofmodel"])
         | _ -> failwith "jsgen: bad file sexp")
    | _ -> failwith "jsgen: arity");
  (* jsgen_lits: the template-originated strings of the generated text, in order: one field q:hex per CStrLit *)
  register "jsgen_lits" (fun a ->
    match a with
    | fmt :: fuel :: rest ->
        (match Sexp.parse (String.concat " " rest) with
         | L (A "jsfile" :: name :: msgs :: body) ->
             let o = { o_fmt = (if int_field fmt = 6 then ES6 else ES5); o_msgs = msgs_of msgs; o_order = (fun l -> List.rev l) } in
             (match gen_file o (nat_of_int (int_field fuel)) (xs (atom name)) (List.map node_of body) with
              | Ok cs -> "ok" :: List.filter_map (function CStrLit (q, s) -> Some (string_of_int (int_of_n q) ^ ":" ^ hex_of_bstr s) | _ -> None) cs
              | _ -> ["fail"])
         | _ -> failwith "jsgen_lits: bad file sexp")
    | _ -> failwith "jsgen_lits: arity")
