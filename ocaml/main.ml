let () =
  try
    while true do
      let line = input_line stdin in
      let parts = List.filter (fun s -> s <> "") (String.split_on_char ' ' line) in
      (match parts with
       | [] -> print_string "!empty\n"
       | op :: args ->
           (try print_string (String.concat " " ((try Hashtbl.find Driver.ops op with Not_found -> failwith ("unknown op " ^ op)) args) ^ "\n")
            with e -> print_string ("!" ^ Printexc.to_string e ^ "\n")));
      flush stdout
    done
  with End_of_file -> flush stdout
