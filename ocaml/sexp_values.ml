(* S-expression syntax of reflect-shaped Go values (Model.goval), on top of the value syntax
   of sexp_ast.ml (V below):
     G ::= gnil | (gb 0|1) | (gi W Z) | (gu W Z) | (gf W FL) | (gs x<hex>) | (gt x<hex>)
         | gslicenil | (gslice G...) | gmapnil | (gmap (x<hex> G)...) | (gbadmap N)
         | (gstruct (x<hex> EXPORTED EMBEDDED G)...)          EXPORTED, EMBEDDED ::= 0 | 1
         | gptrnil | (gnilptrto 0|1) | (gptr G) | gifacenil | (giface G)
         | (gmarshal V G) | (gval V) | gunsupported
   (gnilptrto 1): a nil pointer to a value-receiver Marshaler type, (gnilptrto 0): to a data.Value type;
   (gmarshal V G): MarshalValue() returns V, G is the same value as reflection sees it
   W = width in bits, Z = decimal integer, FL = nan | inf+ | inf- | z+ | z- | (f m e). *)
open Model
open Driver
open Sexp
open Sexp_ast

let rec goval_of (t : Sexp.t) : goval =
  match t with
  | A "gnil" -> GNil
  | L [A "gb"; x] -> GBool (bb x)
  | L [A "gi"; w; z] -> GInt (nn w, zz z)
  | L [A "gu"; w; z] -> GUint (nn w, zz z)
  | L [A "gf"; w; f] -> GFloat (nn w, fl_of f)
  | L [A "gs"; s] -> GStr (xs (atom s))
  | L [A "gt"; s] -> GTime (xs (atom s))
  | A "gslicenil" -> GSlice None
  | L (A "gslice" :: items) -> GSlice (Some (List.map goval_of items))
  | A "gmapnil" -> GMap None
  | L (A "gmap" :: items) ->
      GMap (Some (List.map (function L [k; g] -> (xs (atom k), goval_of g) | _ -> failwith "bad gmap entry") items))
  | L [A "gbadmap"; n] -> GMapBadKey (nn n)
  | L (A "gstruct" :: fields) ->
      GStruct (List.map (function
                 | L [name; ex; emb; g] -> (xs (atom name), (bb ex, (bb emb, goval_of g)))
                 | _ -> failwith "bad gstruct field") fields)
  | A "gptrnil" -> GPtr None
  | L [A "gptr"; g] -> GPtr (Some (goval_of g))
  | A "gifacenil" -> GIface None
  | L [A "giface"; g] -> GIface (Some (goval_of g))
  | L [A "gnilptrto"; m] -> GNilPtrTo (bb m)
  | L [A "gmarshal"; v; g] -> GMarshal (value_of v, goval_of g)
  | L [A "gval"; v] -> GValue (value_of v)
  | A "gunsupported" -> GUnsupported
  | t -> failwith ("bad goval " ^ Sexp.to_string t)

(* a request's fields (split on spaces by the driver) back to one S-expression *)
let sexp_of_fields (fs : string list) : Sexp.t = Sexp.parse (String.concat " " fs)
let value_s (v : value) : string list = [Sexp.to_string (value_to v)]
