(* Model runner: reads one request per line on stdin, writes one response per
   line on stdout.  Request: <op> <field>...   Field: hex bytes ("-" = empty),
   or #<decimal integer>.  Response: fields in the same syntax, or "!<msg>". *)
open Model

let rec pos_of_int (i : int) : positive =
  if i = 1 then XH else if i land 1 = 0 then XO (pos_of_int (i lsr 1)) else XI (pos_of_int (i lsr 1))
let n_of_int (i : int) : n = if i = 0 then N0 else Npos (pos_of_int i)
let rec int_of_pos = function XH -> 1 | XO p -> 2 * int_of_pos p | XI p -> 2 * int_of_pos p + 1
let int_of_n = function N0 -> 0 | Npos p -> int_of_pos p
let z_of_int (i : int) : z = if i = 0 then Z0 else if i > 0 then Zpos (pos_of_int i) else Zneg (pos_of_int (-i))
let int_of_z = function Z0 -> 0 | Zpos p -> int_of_pos p | Zneg p -> - (int_of_pos p)
let rec nat_of_int (i : int) : nat = if i <= 0 then O else S (nat_of_int (i - 1))
let rec int_of_nat = function O -> 0 | S n -> 1 + int_of_nat n

(* big integers as decimal strings <-> Z, via Zarith-free schoolbook on positives *)
let z_of_string (s : string) : z =
  let neg = String.length s > 0 && s.[0] = '-' in
  let digits = if neg then String.sub s 1 (String.length s - 1) else s in
  let ten = Npos (XO (XI (XO XH))) in
  let acc = ref N0 in
  String.iter (fun c -> acc := N.add (N.mul !acc ten) (n_of_int (Char.code c - 48))) digits;
  match !acc with N0 -> Z0 | Npos p -> if neg then Zneg p else Zpos p
let string_of_n (v : n) : string =
  let ten = Npos (XO (XI (XO XH))) in
  let rec go v acc =
    match v with
    | N0 -> if acc = "" then "0" else acc
    | _ -> let (q, r) = N.div_eucl v ten in go q (string_of_int (int_of_n r) ^ acc) in
  go v ""
let string_of_z = function Z0 -> "0" | Zpos p -> string_of_n (Npos p) | Zneg p -> "-" ^ string_of_n (Npos p)

let hexval c = match c with
  | '0'..'9' -> Char.code c - 48 | 'a'..'f' -> Char.code c - 87 | 'A'..'F' -> Char.code c - 55
  | _ -> failwith "bad hex"
let bstr_of_hex (s : string) : n list =
  if s = "-" then [] else begin
    let n = String.length s / 2 in
    List.init n (fun i -> n_of_int (hexval s.[2*i] * 16 + hexval s.[2*i+1]))
  end
let hex_of_bstr (l : n list) : string =
  if l = [] then "-" else begin
    let buf = Buffer.create 64 in
    List.iter (fun c -> Buffer.add_string buf (Printf.sprintf "%02x" (int_of_n c))) l;
    Buffer.contents buf
  end
let bstr_of_string (s : string) : n list = List.init (String.length s) (fun i -> n_of_int (Char.code s.[i]))
let string_of_bstr (l : n list) : string =
  let buf = Buffer.create 64 in List.iter (fun c -> Buffer.add_char buf (Char.chr (int_of_n c land 255))) l; Buffer.contents buf
let int_field (s : string) : int = int_of_string (String.sub s 1 (String.length s - 1))
let big_field (s : string) : z = z_of_string (String.sub s 1 (String.length s - 1))
let bool_s b = if b then "#1" else "#0"
let n_s v = "#" ^ string_of_n v
let z_s v = "#" ^ string_of_z v

let outcome_s (f : 'a -> string list) (o : 'a outcome) : string list =
  match o with
  | Ok v -> "ok" :: f v
  | Err m -> ["err"; hex_of_bstr m]
  | Crash m -> ["crash"; hex_of_bstr m]
  | Diverge -> ["diverge"]
  | OutOfFuel -> ["fuel"]
  | OutOfModel -> ["outofmodel"]

(* operation registry: each ops_*.ml file registers its operations *)
let ops : (string, string list -> string list) Hashtbl.t = Hashtbl.create 64
let register (name : string) (f : string list -> string list) = Hashtbl.replace ops name f
