(* C11: soymsg.Parts, pomsg Validate/Msgid/MsgidPlural, the extractor's entry,
   newBundle and rendering with a bundle (Model/MsgParts.v). *)
open Model
open Driver
open Sexp_ast

let parts_s (ps : part list) : string list =
  ("#" ^ string_of_int (List.length ps))
  :: List.concat_map (function PText t -> ["T"; hex_of_bstr t] | PPh n -> ["P"; hex_of_bstr n]) ps

let cls = function
  | Ok _ -> "ok" | Err _ -> "err" | Crash _ -> "crash" | Diverge -> "diverge" | OutOfFuel -> "fuel" | OutOfModel -> "outofmodel"

(* entries: #n then n x (#id <hex var> #k <hex str> x k); returns the entries and the remaining tokens *)
let rec take_n n f toks =
  if n = 0 then ([], toks) else
    let (x, toks) = f toks in
    let (r, toks) = take_n (n - 1) f toks in
    (x :: r, toks)
let parse_entry toks =
  match toks with
  | id :: v :: k :: r ->
      let (strs, r) = take_n (int_field k) (function s :: r -> (bstr_of_hex s, r) | [] -> failwith "c11: msgstr missing") r in
      ({ po_id = Z.to_N (big_field id); po_var = bstr_of_hex v; po_strs = strs }, r)
  | _ -> failwith "c11: bad entry"
let parse_entries toks =
  match toks with
  | n :: r -> take_n (int_field n) parse_entry r
  | [] -> failwith "c11: entries missing"

let () =
  register "c11_parts" (fun a -> match a with
    | [s] -> parts_s (parts (bstr_of_hex s))
    | _ -> failwith "c11_parts: arity");
  (* c11_msg <sexp of a msg node> ->
       <validate class> <pinned validate class> <extract: none|some|err|crash> <var> <msgid> <msgid_plural> <pinned extract class> *)
  register "c11_msg" (fun a ->
    match node_of (Sexp.parse (String.concat " " a)) with
    | NMsg (_, id, mn, ds, body) ->
        let ex = extract_msg id mn ds body in
        let exs = (match ex with
                   | Ok None -> ["none"; "-"; "-"; "-"]
                   | Ok (Some e) -> ["some"; hex_of_bstr e.pe_var; hex_of_bstr e.pe_msgid; hex_of_bstr e.pe_msgid_plural]
                   | o -> [cls o; "-"; "-"; "-"]) in
        [cls (validate body); cls (validate_pinned body)] @ exs
        @ [(match extract_msg_pinned id mn ds body with Ok None -> "none" | Ok (Some _) -> "some" | o -> cls o)]
    | _ -> failwith "c11_msg: not a msg node");
  (* c11_bundle <pinned 0|1> <entries> -> ok #n (#id S|L)*n | err *)
  register "c11_bundle" (fun a -> match a with
    | p :: toks ->
        let (es, _) = parse_entries toks in
        (match (if int_field p = 1 then new_bundle_pinned es else new_bundle es) with
         | Ok bd -> "ok" :: ("#" ^ string_of_int (List.length bd))
                    :: List.concat_map (fun (id, m) -> [n_s id; (match m with CSimple _ -> "S" | CPlural _ -> "L")]) bd
         | o -> [cls o])
    | _ -> failwith "c11_bundle: arity");
  (* c11_render <key> <xTemplate> <fuel> <rule> <pinned 0|1> <entries> ; <data sexp>
     -> as render: <class> ... <writes>  (class "badbundle" when newBundle fails) *)
  register "c11_render" (fun a -> match a with
    | key :: tname :: fuel :: rule :: pinned :: rest ->
        let reg = Hashtbl.find Ops_interp.registries key in
        let (es, rest) = parse_entries rest in
        let s = String.concat " " rest in
        let ds = (match String.index_opt s ';' with
                  | Some i -> String.trim (String.sub s (i + 1) (String.length s - i - 1))
                  | None -> failwith "c11_render: missing ;") in
        let (did, dm) = (match value_of (Sexp.parse ds) with
                         | VMap (id, m) -> (id, m)
                         | VNull -> (N0, [])
                         | _ -> failwith "c11_render: data must be a map") in
        (match (if int_field pinned = 1 then new_bundle_pinned es else new_bundle es) with
         | Ok bd ->
             let cf = { c_reg = reg; c_ij = None; c_oblig = []; c_msgs = None } in
             let r = render_b cf (plural_rule (n_of_int (int_field rule))) bd (nat_of_int (int_field fuel)) (xs tname) did dm None None (n_of_int 1000000) in
             let c = (match r.rr_outcome with
                      | Ok _ -> ["ok"] | Err m -> ["err"; hex_of_bstr m] | Crash m -> ["crash"; hex_of_bstr m]
                      | Diverge -> ["diverge"] | OutOfFuel -> ["fuel"] | OutOfModel -> ["outofmodel"]) in
             String.concat "," c :: List.map hex_of_bstr r.rr_writes
         | _ -> ["badbundle"])
    | _ -> failwith "c11_render: arity")
