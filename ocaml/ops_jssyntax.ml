(* C14: the token grammar of Spec/JsSyntax.v on real bytes and on the model's chunks *)
open Model
open Driver
open Sexp
open Sexp_ast

let rec toks_eq a b = match a, b with
  | [], [] -> true
  | x :: a', y :: b' -> tok_eqb x y && toks_eq a' b'
  | _, _ -> false

(* index of the first token the recogniser refuses (for diagnostics) *)
let fail_index (m : bool) (ts : jstoken list) : int =
  let rec go ts md stk i = match ts with
    | [] -> i
    | t :: r -> (match js_step m md stk t with Some ((md', stk'), _) -> go r md' stk' (i + 1) | None -> i) in
  go ts (MStmt false) [] 0

let parse_class (m : bool) (ts : jstoken list option) : string list =
  match ts with
  | None -> ["lexfail"]
  | Some ts ->
      (match js_parse m ts with
       | Some p -> ["ok"; "#" ^ string_of_int (List.length ts); bool_s (bracket_balanced ts);
                    hex_of_bstr (List.concat (List.map (fun n -> n @ [n_of_int 10]) (prog_funs p)))]
       | None -> ["parsefail"; "#" ^ string_of_int (fail_index m ts); "#" ^ string_of_int (List.length ts)])

(* ---- random programs of the grammar: a random walk of the recogniser over a token alphabet ---- *)
let punct_text = function
  | PLPar -> "(" | PRPar -> ")" | PLBrk -> "[" | PRBrk -> "]" | PLBrc -> "{" | PRBrc -> "}"
  | PDot -> "." | PSemi -> ";" | PComma -> "," | PColon -> ":" | PQuest -> "?" | PAssign -> "=" | PPlusEq -> "+="
  | PPlusPlus -> "++" | PBang -> "!" | PMinus -> "-" | PBin s -> string_of_bstr s
let rec tok_text = function
  | TId s -> string_of_bstr s | TKw (_, s) -> string_of_bstr s | TNum s -> string_of_bstr s | TStr -> "'s'" | TP p -> punct_text p
  | TNL t -> "\n" ^ tok_text t
let alphabet : jstoken list =
  let id s = tok_of_ident (bstr_of_string s) in
  List.map id ["a"; "b"; "c"; "opt_data"; "opt_sb"; "opt_ijData"; "from"; "soy"; "$$f"; "x_1"; "of"; "get"; "async"; "undefined"]
  @ List.map (fun (s, _) -> tok_of_ident s) kw_table
  @ [TNum (bstr_of_string "0"); TNum (bstr_of_string "5"); TNum (bstr_of_string "1.5"); TNum (bstr_of_string "1e3"); TStr]
  @ List.map (fun p -> TP p) [PLPar; PRPar; PLBrk; PRBrk; PLBrc; PRBrc; PDot; PSemi; PComma; PColon; PQuest; PAssign; PPlusEq; PPlusPlus; PBang; PMinus]
  @ List.map (fun s -> TP (PBin (bstr_of_string s))) ["*"; "/"; "%"; "+"; "=="; "!="; "<"; ">"; "<="; ">="; "&&"; "||"]
let closers : jstoken list =
  [TP PRPar; TP PRBrk; TP PRBrc; TP PSemi; TP PColon; tok_of_ident (bstr_of_string "a")]
let random_program (m : bool) (seed : int) (steps : int) : string option =
  let st = ref (seed land 0x3fffffff) in
  let rnd n = st := (!st * 1103515245 + 12345) land 0x3fffffff; (!st lsr 8) mod n in
  let fresh = ref 0 in
  let shuffle l = let a = Array.of_list l in
    for i = Array.length a - 1 downto 1 do let j = rnd (i + 1) in let t = a.(i) in a.(i) <- a.(j); a.(j) <- t done; Array.to_list a in
  let buf = Buffer.create 256 in
  let rec first md stk = function
    | [] -> None
    | t :: r -> (match js_step m md stk t with Some ((md', stk'), _) -> Some (t, md', stk') | None -> first md stk r) in
  let rec go md stk i =
    if i > steps + 300 then None
    else match md, stk with
      | MStmt _, [] when i >= steps -> Some (Buffer.contents buf)
      | _ ->
        (* a declared name is always fresh: duplicate declarations are early errors outside a token grammar *)
        let cands =
          (match md with
           | MFunName | MImportName -> incr fresh; [TId (bstr_of_string (Printf.sprintf "f%d" !fresh))]
           | _ -> if i >= steps then closers @ shuffle alphabet else shuffle alphabet) in
        (match first md stk cands with
         | None -> None
         | Some (t, md', stk') ->
             (* no line break before a postfix ++ (a restricted production: lex_bytes flags the token, js_step refuses it) *)
             if i > 0 then Buffer.add_char buf (if t <> TP PPlusPlus && rnd 8 = 0 then '\n' else ' ');
             Buffer.add_string buf (tok_text t); go md' stk' (i + 1)) in
  go (MStmt false) [] 0

let () =
  (* jsrandom <0|1 module> <#seed> <#steps>  ->  ok <hex text> | none *)
  register "jsrandom" (fun a ->
    match a with
    | [m; seed; steps] ->
        (match random_program (int_field m = 1) (int_field seed) (int_field steps) with
         | Some s -> ["ok"; hex_of_bstr (bstr_of_string s)]
         | None -> ["none"])
    | _ -> failwith "jsrandom: arity");
  (* jsparse <0|1 module> <hex bytes>  ->  ok <#tokens> <balanced> <hex function names, LF-terminated> | lexfail | parsefail <#index> <#tokens> *)
  register "jsparse" (fun a ->
    match a with
    | [m; h] -> parse_class (int_field m = 1) (lex_bytes (bstr_of_hex h))
    | _ -> failwith "jsparse: arity");
  (* jswf <5|6> <fuel> <hex real text> (jsfile ...)  ->  <same tokens 0|1|-> model <class...> bytes <class...> chk <file_chk 0|1> *)
  register "jswf" (fun a ->
    match a with
    | fmt :: fuel :: real :: rest ->
        (match Sexp.parse (String.concat " " rest) with
         | L (A "jsfile" :: name :: msgs :: body) ->
             let es6 = int_field fmt = 6 in
             let o = { o_fmt = (if es6 then ES6 else ES5); o_msgs = Ops_jsgen.msgs_of msgs; o_order = (fun l -> List.rev l) } in
             let tb = lex_bytes (bstr_of_hex real) in
             let chk = bool_s (file_chk (if es6 then ES6 else ES5) (nat_of_int 200) (List.map node_of body)) in
             (match gen_file o (nat_of_int (int_field fuel)) (xs (atom name)) (List.map node_of body) with
              | Ok cs ->
                  let tc = lex_chunks cs in
                  let same = match tc, tb with Some x, Some y -> bool_s (toks_eq x y) | _ -> "-" in
                  [same; "model"] @ parse_class es6 tc @ ["bytes"] @ parse_class es6 tb @ ["chk"; chk]
              | _ -> ["-"; "model"; "nogen"; "bytes"] @ parse_class es6 tb @ ["chk"; chk])
         | _ -> failwith "jswf: bad file sexp")
    | _ -> failwith "jswf: arity")
