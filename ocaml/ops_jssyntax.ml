(* C14: the token grammar of Spec/JsSyntax.v on real bytes and on the model's chunks *)
open Model
open Driver
open Sexp
open Sexp_ast

let rec toks_eq a b = match a, b with
  | [], [] -> true
  | x :: a', y :: b' -> tok_eqb x y && toks_eq a' b'
  | _, _ -> false

(* index of the first token the recogniser refuses (for diagnostics) *)
let fail_index (m : bool) (ts : jstoken list) : int =
  let rec go ts md stk i = match ts with
    | [] -> i
    | t :: r -> (match js_step m md stk t with Some ((md', stk'), _) -> go r md' stk' (i + 1) | None -> i) in
  go ts (MStmt false) [] 0

let parse_class (m : bool) (ts : jstoken list option) : string list =
  match ts with
  | None -> ["lexfail"]
  | Some ts ->
      (match js_parse m ts with
       | Some p -> ["ok"; "#" ^ string_of_int (List.length ts); bool_s (bracket_balanced ts);
                    hex_of_bstr (List.concat (List.map (fun n -> n @ [n_of_int 10]) (prog_funs p)))]
       | None -> ["parsefail"; "#" ^ string_of_int (fail_index m ts); "#" ^ string_of_int (List.length ts)])

let () =
  (* jsparse <0|1 module> <hex bytes>  ->  ok <#tokens> <balanced> <hex function names, LF-terminated> | lexfail | parsefail <#index> <#tokens> *)
  register "jsparse" (fun a ->
    match a with
    | [m; h] -> parse_class (int_field m = 1) (lex_bytes (bstr_of_hex h))
    | _ -> failwith "jsparse: arity");
  (* jswf <5|6> <fuel> <hex real text> (jsfile ...)  ->  <same tokens 0|1|-> model <class...> bytes <class...> chk <file_chk 0|1> *)
  register "jswf" (fun a ->
    match a with
    | fmt :: fuel :: real :: rest ->
        (match Sexp.parse (String.concat " " rest) with
         | L (A "jsfile" :: name :: msgs :: body) ->
             let es6 = int_field fmt = 6 in
             let o = { o_fmt = (if es6 then ES6 else ES5); o_msgs = Ops_jsgen.msgs_of msgs; o_order = (fun l -> List.rev l) } in
             let tb = lex_bytes (bstr_of_hex real) in
             let chk = bool_s (file_chk (if es6 then ES6 else ES5) (nat_of_int 200) (List.map node_of body)) in
             (match gen_file o (nat_of_int (int_field fuel)) (xs (atom name)) (List.map node_of body) with
              | Ok cs ->
                  let tc = lex_chunks cs in
                  let same = match tc, tb with Some x, Some y -> bool_s (toks_eq x y) | _ -> "-" in
                  [same; "model"] @ parse_class es6 tc @ ["bytes"] @ parse_class es6 tb @ ["chk"; chk]
              | _ -> ["-"; "model"; "nogen"; "bytes"] @ parse_class es6 tb @ ["chk"; chk])
         | _ -> failwith "jswf: bad file sexp")
    | _ -> failwith "jswf: arity")
