(* C10: hash32 / fingerprint / calcID, base names, placeholder naming.

   A message body travels as a prefix-coded token list:
     part := T <hex>                                   raw text
           | P <node> <hex String()>                   placeholder
           | L <node> <hex String()> #ncases (#value #nparts part* )* #ndefault part*     plural
     node := NP <expr> | NH <hex tag text> | NE <expr> | NO
     expr := EG <hex name> | ED <hex key> #n (K <hex> | O)* | EO                                   *)
open Model
open Driver

let rec take_n n f toks =
  if n = 0 then ([], toks) else
    let (x, toks) = f toks in
    let (r, toks) = take_n (n - 1) f toks in
    (x :: r, toks)

let parse_access toks =
  match toks with
  | "K" :: k :: r -> (PaKey (bstr_of_hex k), r)
  | "O" :: r -> (PaOther, r)
  | _ -> failwith "msgid: bad access"

let parse_expr toks =
  match toks with
  | "EG" :: n :: r -> (PeGlobal (bstr_of_hex n), r)
  | "ED" :: k :: n :: r -> let (acc, r) = take_n (int_field n) parse_access r in (PeDataRef (bstr_of_hex k, acc), r)
  | "EO" :: r -> (PeOther, r)
  | _ -> failwith "msgid: bad expr"

let parse_node toks =
  match toks with
  | "NP" :: r -> let (e, r) = parse_expr r in (PhPrint e, r)
  | "NH" :: t :: r -> (PhHtml (bstr_of_hex t), r)
  | "NE" :: r -> let (e, r) = parse_expr r in (PhExpr e, r)
  | "NO" :: r -> (PhOther, r)
  | _ -> failwith "msgid: bad node"

let rec parse_part toks =
  match toks with
  | "T" :: t :: r -> (SText (bstr_of_hex t), r)
  | "P" :: r -> let (n, r) = parse_node r in
      (match r with s :: r -> (SPh (n, bstr_of_hex s), r) | [] -> failwith "msgid: placeholder without String()")
  | "L" :: r -> let (n, r) = parse_node r in
      (match r with
       | s :: nc :: r ->
           let parse_case toks = (match toks with
             | v :: np :: r -> let (body, r) = take_n (int_field np) parse_part r in ((big_field v, body), r)
             | _ -> failwith "msgid: bad case") in
           let (cases, r) = take_n (int_field nc) parse_case r in
           (match r with
            | nd :: r -> let (d, r) = take_n (int_field nd) parse_part r in (SPlural (n, bstr_of_hex s, cases, d), r)
            | [] -> failwith "msgid: plural without default")
       | _ -> failwith "msgid: bad plural")
  | _ -> failwith "msgid: bad part"

let parse_body toks =
  match toks with
  | n :: r -> let (parts, r) = take_n (int_field n) parse_part r in
      if r <> [] then failwith "msgid: trailing tokens" else parts
  | [] -> failwith "msgid: empty body"

(* base names in document order (the harness compares them with genBasePlaceholderName) *)
let rec bases_of (p : mpart) : n list list =
  match p with
  | MText _ -> []
  | MPh (b, _) -> [b]
  | MPlural (b, _, cases, d) -> b :: List.concat_map (fun (_, body) -> List.concat_map bases_of body) cases @ List.concat_map bases_of d

let () =
  register "hash32" (fun a -> match a with [s; c] -> [n_s (hash32 (bstr_of_hex s) (Z.to_N (big_field c)))] | _ -> failwith "hash32: arity");
  register "fingerprint" (fun a -> match a with [s] -> [n_s (fingerprint (bstr_of_hex s))] | _ -> failwith "fingerprint: arity");
  register "calc_id" (fun a -> match a with [s; m] -> [n_s (calc_id (bstr_of_hex s) (bstr_of_hex m))] | _ -> failwith "calc_id: arity");
  register "tuu" (fun a -> match a with [s] -> [hex_of_bstr (to_upper_underscore (bstr_of_hex s))] | _ -> failwith "tuu: arity");
  register "tag_name" (fun a -> match a with [s] -> outcome_s (fun (n, t) -> [hex_of_bstr n; hex_of_bstr t]) (tag_name (bstr_of_hex s)) | _ -> failwith "tag_name: arity");
  (* gen_base <default hex> <node> *)
  register "gen_base" (fun a -> match a with
    | d :: toks -> let (n, r) = parse_node toks in
        if r <> [] then failwith "gen_base: trailing tokens" else outcome_s (fun v -> [hex_of_bstr v]) (gen_base n (bstr_of_hex d))
    | _ -> failwith "gen_base: arity");
  (* msg <meaning> <desc> <body> ->
     ok #id <PlaceholderString> <fingerprinted string> #k name*k #j base*j *)
  register "msg" (fun a -> match a with
    | meaning :: desc :: toks ->
        let body = parse_body toks in
        (match msg_of_source (bstr_of_hex meaning) (bstr_of_hex desc) body with
         | Ok m ->
             outcome_s (fun (id, (phs, (fps, names))) ->
                 let bases = List.concat_map bases_of m.m_body in
                 [n_s id; hex_of_bstr phs; hex_of_bstr fps; "#" ^ string_of_int (List.length names)]
                 @ List.map hex_of_bstr names
                 @ ["#" ^ string_of_int (List.length bases)] @ List.map hex_of_bstr bases)
               (msg_observe m)
         | o -> outcome_s (fun _ -> []) o)
    | _ -> failwith "msg: arity");
  (* msg_pinned <order: 0 = insertion, 1 = reverse> <meaning> <body> -> ok <PlaceholderString> (the algorithm before the repair) *)
  register "msg_pinned" (fun a -> match a with
    | o :: meaning :: toks ->
        let body = parse_body toks in
        let order = if int_field o = 0 then (fun l -> l) else List.rev in
        (match msg_of_source (bstr_of_hex meaning) [] body with
         | Ok m -> outcome_s (fun named -> [hex_of_bstr (write_fp_list true named)]) (msg_named_pinned order m.m_body)
         | o -> outcome_s (fun _ -> []) o)
    | _ -> failwith "msg_pinned: arity")
