(* expression parser model (Model/ExprParser.v), literal conversion and quoting *)
open Model
open Driver
open Sexp
open Sexp_ast

let b01 x = A (if x then "1" else "0")
let binop_name = function
  | OMul -> "mul" | ODiv -> "div" | OMod -> "mod" | OAdd -> "add" | OSub -> "sub" | OEq -> "eq" | ONotEq -> "neq"
  | OGt -> "gt" | OGte -> "gte" | OLt -> "lt" | OLte -> "lte" | OOr -> "or" | OAnd -> "and" | OElvis -> "elvis"

(* node -> S-expression, the syntax of go/cmd/soyverif/astsexp.go (expression nodes, print,
   directive); map literal items sorted by key as the Go side prints them *)
let rec node_to (n : node) : Sexp.t =
  let p x = A (string_of_n x) in
  match n with
  | NNull q -> L [A "null"; p q]
  | NBool (q, x) -> L [A "bool"; p q; b01 x]
  | NInt (q, z) -> L [A "int"; p q; A (string_of_z z)]
  | NFloat (q, f) -> L [A "float"; p q; fl_to f]
  | NString (q, qu, v) -> L [A "str"; p q; A (sx qu); A (sx v)]
  | NGlobal (q, nm, v) -> L [A "global"; p q; A (sx nm); value_to v]
  | NFunc (q, nm, args) -> L (A "func" :: p q :: A (sx nm) :: List.map node_to args)
  | NListLit (q, items) -> L (A "listlit" :: p q :: List.map node_to items)
  | NMapLit (q, items) ->
      let items = List.sort (fun (k1, _) (k2, _) -> compare (sx k1) (sx k2)) items in
      L (A "maplit" :: p q :: List.map (fun (k, v) -> L [A (sx k); node_to v]) items)
  | NDataRef (q, k, acc) -> L (A "ref" :: p q :: A (sx k) :: List.map node_to acc)
  | NAccIndex (q, ns, i) -> L [A "idx"; p q; b01 ns; A (string_of_z i)]
  | NAccKey (q, ns, k) -> L [A "key"; p q; b01 ns; A (sx k)]
  | NAccExpr (q, ns, e) -> L [A "exp"; p q; b01 ns; node_to e]
  | NNot (q, a) -> L [A "not"; p q; node_to a]
  | NNeg (q, a) -> L [A "neg"; p q; node_to a]
  | NBin (op, q, a, c) -> L [A "bin"; A (binop_name op); p q; node_to a; node_to c]
  | NTern (q, a, c, d) -> L [A "tern"; p q; node_to a; node_to c; node_to d]
  | NPrint (q, a, ds) -> L (A "print" :: p q :: node_to a :: List.map node_to ds)
  | NDirective (q, nm, args) -> L (A "dir" :: p q :: A (sx nm) :: List.map node_to args)
  | _ -> L [A "other"; A "0"; A "x"]

(* tokens: triples  #typ #pos <hex val> *)
let rec toks_of (fs : string list) : tok list =
  match fs with
  | [] -> []
  | ty :: po :: v :: rest ->
      { t_typ = n_of_int (int_field ty); t_pos = n_of_int (int_field po); t_val = bstr_of_hex v } :: toks_of rest
  | _ -> failwith "tokens: not a multiple of three fields"

let presult_s (r : node presult) : string list =
  match r with
  | POk (n, st) -> ["ok"; "#" ^ string_of_int (int_of_nat st.p_recv); Sexp.to_string (node_to n)]
  | PErr (t, c, st) -> ["err"; n_s t.t_pos; hex_of_bstr c; "#" ^ string_of_int (int_of_nat st.p_recv)]
  | PCrash m -> ["crash"; hex_of_bstr m]
  | PFuel -> ["fuel"]

let () =
  (* parse_expr <fuel> <tokens> *)
  register "parse_expr" (fun a ->
    match a with
    | fuel :: toks -> presult_s (parse_expr_top (nat_of_int (int_field fuel)) (toks_of toks))
    | _ -> failwith "parse_expr: arity");
  (* parse_print <fuel> <pos> <tokens> *)
  register "parse_print" (fun a ->
    match a with
    | fuel :: p :: toks -> presult_s (parse_print (nat_of_int (int_field fuel)) (n_of_int (int_field p)) (pst_init (toks_of toks)))
    | _ -> failwith "parse_print: arity");
  register "unquote_string" (fun a ->
    match a with
    | [s] -> (match unquote_string (bstr_of_hex s) with Some v -> ["some"; hex_of_bstr v] | None -> ["none"])
    | _ -> failwith "unquote_string: arity");
  register "quote_string" (fun a ->
    match a with [s] -> [hex_of_bstr (quote_string (bstr_of_hex s))] | _ -> failwith "quote_string: arity");
  register "parse_int" (fun a ->
    match a with
    | [base; s] -> (match parse_int (n_of_int (int_field base)) (bstr_of_hex s) with Some z -> ["some"; z_s z] | None -> ["none"])
    | _ -> failwith "parse_int: arity");
  (* print_node <sexp of an expression / print / directive node> *)
  register "print_node" (fun a ->
    match print_node (node_of (Sexp.parse (String.concat " " a))) with
    | Some v -> ["some"; hex_of_bstr v]
    | None -> ["none"]);
  (* tokens_of <sexp>: the items the Spec says the printed text lexes to, as #typ hexval ... *)
  register "tokens_of" (fun a ->
    let n = node_of (Sexp.parse (String.concat " " a)) in
    let ts = (match n with NPrint _ -> tokens_of_print n | _ -> tokens_of n) in
    List.concat_map (fun t -> [n_s t.t_typ; hex_of_bstr t.t_val]) ts);
  (* c17_kw_clause <sexp>: the keyword clause of lexical well-formedness (Spec/LexKeyword.v) *)
  register "c17_kw_clause" (fun a ->
    [bool_s (c17_kw_clause (node_of (Sexp.parse (String.concat " " a))))]);
  register "parse_float" (fun a ->
    match a with
    | [s] -> (match parse_float (bstr_of_hex s) with Some f -> ["some"; Sexp.to_string (fl_to f)] | None -> ["none"])
    | _ -> failwith "parse_float: arity")
