(* C04: MiniJS -- ceval / cgen / js_eval on a subset expression *)
open Model
open Driver
open Sexp
open Sexp_ast

let rec cexpr_of (t : Sexp.t) : cexpr =
  match t with
  | L [A "cnull"] -> CNull
  | L [A "cbool"; x] -> CBool (bb x)
  | L [A "cint"; z] -> CInt (zz z)
  | L [A "cstr"; s] -> CStr (xs (atom s))
  | L (A "cvar" :: k :: accs) ->
      CVar (xs (atom k), List.map (function
        | L [A "key"; ns; k] -> CAKey (bb ns, xs (atom k))
        | L [A "idx"; ns; i] -> CAIdx (bb ns, zz i)
        | _ -> failwith "bad access") accs)
  | L [A "cneg"; a] -> CNeg (cexpr_of a)
  | L [A "cnot"; a] -> CNot (cexpr_of a)
  | L [A "cbin"; A op; a; c] -> CBin (binop_of op, cexpr_of a, cexpr_of c)
  | L [A "ctern"; c; a; d] -> CTern (cexpr_of c, cexpr_of a, cexpr_of d)
  | L [A "cloop"; A k; x] ->
      CLoop ((match k with "index" -> LIndex | "isFirst" -> LIsFirst | "isLast" -> LIsLast | _ -> failwith "bad loop function"), xs (atom x))
  | _ -> failwith ("bad cexpr " ^ to_string t)

let json_str (l : n list) : string =
  let buf = Buffer.create 32 in
  Buffer.add_char buf '"';
  List.iter (fun c -> let c = int_of_n c in
    if c = 34 || c = 92 then (Buffer.add_char buf '\\'; Buffer.add_char buf (Char.chr c))
    else if c < 32 then Buffer.add_string buf (Printf.sprintf "\\u%04x" c)
    else Buffer.add_char buf (Char.chr c)) l;
  Buffer.add_char buf '"'; Buffer.contents buf

let rec json_of (v : jval) : string =
  match v with
  | JUndef -> "\"__undef__\""
  | JNull -> "null"
  | JBool x -> if x then "true" else "false"
  | JNum z -> string_of_z z
  | JStr s -> json_str s
  | JArr l -> "[" ^ String.concat "," (List.map json_of l) ^ "]"
  | JObj m -> "{" ^ String.concat "," (List.map (fun (k, x) -> json_str k ^ ":" ^ json_of x) m) ^ "}"

let hex_of_string s = hex_of_bstr (bstr_of_string s)

let () =
  (* minijs (ij VALUE|none) (scope (xKey xGen)...) (env (xKey VALUE)...) CEXPR
     -> <hex js text> <ceval: none | hex json of to_js v> <js_eval: ok hexjson | err hex | oom> *)
  register "minijs" (fun a ->
    match Sexp.parse ("(" ^ String.concat " " a ^ ")") with
    | L [ijs; L (A "scope" :: scs); L (A "env" :: envs); e] ->
        let ij = (match ijs with A "none" -> None | L [A "ij"; v] -> Some (value_of v) | _ -> failwith "bad ij") in
        (* (k g) binds a Soy name; (loop x n) is the frame of a loop over $x with the counter n (scope.go pushForEach) *)
        let loops = List.filter_map (function L [A "loop"; x; n] -> Some (xs (atom x), nn n) | _ -> None) scs in
        let sc = List.filter_map (function L [A "loop"; _; _] -> None | L [k; g] -> Some (xs (atom k), xs (atom g)) | _ -> failwith "bad scope") scs in
        let env = List.map (function L [k; v] -> (xs (atom k), value_of v) | _ -> failwith "bad env") envs in
        let envf k = (try Some (List.assoc k env) with Not_found -> None) in
        let ce = cexpr_of e in
        (* the variables of a loop frame: x_n holds $x, xIndex_n the hidden $x.index, xLimit_n the hidden $x.lastIndex + 1 *)
        let loop_vars = List.concat_map (fun (x, n) ->
          (match envf x with Some v -> [(jsc_name x n, to_js v)] | None -> [])
          @ (match envf (x @ jk_index) with Some (VInt i) -> [(jsc_name (x @ t_index) n, JNum i)] | _ -> [])
          @ (match envf (x @ c_lastindex) with Some (VInt l) -> [(jsc_name (x @ t_limit) n, JNum (Z.add l (Zpos XH)))] | _ -> [])) loops in
        let hidden k = List.exists (fun (x, _) -> k = x || k = x @ jk_index || k = x @ c_lastindex) loops in
        let je = { je_vars = (match ij with Some v -> [(t_opt_ij, to_js v)] | None -> [])
                             @ List.filter_map (fun (k, g) -> match envf k with Some v -> Some (g, to_js v) | None -> Some (g, JUndef)) sc
                             @ loop_vars;
                   je_data = JObj (List.filter_map (fun (k, v) -> if List.mem_assoc k sc || hidden k then None else Some (k, to_js v)) env) } in
        let jx = cgen (List.map (fun (x, n) -> loop_frame x n) (List.rev loops) @ [sc]) ce in
        let text = render_chunks is_print_tbl (jprint jx) in
        let cev = (match ceval ij envf ce with Some v -> hex_of_string (json_of (to_js v)) | None -> "none") in
        let jev = (match js_eval je jx with
                   | Ok v -> ["ok"; hex_of_string (json_of v)]
                   | Err m -> ["err"; hex_of_bstr m]
                   | _ -> ["oom"]) in
        [hex_of_bstr text; cev] @ jev
    | _ -> failwith "minijs: bad request")

let () =
  register "js_escape_html" (fun a -> match a with [s] -> [hex_of_bstr (js_escape_html (bstr_of_hex s))] | _ -> failwith "js_escape_html: arity")

(* ---- statements ---- *)
let pdir_of = function
  | A "id" -> PId | A "noauto" -> PNoAutoescape | A "esc" -> PEscapeHtml
  | t -> failwith ("bad pdir " ^ to_string t)

let rec cstmt_of (t : Sexp.t) : cstmt =
  match t with
  | L [A "sraw"; s] -> SRaw (xs (atom s))
  | L (A "sprint" :: e :: ds) -> SPrint (cexpr_of e, List.map pdir_of ds)
  | L [A "slet"; nm; e] -> SLet (xs (atom nm), cexpr_of e)
  | L [A "sletc"; nm; body] -> SLetC (xs (atom nm), cblk_of body)
  | L [A "sif"; c; th; rest] -> SIf (cexpr_of c, cblk_of th, celse_of rest)
  | L [A "sswitch"; v; cs] -> SSwitch (cexpr_of v, ccases_of cs)
  | L [A "sfor"; x; e; body; hasie; ie] -> SFor (xs (atom x), cexpr_of e, cblk_of body, bb hasie, cblk_of ie)
  | L [A "scall"; nm; d; L ps] ->
      SCall (xs (atom nm),
             (match d with A "dnone" -> DNone | A "dall" -> DAll | L [A "dexpr"; e] -> DExpr (cexpr_of e) | _ -> failwith "bad cdata"),
             List.fold_right (fun p acc -> match p with
               | L [A "pv"; k; e] -> PVal (xs (atom k), cexpr_of e, acc)
               | L [A "pc"; k; body] -> PCont (xs (atom k), cblk_of body, acc)
               | _ -> failwith "bad param") ps PNil)
  | L [A "smsg"; body] -> SMsg (cblk_of body)
  | L [A "smsgpl"; pn; v; q] -> SMsgPl (xs (atom pn), cexpr_of v, cplur_of q)
  | L [A "scss"; A "none"; sfx] -> SCss (None, xs (atom sfx))
  | L [A "scss"; e; sfx] -> SCss (Some (cexpr_of e), xs (atom sfx))
  | L [A "sforrange"; x; L (a1 :: rest); body; hasie; ie] ->
      SForRange (xs (atom x), cexpr_of a1, List.map cexpr_of rest, cblk_of body, bb hasie, cblk_of ie)
  | _ -> failwith ("bad cstmt " ^ to_string t)
and cblk_of (t : Sexp.t) : cblk =
  match t with
  | L (A "blk" :: items) -> List.fold_right (fun x acc -> BCons (cstmt_of x, acc)) items BNil
  | _ -> failwith ("bad cblk " ^ to_string t)
and cplur_of (t : Sexp.t) : cplur =
  match t with
  | L [A "qdflt"; b] -> QDflt (cblk_of b)
  | L [A "qcase"; z; b; rest] -> QCase (zz z, cblk_of b, cplur_of rest)
  | _ -> failwith ("bad cplur " ^ to_string t)
and celse_of (t : Sexp.t) : celse =
  match t with
  | L [A "enone"] -> ENone
  | L [A "eelse"; b] -> EElse (cblk_of b)
  | L [A "eelif"; c; th; rest] -> EElif (cexpr_of c, cblk_of th, celse_of rest)
  | _ -> failwith ("bad celse " ^ to_string t)
and ccases_of (t : Sexp.t) : ccases =
  match t with
  | L [A "knone"] -> KNone
  | L [A "kdefault"; b] -> KDefault (cblk_of b)
  | L [A "kcase"; L (v :: vs); b; rest] -> KCase (cexpr_of v, List.map cexpr_of vs, cblk_of b, ccases_of rest)
  | _ -> failwith ("bad ccases " ^ to_string t)

(* the callee of the statement tie: tie.echo(data) = "E(a=..;x=..;y=..;f=..;)" with String(v) of a primitive, U for undefined,
   O for an array or object -- the same function in three places: on the Soy data (sout's callee), on the MiniJS object
   (js_exec's function), and in JavaScript (go/cmd/soyverif/c04_stmt.go) *)
let echo_name = bstr_of_string "tie.echo"
let echo_keys = List.map bstr_of_string ["a"; "x"; "y"; "f"]
let echo_repr (v : jval) : n list =
  match js_tostring v with Some s -> s | None -> (match v with JUndef -> bstr_of_string "U" | _ -> bstr_of_string "O")
let echo_of (get : n list -> jval) : n list =
  bstr_of_string "E(" @ List.concat (List.map (fun k -> k @ bstr_of_string "=" @ echo_repr (get k) @ bstr_of_string ";") echo_keys) @ bstr_of_string ")"
let echo_callee (name : n list) (cenv : n list -> value option) : n list option =
  if name = echo_name then Some (echo_of (fun k -> match cenv k with Some v -> to_js v | None -> JUndef)) else None
let echo_jcall (name : n list) (dv : jval) (_ : jval) : n list outcome =
  if name = echo_name then
    (match dv with JObj m -> Ok (echo_of (fun k -> match assoc_s k m with Some v -> v | None -> JUndef)) | _ -> OutOfModel)
  else Err je_ref

let () =
  (* minijs_stmt (ij VALUE|none) (scope (xKey xGen)...) COUNTER (env (xKey VALUE)...) MODE xBUF CSTMT
     -> <hex js text of the statement at indentation 1>
        <sout: none | hex text>
        <js_exec from buf = '': ok <hex json [[name, value]...] of the variables afterwards> | err hex | oom> *)
  register "minijs_stmt" (fun a ->
    match Sexp.parse ("(" ^ String.concat " " a ^ ")") with
    | L [ijs; L (A "scope" :: scs); cnt; L (A "env" :: envs); mode; buf; s] ->
        let ij = (match ijs with A "none" -> None | L [A "ij"; v] -> Some (value_of v) | _ -> failwith "bad ij") in
        let sc = List.map (function L [k; g] -> (xs (atom k), xs (atom g)) | _ -> failwith "bad scope") scs in
        let env = List.map (function L [k; v] -> (xs (atom k), value_of v) | _ -> failwith "bad env") envs in
        let envf k = (try Some (List.assoc k env) with Not_found -> None) in
        let mode = nn mode and n = nn cnt and buf = xs (atom buf) in
        let cs = cstmt_of s in
        let je = { je_vars = [(buf, JStr [])]
                             @ (match ij with Some v -> [(t_opt_ij, to_js v)] | None -> [])
                             @ List.map (fun (k, g) -> match envf k with Some v -> (g, to_js v) | None -> (g, JUndef)) sc;
                   je_data = JObj (List.filter_map (fun (k, v) -> if List.mem_assoc k sc then None else Some (k, to_js v)) env) } in
        let (j, _) = sgen mode buf [sc] n cs in
        let text = render_chunks is_print_tbl (sprint (S O) j) in
        let denvf k = if List.mem_assoc k sc then None else envf k in
        let so = (match sout ij mode go_print_text denvf echo_callee envf cs with Some (t, _) -> hex_of_bstr t | None -> "none") in
        let ex = (match js_exec echo_jcall je j with
                  | Ok je' -> ["ok"; hex_of_string ("[" ^ String.concat "," (List.map (fun (k, v) -> "[" ^ json_str k ^ "," ^ json_of v ^ "]") je'.je_vars) ^ "]")]
                  | Err m -> ["err"; hex_of_bstr m]
                  | _ -> ["oom"]) in
        [hex_of_bstr text; so] @ ex
    | _ -> failwith "minijs_stmt: bad request")
