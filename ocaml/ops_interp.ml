open Model
open Driver
open Sexp_ast

let registries : (string, registry) Hashtbl.t = Hashtbl.create 16

let opt_nat s = if s = "none" then None else Some (nat_of_int (int_field s))
let opt_n s = if s = "none" then None else Some (n_of_int (int_field s))

let () =
  (* load_registry <key> <sexp...> : the sexp may contain spaces, so the rest of the line is re-joined *)
  register "load_registry" (fun a ->
    match a with
    | key :: rest -> Hashtbl.replace registries key (registry_of (Sexp.parse (String.concat " " rest))); ["#1"]
    | _ -> failwith "load_registry");
  (* render <key> <xTemplate> <fuel> <calls_left|none> <bytes_left|none> <oblig: x,x,..|-> <ij sexp | none> ; <data sexp> *)
  register "render" (fun a ->
    match a with
    | key :: tname :: fuel :: cl :: bl :: oblig :: rest ->
        let reg = Hashtbl.find registries key in
        let s = String.concat " " rest in
        let (ijs, ds) = (match String.index_opt s ';' with
                         | Some i -> (String.trim (String.sub s 0 i), String.trim (String.sub s (i + 1) (String.length s - i - 1)))
                         | None -> failwith "render: missing ;") in
        let ij = if ijs = "none" then None else Some (value_of (Sexp.parse ijs)) in
        let (did, dm) = (match value_of (Sexp.parse ds) with
                         | VMap (id, m) -> (id, m)
                         | VNull -> (N0, [])
                         | _ -> failwith "render: data must be a map") in
        let ob = if oblig = "-" then [] else List.map (fun h -> bstr_of_hex h) (String.split_on_char ',' oblig) in
        let cf = { c_reg = reg; c_ij = ij; c_oblig = ob; c_msgs = None } in
        let r = render cf (nat_of_int (int_field fuel)) (xs tname) did dm (opt_nat cl) (opt_n bl) (n_of_int 1000000) in
        let cls = (match r.rr_outcome with
                   | Ok _ -> ["ok"] | Err m -> ["err"; hex_of_bstr m] | Crash m -> ["crash"; hex_of_bstr m]
                   | Diverge -> ["diverge"] | OutOfFuel -> ["fuel"] | OutOfModel -> ["outofmodel"]) in
        [String.concat "," cls; hex_of_bstr r.rr_file; n_s r.rr_line; "#" ^ string_of_int (int_of_nat r.rr_unbound);
         "#" ^ string_of_int (List.length r.rr_shared_writes)] @ List.map hex_of_bstr r.rr_writes
    | _ -> failwith "render");
  register "eval_expr" (fun a ->
    match a with
    | fuel :: rest ->
        let n = node_of (Sexp.parse (String.concat " " rest)) in
        (match eval_expr (nat_of_int (int_field fuel)) n with
         | Ok v -> ["ok"; Sexp.to_string (value_to v)]
         | Err m -> ["err"; hex_of_bstr m] | Crash m -> ["crash"; hex_of_bstr m]
         | Diverge -> ["diverge"] | OutOfFuel -> ["fuel"] | OutOfModel -> ["outofmodel"])
    | _ -> failwith "eval_expr")
