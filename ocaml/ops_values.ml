(* C20 operations: data/value.go (truthy, equals, value_string) and data/convert.go (convert) *)
open Model
open Driver
open Sexp
open Sexp_ast
open Sexp_values

let to_lower_hi = to_lower_of_table gen_to_lower_sample

let () =
  (* convert #<lowerCamel 0|1> G  ->  ok V | err <hex> | outofmodel *)
  register "convert" (fun args -> match args with
    | lc :: g -> outcome_s value_s (convert_with to_lower_hi (int_field lc <> 0) (goval_of (sexp_of_fields g)))
    | _ -> failwith "convert: arity");
  (* truthy V -> #0|#1 *)
  register "truthy" (fun args -> [bool_s (truthy (value_of (sexp_of_fields args)))]);
  (* equals (V V) -> #0|#1 *)
  register "equals" (fun args -> match sexp_of_fields args with
    | L [a; c] -> [bool_s (equals (value_of a) (value_of c))]
    | _ -> failwith "equals: expected (V V)");
  (* equals_all (V1 ... Vn) -> n*n characters 0/1, row-major: equals Vi Vj *)
  register "equals_all" (fun args -> match sexp_of_fields args with
    | L vs ->
        let vs = Array.of_list (List.map value_of vs) in
        let n = Array.length vs in
        let buf = Bytes.make (n * n) '0' in
        for i = 0 to n - 1 do for j = 0 to n - 1 do
          if equals vs.(i) vs.(j) then Bytes.set buf (i * n + j) '1' done done;
        [if n = 0 then "-" else "b" ^ Bytes.to_string buf]
    | _ -> failwith "equals_all: expected a list");
  (* value_string V -> ok <hex> | err <hex> | outofmodel *)
  register "value_string" (fun args -> outcome_s (fun s -> [hex_of_bstr s]) (value_string (value_of (sexp_of_fields args))));
  (* lower_camel <hex name> -> <hex key> *)
  register "lower_camel" (fun args -> match args with
    | [s] -> [hex_of_bstr (lower_camel_key to_lower_hi (bstr_of_hex s))]
    | _ -> failwith "lower_camel: arity");
  (* the regenerated Truthy body of Float, on (is_zero, is_nan) *)
  register "gen_truthy_float" (fun args -> match args with
    | [z; n] -> [bool_s (gen_truthy_float (int_field z <> 0) (int_field n <> 0))]
    | _ -> failwith "gen_truthy_float: arity")
