(* S-expression <-> Model.node / Model.value / registry *)
open Model
open Driver
open Sexp

let xs (a : string) : n list =   (* x<hex> *)
  if String.length a = 0 || a.[0] <> 'x' then failwith ("expected x-string, got " ^ a)
  else if String.length a = 1 then [] else bstr_of_hex (String.sub a 1 (String.length a - 1))
let sx (l : n list) : string = if l = [] then "x" else "x" ^ hex_of_bstr l
let atom = function A a -> a | L _ -> failwith "expected atom"
let nn t = (match z_of_string (atom t) with Z0 -> N0 | Zpos p -> Npos p | Zneg _ -> failwith "negative N")
let zz t = z_of_string (atom t)
let bb t = (atom t) <> "0"

let fl_of = function
  | A "nan" -> FNaN | A "inf+" -> FInf false | A "inf-" -> FInf true
  | A "z+" -> FZero false | A "z-" -> FZero true
  | L [A "f"; m; e] -> FFin (zz m, zz e)
  | t -> failwith ("bad float " ^ to_string t)
let fl_to = function
  | FNaN -> A "nan" | FInf false -> A "inf+" | FInf true -> A "inf-"
  | FZero false -> A "z+" | FZero true -> A "z-"
  | FFin (m, e) -> L [A "f"; A (string_of_z m); A (string_of_z e)]

let rec value_of = function
  | A "undef" -> VUndef | A "vnull" -> VNull
  | L [A "vb"; x] -> VBool (bb x)
  | L [A "vi"; z] -> VInt (zz z)
  | L [A "vf"; f] -> VFloat (fl_of f)
  | L [A "vs"; s] -> VStr (xs (atom s))
  | L (A "vl" :: id :: items) -> VList (nn id, List.map value_of items)
  | L (A "vm" :: id :: items) ->
      VMap (nn id, List.fold_left (fun m kv -> match kv with
                                     | L [k; v] -> map_set m (xs (atom k)) (value_of v)
                                     | _ -> failwith "bad map entry") [] items)
  | t -> failwith ("bad value " ^ to_string t)
let rec value_to = function
  | VUndef -> A "undef" | VNull -> A "vnull"
  | VBool x -> L [A "vb"; A (if x then "1" else "0")]
  | VInt z -> L [A "vi"; A (string_of_z z)]
  | VFloat f -> L [A "vf"; fl_to f]
  | VStr s -> L [A "vs"; A (sx s)]
  | VList (id, l) -> L (A "vl" :: A (string_of_n id) :: List.map value_to l)
  | VMap (id, m) -> L (A "vm" :: A (string_of_n id) :: List.map (fun (k, v) -> L [A (sx k); value_to v]) m)

let binop_of = function
  | "mul" -> OMul | "div" -> ODiv | "mod" -> OMod | "add" -> OAdd | "sub" -> OSub | "eq" -> OEq | "neq" -> ONotEq
  | "gt" -> OGt | "gte" -> OGte | "lt" -> OLt | "lte" -> OLte | "or" -> OOr | "and" -> OAnd | "elvis" -> OElvis
  | s -> failwith ("bad binop " ^ s)

let rec node_of (t : Sexp.t) : node =
  match t with
  | L (A tag :: rest) -> begin
      match tag, rest with
      | "null", [p] -> NNull (nn p)
      | "bool", [p; x] -> NBool (nn p, bb x)
      | "int", [p; z] -> NInt (nn p, zz z)
      | "float", [p; f] -> NFloat (nn p, fl_of f)
      | "str", [p; q; v] -> NString (nn p, xs (atom q), xs (atom v))
      | "global", [p; nm; v] -> NGlobal (nn p, xs (atom nm), value_of v)
      | "func", p :: nm :: args -> NFunc (nn p, xs (atom nm), List.map node_of args)
      | "listlit", p :: items -> NListLit (nn p, List.map node_of items)
      | "maplit", p :: items -> NMapLit (nn p, List.map (function L [k; v] -> (xs (atom k), node_of v) | _ -> failwith "maplit") items)
      | "ref", p :: k :: acc -> NDataRef (nn p, xs (atom k), List.map node_of acc)
      | "idx", [p; ns; i] -> NAccIndex (nn p, bb ns, zz i)
      | "key", [p; ns; k] -> NAccKey (nn p, bb ns, xs (atom k))
      | "exp", [p; ns; e] -> NAccExpr (nn p, bb ns, node_of e)
      | "not", [p; a] -> NNot (nn p, node_of a)
      | "neg", [p; a] -> NNeg (nn p, node_of a)
      | "bin", [A op; p; a; c] -> NBin (binop_of op, nn p, node_of a, node_of c)
      | "tern", [p; a; c; d] -> NTern (nn p, node_of a, node_of c, node_of d)
      | "list", p :: ns -> NList (nn p, List.map node_of ns)
      | "raw", [p; tx] -> NRawText (nn p, xs (atom tx))
      | "print", p :: a :: ds -> NPrint (nn p, node_of a, List.map node_of ds)
      | "dir", p :: nm :: args -> NDirective (nn p, xs (atom nm), List.map node_of args)
      | "css", [p; e; sfx] -> NCss (nn p, opt_node e, xs (atom sfx))
      | "log", [p; bdy] -> NLog (nn p, node_of bdy)
      | "debugger", [p] -> NDebugger (nn p)
      | "if", p :: cs -> NIf (nn p, List.map node_of cs)
      | "ifcond", [p; c; bdy] -> NIfCond (nn p, opt_node c, node_of bdy)
      | "for", [p; v; l; bdy; ie] -> NFor (nn p, xs (atom v), node_of l, node_of bdy, opt_node ie)
      | "switch", p :: v :: cs -> NSwitch (nn p, node_of v, List.map node_of cs)
      | "case", [p; L vs; bdy] -> NSwitchCase (nn p, List.map node_of vs, node_of bdy)
      | "call", p :: nm :: ad :: d :: ps -> NCall (nn p, xs (atom nm), bb ad, opt_node d, List.map node_of ps)
      | "pval", [p; k; v] -> NParamValue (nn p, xs (atom k), node_of v)
      | "pcontent", [p; k; c] -> NParamContent (nn p, xs (atom k), node_of c)
      | "letv", [p; nm; e] -> NLetValue (nn p, xs (atom nm), node_of e)
      | "letc", [p; nm; bdy] -> NLetContent (nn p, xs (atom nm), node_of bdy)
      | "msg", [p; id; mn; ds; L bdy] -> NMsg (nn p, nn id, xs (atom mn), xs (atom ds), List.map node_of bdy)
      | "ph", [p; nm; bdy] -> NMsgPlaceholder (nn p, xs (atom nm), node_of bdy)
      | "tag", [p; tx] -> NMsgHtmlTag (nn p, xs (atom tx))
      | "plural", [p; vn; v; L cs; L df] -> NMsgPlural (nn p, xs (atom vn), node_of v, List.map node_of cs, List.map node_of df)
      | "pcase", [p; v; L bdy] -> NMsgPluralCase (nn p, zz v, List.map node_of bdy)
      | "template", [p; nm; bdy; ae; pr] -> NTemplate (nn p, xs (atom nm), node_of bdy, nn ae, bb pr)
      | "namespace", [p; nm; ae] -> NNamespace (nn p, xs (atom nm), nn ae)
      | "soydoc", p :: ps -> NSoyDoc (nn p, List.map node_of ps)
      | "sdparam", [p; nm; o] -> NSoyDocParam (nn p, xs (atom nm), bb o)
      | "hparam", [p; o; nm; ty; d] -> NHeaderParam (nn p, bb o, xs (atom nm), xs (atom ty), opt_node d)
      | "literal", [p; bdy] -> NLiteral (nn p, xs (atom bdy))
      | "ident", [p; i] -> NIdent (nn p, xs (atom i))
      | "other", [p; w] -> NOther (nn p, xs (atom w))
      | _ -> failwith ("bad node " ^ tag)
    end
  | _ -> failwith ("bad node sexp " ^ to_string t)
and opt_node = function
  | A "none" -> None
  | L [A "some"; x] -> Some (node_of x)
  | t -> failwith ("bad option " ^ to_string t)

(* (registry (templates (t xName NODE xNsName nsAE ((xParam opt)...) xFile)...) (sources (xName xText)...) (files (xName xFile)...)) *)
let registry_of = function
  | L [A "registry"; L (A "templates" :: ts); L (A "sources" :: ss); L (A "files" :: fs)] ->
      { r_templates = List.map (function
          | L [A "t"; nm; nd; nsn; nsae; L ps; f] ->
              { t_name = xs (atom nm); t_node = node_of nd; t_ns_name = xs (atom nsn); t_ns_autoescape = nn nsae;
                t_params = List.map (function L [pn; o] -> (xs (atom pn), bb o) | _ -> failwith "param") ps;
                t_file = xs (atom f) }
          | _ -> failwith "bad template entry") ts;
        r_sources = List.map (function L [k; v] -> (xs (atom k), xs (atom v)) | _ -> failwith "source") ss;
        r_files = List.map (function L [k; v] -> (xs (atom k), xs (atom v)) | _ -> failwith "file") fs }
  | t -> failwith "bad registry"
