(* C02: the lexical-environment Spec (coq/Spec/Cmd.v) run on the same registry and data as the model *)
open Model
open Driver
open Sexp_ast

(* (ops files are linked in alphabetical order, so this one cannot see Ops_interp.registries) *)
let registries : (string, registry) Hashtbl.t = Hashtbl.create 16

let () =
  register "load_registry_spec" (fun a ->
    match a with
    | key :: rest ->
        let reg = registry_of (Sexp.parse (String.concat " " rest)) in
        Hashtbl.replace registries key reg;
        (* wf_registry; then how many expression roots the independent expression Spec reads, of how many *)
        let (cov, tot) = indep_coverage reg in
        [bool_s (wf_registry reg); n_s cov; n_s tot]
    | _ -> failwith "load_registry_spec");
  (* render_spec <key> <xTemplate> <fuel> <oblig: x,x,..|-> <ij sexp | none> ; <data sexp>
     -> <class[,msg]> <wf_registry #0/#1> <output hex> *)
  (* render_spec: Spec/Cmd.v; render_spec_indep: Spec/CmdIndep.v (expressions by Spec/Expr.v) *)
  List.iter (fun (opname, run) ->
  register opname (fun a ->
    match a with
    | key :: tname :: fuel :: oblig :: rest ->
        let reg = Hashtbl.find registries key in
        let s = String.concat " " rest in
        let (ijs, ds) = (match String.index_opt s ';' with
                         | Some i -> (String.trim (String.sub s 0 i), String.trim (String.sub s (i + 1) (String.length s - i - 1)))
                         | None -> failwith "render_spec: missing ;") in
        let ij = if ijs = "none" then None else Some (value_of (Sexp.parse ijs)) in
        let dm = (match value_of (Sexp.parse ds) with
                  | VMap (_, m) -> m
                  | VNull -> []
                  | _ -> failwith "render_spec: data must be a map") in
        let ob = if oblig = "-" then [] else List.map (fun h -> bstr_of_hex h) (String.split_on_char ',' oblig) in
        let cf = { c_reg = reg; c_ij = ij; c_oblig = ob; c_msgs = None } in
        let r = run cf (nat_of_int (int_field fuel)) (xs tname) dm (n_of_int 1000000) in
        let cls = (match r.sr_outcome with
                   | Ok _ -> ["ok"] | Err m -> ["err"; hex_of_bstr m] | Crash m -> ["crash"; hex_of_bstr m]
                   | Diverge -> ["diverge"] | OutOfFuel -> ["fuel"] | OutOfModel -> ["outofmodel"]) in
        [String.concat "," cls; bool_s (wf_registry reg); hex_of_bstr r.sr_out]
    | _ -> failwith "render_spec"))
  [("render_spec", render_spec); ("render_spec_indep", render_spec_indep)]
