(* minimal S-expressions: atoms are runs of non-space, non-paren characters *)
type t = A of string | L of t list

let parse (s : string) : t =
  let n = String.length s in
  let pos = ref 0 in
  let rec skip () = while !pos < n && (s.[!pos] = ' ' || s.[!pos] = '\t') do incr pos done
  and one () : t =
    skip ();
    if !pos >= n then failwith "sexp: unexpected end"
    else if s.[!pos] = '(' then begin
      incr pos;
      let items = ref [] in
      let fin = ref false in
      while not !fin do
        skip ();
        if !pos >= n then failwith "sexp: unclosed paren"
        else if s.[!pos] = ')' then (incr pos; fin := true)
        else items := one () :: !items
      done;
      L (List.rev !items)
    end else begin
      let st = !pos in
      while !pos < n && s.[!pos] <> ' ' && s.[!pos] <> '(' && s.[!pos] <> ')' do incr pos done;
      A (String.sub s st (!pos - st))
    end in
  let r = one () in
  r

let rec to_string = function
  | A a -> a
  | L l -> "(" ^ String.concat " " (List.map to_string l) ^ ")"
