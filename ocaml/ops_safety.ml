(* C06: range loop, EvalExpr through errRecover, ParseGlobals *)
open Model
open Driver
open Sexp_ast

let split_on_bar (fields : string list) : string list list =
  (* fields separated by the single field "|" *)
  let rec go acc cur = function
    | [] -> List.rev (List.rev cur :: acc)
    | "|" :: r -> go (List.rev cur :: acc) [] r
    | x :: r -> go acc (x :: cur) r in
  go [] [] fields

let () =
  (* c06_fl_json FL -> s<hex> | none : NumJson.fl_to_json, the model of json.Marshal(float64) *)
  register "c06_fl_json" (fun a ->
    match fl_to_json (fl_of (Sexp.parse (String.concat " " a))) with
    | Some s -> ["s" ^ hex_of_bstr s]
    | None -> ["none"]);
  (* c06_range <#i> <#limit> <#step> -> outcome, then #len and the elements *)
  register "c06_range" (fun a ->
    match a with
    | [i; l; s] ->
        outcome_s (fun vs -> ("#" ^ string_of_int (List.length vs)) ::
                             List.map (function VInt z -> z_s z | _ -> "?") vs)
          (func_range_repaired (big_field i) (big_field l) (big_field s))
    | _ -> failwith "c06_range: arity");
  (* c06_range_pinned <#fuel> <#i> <#limit> <#step> -> outcome class and length *)
  register "c06_range_pinned" (fun a ->
    match a with
    | [f; i; l; s] ->
        outcome_s (fun vs -> ["#" ^ string_of_int (List.length vs)])
          (range_loop_pinned (nat_of_int (int_field f)) (big_field i) (big_field l) (big_field s))
    | _ -> failwith "c06_range_pinned: arity");
  (* c06_eval <#nilsafe> <#fuel> <node sexp...> -> outcome, value sexp *)
  register "c06_eval" (fun a ->
    match a with
    | ns :: fuel :: rest ->
        let n = node_of (Sexp.parse (String.concat " " rest)) in
        outcome_s (fun v -> [Sexp.to_string (value_to v)])
          (eval_expr_impl (int_field ns <> 0) (nat_of_int (int_field fuel)) n)
    | _ -> failwith "c06_eval: arity");
  (* c06_reg_ok <key> -> #1 / #0 : the decidable hypothesis of render_no_escape on a loaded registry *)
  register "c06_reg_ok" (fun a ->
    match a with
    | [key] -> [bool_s (reg_ok (Hashtbl.find Ops_interp.registries key))]
    | _ -> failwith "c06_reg_ok: arity");
  (* c06_trim <hex> -> hex   (strings.TrimSpace) *)
  register "c06_trim" (fun a ->
    match a with [s] -> [hex_of_bstr (trim_space (bstr_of_hex s))] | _ -> failwith "c06_trim: arity");
  (* c06_globals <#fuel> <input hex> { | <text hex> <node sexp... or !> }
     the table gives parse.Expr's answer for every right-hand side the real run parsed *)
  register "c06_globals" (fun a ->
    match a with
    | fuel :: input :: rest ->
        let groups = (match split_on_bar rest with [] :: g -> g | g -> g) in
        let table = Hashtbl.create 16 in
        List.iter (function
          | txt :: "!" :: _ -> Hashtbl.replace table txt None
          | txt :: sexp -> Hashtbl.replace table txt (Some (node_of (Sexp.parse (String.concat " " sexp))))
          | [] -> ()) groups;
        let parse (t : n list) : node outcome =
          match Hashtbl.find_opt table (hex_of_bstr t) with
          | Some (Some n) -> Ok n
          | Some None -> Err (bstr_of_string "parse error")
          | None -> failwith ("no parse result supplied for right-hand side " ^ hex_of_bstr t) in
        outcome_s (fun g -> [Sexp.to_string (Sexp.L (List.map (fun (k, v) -> Sexp.L [Sexp.A (sx k); value_to v]) g))])
          (parse_globals parse (nat_of_int (int_field fuel)) (bstr_of_hex input))
    | _ -> failwith "c06_globals: arity")

(* ---- second wave: byte-string entry points, the call-depth cap ---- *)
let () =
  (* c06_eval_bytes <#fuel> <text hex> -> outcome, value sexp: parse.Expr (scanner + parser models) then EvalExpr *)
  register "c06_eval_bytes" (fun a ->
    match a with
    | [fuel; txt] ->
        outcome_s (fun v -> [Sexp.to_string (value_to v)])
          (eval_expr_bytes (nat_of_int (int_field fuel)) (bstr_of_hex txt))
    | _ -> failwith "c06_eval_bytes: arity");
  (* c06_parse_bytes <text hex> -> outcome class only *)
  register "c06_parse_bytes" (fun a ->
    match a with
    | [txt] -> outcome_s (fun _ -> []) (parse_expr_bytes (bstr_of_hex txt))
    | _ -> failwith "c06_parse_bytes: arity");
  (* c06_globals_bytes <#fuel> <input hex> -> outcome, ((xkey value) ...) *)
  register "c06_globals_bytes" (fun a ->
    match a with
    | [fuel; input] ->
        outcome_s (fun g -> [Sexp.to_string (Sexp.L (List.map (fun (k, v) -> Sexp.L [Sexp.A (sx k); value_to v]) g))])
          (parse_globals_bytes (nat_of_int (int_field fuel)) (bstr_of_hex input))
    | _ -> failwith "c06_globals_bytes: arity");
  (* c06_depth <key> <xTemplate> <#d> <ij sexp | none> ; <data sexp>
     -> <fuel = reg_height * (d+1)> <class of the d-capped walk with that fuel> <class of the (d-1)-capped walk>
        <class of render with that fuel>
     classes: answer | capped | fuel | crash | diverge *)
  register "c06_depth" (fun a ->
    match a with
    | key :: tname :: d :: rest ->
        let reg = Hashtbl.find Ops_interp.registries key in
        let s = String.concat " " rest in
        let (ijs, ds) = (match String.index_opt s ';' with
                         | Some i -> (String.trim (String.sub s 0 i), String.trim (String.sub s (i + 1) (String.length s - i - 1)))
                         | None -> failwith "c06_depth: missing ;") in
        let ij = if ijs = "none" then None else Some (value_of (Sexp.parse ijs)) in
        let (did, dm) = (match value_of (Sexp.parse ds) with
                         | VMap (id, m) -> (id, m)
                         | VNull -> (N0, [])
                         | _ -> failwith "c06_depth: data must be a map") in
        let cf = { c_reg = reg; c_ij = ij; c_oblig = []; c_msgs = None } in
        let d = int_field d in
        let h = int_of_nat (reg_height reg) in
        let fuel = h * (d + 1) in
        let name = xs tname in
        let cls (o : value outcome) = (match o with
            | Ok _ -> "answer"
            | Err m -> if m = e_capped then "capped" else "answer"
            | OutOfModel -> "answer" | OutOfFuel -> "fuel" | Crash _ -> "crash" | Diverge -> "diverge") in
        (match find_template reg.r_templates name with
         | None -> ["#" ^ string_of_int fuel; "notemplate"; "notemplate"; "notemplate"]
         | Some t ->
             let st0 = init_state (sc_enter (new_scope did dm)) (entry_mode t.t_ns_autoescape) name None None (n_of_int 1000000) in
             let run cap = cls (fst (walk_cap cf (nat_of_int cap) (nat_of_int fuel) t.t_node st0)) in
             let r = render cf (nat_of_int fuel) name did dm None None (n_of_int 1000000) in
             let rc = (match r.rr_outcome with
                       | Ok _ | Err _ | OutOfModel -> "answer" | OutOfFuel -> "fuel" | Crash _ -> "crash" | Diverge -> "diverge") in
             ["#" ^ string_of_int fuel; run d; (if d = 0 then "none" else run (d - 1)); rc])
    | _ -> failwith "c06_depth: arity")

(* ---- the extended model (Model/InterpJson.v): escapeJsString, json, round with digits ---- *)
let () =
  (* render_xj: same request and answer as "render" (ops_interp.ml), through Model.render_xj *)
  register "render_xj" (fun a ->
    match a with
    | key :: tname :: fuel :: cl :: bl :: oblig :: rest ->
        let reg = Hashtbl.find Ops_interp.registries key in
        let s = String.concat " " rest in
        let (ijs, ds) = (match String.index_opt s ';' with
                         | Some i -> (String.trim (String.sub s 0 i), String.trim (String.sub s (i + 1) (String.length s - i - 1)))
                         | None -> failwith "render_xj: missing ;") in
        let ij = if ijs = "none" then None else Some (value_of (Sexp.parse ijs)) in
        let (did, dm) = (match value_of (Sexp.parse ds) with
                         | VMap (id, m) -> (id, m)
                         | VNull -> (N0, [])
                         | _ -> failwith "render_xj: data must be a map") in
        let ob = if oblig = "-" then [] else List.map (fun h -> bstr_of_hex h) (String.split_on_char ',' oblig) in
        let cf = { c_reg = reg; c_ij = ij; c_oblig = ob; c_msgs = None } in
        let r = render_xj cf (nat_of_int (int_field fuel)) (xs tname) did dm (Ops_interp.opt_nat cl) (Ops_interp.opt_n bl) (n_of_int 1000000) in
        let cls = (match r.rr_outcome with
                   | Ok _ -> ["ok"] | Err m -> ["err"; hex_of_bstr m] | Crash m -> ["crash"; hex_of_bstr m]
                   | Diverge -> ["diverge"] | OutOfFuel -> ["fuel"] | OutOfModel -> ["outofmodel"]) in
        [String.concat "," cls; hex_of_bstr r.rr_file; n_s r.rr_line; "#" ^ string_of_int (int_of_nat r.rr_unbound);
         "#" ^ string_of_int (List.length r.rr_shared_writes)] @ List.map hex_of_bstr r.rr_writes
    | _ -> failwith "render_xj")

(* ---- user functions and directives: the behaviours installed by the harness (c06InstallUserCode) ---- *)
let () =
  let bs = bstr_of_string in
  let ufuncs (name : n list) : user_func option =
    if name = bs "userPanic" then Some { uf_arities = [n_of_int 0; n_of_int 1]; uf_apply = (fun _ -> UPanic (bs "boom")) }
    else if name = bs "userRuntime" then Some { uf_arities = [n_of_int 0]; uf_apply = (fun _ -> UPanic (bs "assignment to entry in nil map")) }
    else if name = bs "userNil" then Some { uf_arities = [n_of_int 0]; uf_apply = (fun _ -> UReturn None) }
    else if name = bs "userId" then Some { uf_arities = [n_of_int 1]; uf_apply = (function [v] -> UReturn (Some v) | _ -> UPanic (bs "index out of range")) }
    else if name = bs "userLen" then Some { uf_arities = [n_of_int 1];
           uf_apply = (function [VList (_, l)] -> UReturn (Some (VInt (z_of_int (List.length l)))) | _ -> UPanic (bs "interface conversion")) }
    else None in
  let udirs (name : n list) : user_directive option =
    if name = bs "udPanic" then Some { ud_arities = [n_of_int 0]; ud_cancel = true; ud_apply = (fun _ _ -> UPanic (bs "boom")) }
    else if name = bs "udNil" then Some { ud_arities = [n_of_int 0]; ud_cancel = false; ud_apply = (fun _ _ -> UReturn None) }
    else if name = bs "udId" then Some { ud_arities = [n_of_int 0]; ud_cancel = false; ud_apply = (fun v _ -> UReturn v) }
    else if name = bs "udCount" then Some { ud_arities = [n_of_int 0]; ud_cancel = true;
           ud_apply = (fun v _ -> match v with Some (VList (_, l)) -> UReturn (Some (VInt (z_of_int (List.length l)))) | _ -> UPanic (bs "interface conversion")) }
    else None in
  (* the user's entries over the extended model's *)
  let fhooks name = (match ufuncs name with Some uf -> Some (hook_of_user uf) | None -> x_funcs name) in
  let dtable name = (match udirs name with Some ud -> Some (dir_of_user ud) | None -> x_dirs name) in
  (* c06_render_user: same request and answer as "render" *)
  register "c06_render_user" (fun a ->
    match a with
    | key :: tname :: fuel :: cl :: bl :: oblig :: rest ->
        let reg = Hashtbl.find Ops_interp.registries key in
        let s = String.concat " " rest in
        let (ijs, ds) = (match String.index_opt s ';' with
                         | Some i -> (String.trim (String.sub s 0 i), String.trim (String.sub s (i + 1) (String.length s - i - 1)))
                         | None -> failwith "c06_render_user: missing ;") in
        let ij = if ijs = "none" then None else Some (value_of (Sexp.parse ijs)) in
        let (did, dm) = (match value_of (Sexp.parse ds) with
                         | VMap (id, m) -> (id, m)
                         | VNull -> (N0, [])
                         | _ -> failwith "c06_render_user: data must be a map") in
        let ob = if oblig = "-" then [] else List.map (fun h -> bstr_of_hex h) (String.split_on_char ',' oblig) in
        let cf = { c_reg = reg; c_ij = ij; c_oblig = ob; c_msgs = None } in
        let r = render_hook cf fhooks dtable (nat_of_int (int_field fuel)) (xs tname) did dm (Ops_interp.opt_nat cl) (Ops_interp.opt_n bl) (n_of_int 1000000) in
        let cls = (match r.rr_outcome with
                   | Ok _ -> ["ok"] | Err m -> ["err"; hex_of_bstr m] | Crash m -> ["crash"; hex_of_bstr m]
                   | Diverge -> ["diverge"] | OutOfFuel -> ["fuel"] | OutOfModel -> ["outofmodel"]) in
        [String.concat "," cls; hex_of_bstr r.rr_file; n_s r.rr_line; "#" ^ string_of_int (int_of_nat r.rr_unbound);
         "#" ^ string_of_int (List.length r.rr_shared_writes)] @ List.map hex_of_bstr r.rr_writes
    | _ -> failwith "c06_render_user")
