(* C06: range loop, EvalExpr through errRecover, ParseGlobals *)
open Model
open Driver
open Sexp_ast

let split_on_bar (fields : string list) : string list list =
  (* fields separated by the single field "|" *)
  let rec go acc cur = function
    | [] -> List.rev (List.rev cur :: acc)
    | "|" :: r -> go (List.rev cur :: acc) [] r
    | x :: r -> go acc (x :: cur) r in
  go [] [] fields

let () =
  (* c06_range <#i> <#limit> <#step> -> outcome, then #len and the elements *)
  register "c06_range" (fun a ->
    match a with
    | [i; l; s] ->
        outcome_s (fun vs -> ("#" ^ string_of_int (List.length vs)) ::
                             List.map (function VInt z -> z_s z | _ -> "?") vs)
          (func_range_repaired (big_field i) (big_field l) (big_field s))
    | _ -> failwith "c06_range: arity");
  (* c06_range_pinned <#fuel> <#i> <#limit> <#step> -> outcome class and length *)
  register "c06_range_pinned" (fun a ->
    match a with
    | [f; i; l; s] ->
        outcome_s (fun vs -> ["#" ^ string_of_int (List.length vs)])
          (range_loop_pinned (nat_of_int (int_field f)) (big_field i) (big_field l) (big_field s))
    | _ -> failwith "c06_range_pinned: arity");
  (* c06_eval <#nilsafe> <#fuel> <node sexp...> -> outcome, value sexp *)
  register "c06_eval" (fun a ->
    match a with
    | ns :: fuel :: rest ->
        let n = node_of (Sexp.parse (String.concat " " rest)) in
        outcome_s (fun v -> [Sexp.to_string (value_to v)])
          (eval_expr_impl (int_field ns <> 0) (nat_of_int (int_field fuel)) n)
    | _ -> failwith "c06_eval: arity");
  (* c06_reg_ok <key> -> #1 / #0 : the decidable hypothesis of render_no_escape on a loaded registry *)
  register "c06_reg_ok" (fun a ->
    match a with
    | [key] -> [bool_s (reg_ok (Hashtbl.find Ops_interp.registries key))]
    | _ -> failwith "c06_reg_ok: arity");
  (* c06_trim <hex> -> hex   (strings.TrimSpace) *)
  register "c06_trim" (fun a ->
    match a with [s] -> [hex_of_bstr (trim_space (bstr_of_hex s))] | _ -> failwith "c06_trim: arity");
  (* c06_globals <#fuel> <input hex> { | <text hex> <node sexp... or !> }
     the table gives parse.Expr's answer for every right-hand side the real run parsed *)
  register "c06_globals" (fun a ->
    match a with
    | fuel :: input :: rest ->
        let groups = (match split_on_bar rest with [] :: g -> g | g -> g) in
        let table = Hashtbl.create 16 in
        List.iter (function
          | txt :: "!" :: _ -> Hashtbl.replace table txt None
          | txt :: sexp -> Hashtbl.replace table txt (Some (node_of (Sexp.parse (String.concat " " sexp))))
          | [] -> ()) groups;
        let parse (t : n list) : node outcome =
          match Hashtbl.find_opt table (hex_of_bstr t) with
          | Some (Some n) -> Ok n
          | Some None -> Err (bstr_of_string "parse error")
          | None -> failwith ("no parse result supplied for right-hand side " ^ hex_of_bstr t) in
        outcome_s (fun g -> [Sexp.to_string (Sexp.L (List.map (fun (k, v) -> Sexp.L [Sexp.A (sx k); value_to v]) g))])
          (parse_globals parse (nat_of_int (int_field fuel)) (bstr_of_hex input))
    | _ -> failwith "c06_globals: arity")
