(* C02: the parser model's call-name resolution (Model/Parser.v resolve_name) on a namespace, the
   aliases of a file (in declaration order) and a written name *)
open Model
open Driver

let () =
  (* resolve_name <ns hex> <aliases: key=value,key=value (hex) | -> <written hex>  ->  <full hex> *)
  register "resolve_name" (fun a ->
    match a with
    | [ns; als; written] ->
        let s0 = set_ns (cst_init []) (bstr_of_hex ns) in
        let s = if als = "-" then s0 else
          List.fold_left (fun s kv ->
            match String.split_on_char '=' kv with
            | [k; v] -> add_alias s (bstr_of_hex k) (bstr_of_hex v)
            | _ -> failwith "resolve_name: alias") s0 (String.split_on_char ',' als) in
        [hex_of_bstr (resolve_name s (bstr_of_hex written))]
    | _ -> failwith "resolve_name")
