(* C09: the access-logging JavaScript generator (derived copy of Model/JsGen.v) *)
open Model
open Driver
open Sexp
open Sexp_ast

let () =
  (* jsgen_traced <5|6> <fuel> (jsfile xName MSGS NODE...)
       ->  ok <hex text> | err <hex> | crash <hex> | diverge - | fuel - | outofmodel -,
           each followed by #<tree reads> #<own reads> #<own writes> #<shared writes> (the log of a failing run too)
     the text is that of the TRACED generator; the harness compares it with op jsgen and with soyjs.Write *)
  register "jsgen_traced" (fun a ->
    match a with
    | fmt :: fuel :: rest ->
        (match Sexp.parse (String.concat " " rest) with
         | L (A "jsfile" :: name :: msgs :: body) ->
             let o = { o_fmt = (if int_field fmt = 6 then ES6 else ES5); o_msgs = Ops_jsgen.msgs_of msgs; o_order = (fun l -> List.rev l) } in
             (let (r, t) = gen_file_traced o (nat_of_int (int_field fuel)) (xs (atom name)) (List.map node_of body) in
              let ((rd, ow), w) = jacc_count t in
              let sw = List.length (List.filter jacc_shared_write t) in
              let counts = ["#" ^ string_of_int (int_of_nat rd); "#" ^ string_of_int (int_of_nat ow);
                            "#" ^ string_of_int (int_of_nat w); "#" ^ string_of_int sw] in
              (* the log is there on every outcome: a failing generation keeps its state *)
              match r with
              | Ok cs -> ["ok"; hex_of_bstr (render_chunks is_print_tbl cs)] @ counts
              | Err m -> ["err"; hex_of_bstr m] @ counts | Crash m -> ["crash"; hex_of_bstr m] @ counts
              | Diverge -> ["diverge"; "-"] @ counts | OutOfFuel -> ["fuel"; "-"] @ counts | OutOfModel -> ["outofmodel"; "-"] @ counts)
         | _ -> failwith "jsgen_traced: bad file sexp")
    | _ -> failwith "jsgen_traced: arity")
