(* C09: the access-logging JavaScript generator (derived copy of Model/JsGen.v) *)
open Model
open Driver
open Sexp
open Sexp_ast

let () =
  (* jsgen_traced <5|6> <fuel> (jsfile xName MSGS NODE...)
       ->  ok <hex text> #<tree reads> #<own reads> #<own writes> #<shared writes> | err <hex> | ...
     the text is that of the TRACED generator; the harness compares it with op jsgen and with soyjs.Write *)
  register "jsgen_traced" (fun a ->
    match a with
    | fmt :: fuel :: rest ->
        (match Sexp.parse (String.concat " " rest) with
         | L (A "jsfile" :: name :: msgs :: body) ->
             let o = { o_fmt = (if int_field fmt = 6 then ES6 else ES5); o_msgs = Ops_jsgen.msgs_of msgs; o_order = (fun l -> List.rev l) } in
             (match gen_file_traced o (nat_of_int (int_field fuel)) (xs (atom name)) (List.map node_of body) with
              | (Ok cs, Some t) ->
                  let ((r, ow), w) = jacc_count t in
                  let sw = List.length (List.filter jacc_shared_write t) in
                  ["ok"; hex_of_bstr (render_chunks is_print_tbl cs); "#" ^ string_of_int (int_of_nat r); "#" ^ string_of_int (int_of_nat ow);
                   "#" ^ string_of_int (int_of_nat w); "#" ^ string_of_int sw]
              | (Ok _, None) -> ["notrace"]
              | (Err m, _) -> ["err"; hex_of_bstr m] | (Crash m, _) -> ["crash"; hex_of_bstr m]
              | (Diverge, _) -> ["diverge"] | (OutOfFuel, _) -> ["fuel"] | (OutOfModel, _) -> ["outofmodel"])
         | _ -> failwith "jsgen_traced: bad file sexp")
    | _ -> failwith "jsgen_traced: arity")
