open Model
open Driver
let dispatch (op : string) (_ : string list) : string list = failwith ("unknown op " ^ op)
