(* C01 operations: the expression Spec (Spec/Expr.v) on the generator's tree.
   Expression syntax (read by expr_of):
     E ::= enull | (eb 0|1) | (ei Z) | (ef FL) | (es x<hex>) | (el E...) | (em (x<hex> E)...)
         | (eg x<hex>) | (er x<hex> A...) | (eij A...) | (ec FNAME E...) | (neg E) | (not E)
         | (bin OP E E) | (elvis E E) | (tern E E E)
     A ::= (k NS x<hex>) | (i NS Z) | (x NS E)           NS ::= 0 | 1
     OP ::= mul div mod add sub lt gt le ge eq ne and or
   Values and FL as in sexp_ast.ml. *)
open Model
open Driver
open Sexp
open Sexp_ast

let bop_of = function
  | "mul" -> BMul | "div" -> BDiv | "mod" -> BMod | "add" -> BAdd | "sub" -> BSub
  | "lt" -> BLt | "gt" -> BGt | "le" -> BLe | "ge" -> BGe | "eq" -> BEq | "ne" -> BNe
  | "and" -> BAnd | "or" -> BOr
  | s -> failwith ("bad bop " ^ s)

let fn_of = function
  | "isNonnull" -> FIsNonnull | "length" -> FLength | "keys" -> FKeys | "augmentMap" -> FAugmentMap
  | "round" -> FRound | "floor" -> FFloor | "ceiling" -> FCeiling | "min" -> FMin | "max" -> FMax
  | "randomInt" -> FRandomInt | "strContains" -> FStrContains | "range" -> FRange | "hasData" -> FHasData
  | s -> failwith ("bad fn " ^ s)

let rec expr_of (t : Sexp.t) : expr =
  match t with
  | A "enull" -> ENull
  | L [A "eb"; x] -> EBool (bb x)
  | L [A "ei"; z] -> EInt (zz z)
  | L [A "ef"; f] -> EFloat (fl_of f)
  | L [A "es"; s] -> EStr (xs (atom s))
  | L (A "el" :: items) -> EList (List.map expr_of items)
  | L (A "em" :: items) -> EMap (List.map (function L [k; e] -> (xs (atom k), expr_of e) | _ -> failwith "bad em entry") items)
  | L [A "eg"; nm] -> EGlobal (xs (atom nm))
  | L (A "er" :: k :: accs) -> ERef (xs (atom k), List.map acc_of accs)
  | L (A "eij" :: accs) -> EIj (List.map acc_of accs)
  | L (A "ec" :: A f :: args) -> ECall (fn_of f, List.map expr_of args)
  | L [A "neg"; a] -> ENeg (expr_of a)
  | L [A "not"; a] -> ENot (expr_of a)
  | L [A "bin"; A op; a; c] -> EBin (bop_of op, expr_of a, expr_of c)
  | L [A "elvis"; a; c] -> EElvis (expr_of a, expr_of c)
  | L [A "tern"; c; a; d] -> ETern (expr_of c, expr_of a, expr_of d)
  | t -> failwith ("bad expr " ^ Sexp.to_string t)
and acc_of = function
  | L [A "k"; ns; k] -> AKey (bb ns, xs (atom k))
  | L [A "i"; ns; i] -> AIdx (bb ns, zz i)
  | L [A "x"; ns; e] -> AExpr (bb ns, expr_of e)
  | t -> failwith ("bad access " ^ Sexp.to_string t)

(* split the re-joined request on ';' *)
let sections (a : string list) : string list =
  List.map String.trim (String.split_on_char ';' (String.concat " " a))

let bindings (s : string) : (n list * value) list =
  match value_of (Sexp.parse s) with
  | VMap (_, m) -> m
  | VNull -> []
  | _ -> failwith "bindings must be a map"

let opt_value (s : string) : value option = if s = "none" then None else Some (value_of (Sexp.parse s))

(* positions and the quoted source of string literals erased *)
let rec erase (nd : node) : node =
  match nd with
  | NNull _ -> NNull N0
  | NBool (_, x) -> NBool (N0, x)
  | NInt (_, z) -> NInt (N0, z)
  | NFloat (_, f) -> NFloat (N0, f)
  | NString (_, _, v) -> NString (N0, [], v)
  | NGlobal (_, nm, v) -> NGlobal (N0, nm, v)
  | NFunc (_, nm, args) -> NFunc (N0, nm, List.map erase args)
  | NListLit (_, items) -> NListLit (N0, List.map erase items)
  | NMapLit (_, items) -> NMapLit (N0, List.map (fun (k, e) -> (k, erase e)) items)
  | NDataRef (_, k, accs) -> NDataRef (N0, k, List.map erase accs)
  | NAccIndex (_, ns, i) -> NAccIndex (N0, ns, i)
  | NAccKey (_, ns, k) -> NAccKey (N0, ns, k)
  | NAccExpr (_, ns, e) -> NAccExpr (N0, ns, erase e)
  | NNot (_, a) -> NNot (N0, erase a)
  | NNeg (_, a) -> NNeg (N0, erase a)
  | NBin (op, _, a, c) -> NBin (op, N0, erase a, erase c)
  | NTern (_, a, c, d) -> NTern (N0, erase a, erase c, erase d)
  | n -> n

(* the map literal of the parser has no order: compare entries sorted by key *)
let rec sort_maplits (nd : node) : node =
  match nd with
  | NFunc (p, nm, args) -> NFunc (p, nm, List.map sort_maplits args)
  | NListLit (p, items) -> NListLit (p, List.map sort_maplits items)
  | NMapLit (p, items) -> NMapLit (p, List.sort (fun (k1, _) (k2, _) -> compare (string_of_bstr k1) (string_of_bstr k2)) (List.map (fun (k, e) -> (k, sort_maplits e)) items))
  | NDataRef (p, k, accs) -> NDataRef (p, k, List.map sort_maplits accs)
  | NAccExpr (p, ns, e) -> NAccExpr (p, ns, sort_maplits e)
  | NNot (p, a) -> NNot (p, sort_maplits a)
  | NNeg (p, a) -> NNeg (p, sort_maplits a)
  | NBin (op, p, a, c) -> NBin (op, p, sort_maplits a, sort_maplits c)
  | NTern (p, a, c, d) -> NTern (p, sort_maplits a, sort_maplits c, sort_maplits d)
  | n -> n

let str_field (o : n list outcome) : string =
  match o with
  | Ok s -> "s" ^ (if s = [] then "" else hex_of_bstr s)
  | Err _ -> "undef"
  | OutOfModel -> "oom"
  | _ -> "bad"

let cls = function
  | Ok _ -> "ok" | Err _ -> "err" | Crash _ -> "crash" | Diverge -> "diverge" | OutOfFuel -> "fuel" | OutOfModel -> "outofmodel"

let () =
  (* spec_eval #<first id> <globals V> ; <env V> ; <ij V | none> ; E
       -> ok #<agree> #<next id> #<truthy> <str> #<k> <item str>*k <value sexp>
        | err #<agree> | outofmodel #2
     <agree>: 1 = the tree walker on to_node E gives the same class and value, 0 = it does not, 2 = no claim
     <str> ::= s<hex> | undef | oom ;  k = number of items when the value is a list, else -1 *)
  register "spec_eval" (fun a ->
    match a with
    | n0 :: rest ->
        (match sections rest with
         | [gs; es; ijs; xs_] ->
             let g = bindings gs and env = bindings es and ij = opt_value ijs in
             let e = expr_of (Sexp.parse xs_) in
             let n = n_of_int (int_field n0) in
             let spec = eval_spec g env ij e n in
             let impl = impl_eval g env ij (S (height e)) e n in
             let agree = (match spec, impl with
                          | OutOfModel, _ -> 2
                          | Ok (v, n1), Ok (w, n2) -> if v = w && n1 = n2 then 1 else 0
                          | Err _, Err _ -> 1
                          | _, _ -> 0) in
             (match spec with
              | Ok (v, n1) ->
                  let items = (match v with
                               | VList (_, l) -> ("#" ^ string_of_int (List.length l)) :: List.map (fun x -> str_field (value_string x)) l
                               | _ -> ["#-1"]) in
                  ["ok"; "#" ^ string_of_int agree; n_s n1; bool_s (truthy v);
                   (match v with VUndef -> "undef" | _ -> str_field (value_string v))] @ items @ [Sexp.to_string (value_to v)]
              | o -> [cls o; "#" ^ string_of_int agree])
         | _ -> failwith "spec_eval: expected 4 sections")
    | _ -> failwith "spec_eval: arity");
  (* to_node_check <globals V> ; E ; NODE -> #1 | #0 <to_node E> : the parser's tree, positions erased, is to_node E *)
  register "to_node_check" (fun a ->
    match sections a with
    | [gs; es; ns] ->
        let g = bindings gs in
        let e = expr_of (Sexp.parse es) in
        let nd = sort_maplits (erase (node_of (Sexp.parse ns))) in
        let want = sort_maplits (erase (to_node g e)) in
        if nd = want then ["#1"] else ["#0"]
    | _ -> failwith "to_node_check: expected 3 sections");
  (* wf_expr <globals V> ; E -> #0|#1 *)
  register "wf_expr" (fun a ->
    match sections a with
    | [gs; es] -> [bool_s (wf_expr (bindings gs) (expr_of (Sexp.parse es)))]
    | _ -> failwith "wf_expr: expected 2 sections");
  (* fl_string FL -> s<hex> | none : Num.fl_to_string, the model of strconv.FormatFloat(x, 'g', -1, 64) *)
  register "fl_string" (fun a ->
    match fl_to_string (fl_of (Sexp.parse (String.concat " " a))) with
    | Some s -> ["s" ^ hex_of_bstr s]
    | None -> ["none"]);
  (* fn_known x<hex> -> #1 | #0 : the Spec (Spec/Expr.v fn_of_name) has a function of that name *)
  register "fn_known" (fun a ->
    match a with
    | [nm] -> [bool_s (match fn_of_name (xs nm) with Some _ -> true | None -> false)]
    | _ -> failwith "fn_known: arity");
  (* spec_kinds #<first id> <globals V> ; <env V> ; <ij V | none> ; E
       -> one field per operator node of E (every nesting depth, also inside branches that are not taken):
          <op>:<k>          neg not
          <op>:<k1>:<k2>    the 13 binary operators and elvis
          tern:<k>          kind of the condition
          fn:<name>:<k>...  calls
     where k is the kind of the operand AS THE SPEC EVALUATES IT in this environment:
     U undefined, N null, B bool, I int, F float, S string, L list, M map, X no value, O out of model *)
  register "spec_kinds" (fun a ->
    match a with
    | n0 :: rest ->
        (match sections rest with
         | [gs; es; ijs; xs_] ->
             let g = bindings gs and env = bindings es and ij = opt_value ijs in
             let n = n_of_int (int_field n0) in
             let kind e =
               match eval_spec g env ij e n with
               | Ok (v, _) -> (match v with VUndef -> "U" | VNull -> "N" | VBool _ -> "B" | VInt _ -> "I" | VFloat _ -> "F"
                                          | VStr _ -> "S" | VList _ -> "L" | VMap _ -> "M")
               | Err _ -> "X"
               | _ -> "O" in
             let bop_s = function
               | BMul -> "mul" | BDiv -> "div" | BMod -> "mod" | BAdd -> "add" | BSub -> "sub" | BLt -> "lt" | BGt -> "gt"
               | BLe -> "le" | BGe -> "ge" | BEq -> "eq" | BNe -> "ne" | BAnd -> "and" | BOr -> "or" in
             let out = ref [] in
             let rec go e =
               (match e with
                | EList items -> List.iter go items
                | EMap items -> List.iter (fun (_, x) -> go x) items
                | ERef (_, accs) | EIj accs -> List.iter (function AExpr (_, x) -> go x | _ -> ()) accs
                | ECall (f, args) ->
                    out := ("fn:" ^ string_of_bstr (fn_name f) ^ String.concat "" (List.map (fun x -> ":" ^ kind x) args)) :: !out;
                    List.iter go args
                | ENeg x -> out := ("neg:" ^ kind x) :: !out; go x
                | ENot x -> out := ("not:" ^ kind x) :: !out; go x
                | EBin (op, x, y) -> out := (bop_s op ^ ":" ^ kind x ^ ":" ^ kind y) :: !out; go x; go y
                | EElvis (x, y) -> out := ("elvis:" ^ kind x ^ ":" ^ kind y) :: !out; go x; go y
                | ETern (c, x, y) -> out := ("tern:" ^ kind c) :: !out; go c; go x; go y
                | _ -> ()) in
             go (expr_of (Sexp.parse xs_));
             (match !out with [] -> ["-"] | l -> List.rev l)
         | _ -> failwith "spec_kinds: expected 4 sections")
    | _ -> failwith "spec_kinds: arity");
  (* fl_arith add|sub|mul|div FL ; FL -> FL | none : the IEEE 754 operations of Num.v (fl_add_r ...) *)
  register "fl_arith" (fun a ->
    match a with
    | op :: rest ->
        (match sections rest with
         | [xs_; ys_] ->
             let x = fl_of (Sexp.parse xs_) and y = fl_of (Sexp.parse ys_) in
             let r = (match op with
                      | "add" -> fl_add_r x y | "sub" -> fl_sub_r x y | "mul" -> fl_mul_r x y | "div" -> fl_div_r x y
                      | _ -> failwith "fl_arith: bad op") in
             (match r with Some f -> [Sexp.to_string (fl_to f)] | None -> ["none"])
         | _ -> failwith "fl_arith: expected FL ; FL")
    | _ -> failwith "fl_arith: arity")
