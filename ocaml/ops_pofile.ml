(* C11: the PO file's quoted fields -- strconv.Quote / Unquote, po.Message.WriteTo and the
   scanner's quoted fields (Model/PoFile.v).  strconv.IsPrint for the runes >= 0x80 of a request
   is supplied by the harness as the list of printable runes. *)
open Model
open Driver

let cls = function
  | Ok _ -> "ok" | Err _ -> "err" | Crash _ -> "crash" | Diverge -> "diverge" | OutOfFuel -> "fuel" | OutOfModel -> "outofmodel"

let rec take_n n f toks =
  if n = 0 then ([], toks) else
    let (x, toks) = f toks in
    let (r, toks) = take_n (n - 1) f toks in
    (x :: r, toks)

(* #k <#rune> x k *)
let parse_printable toks =
  match toks with
  | k :: r ->
      let (rs, r) = take_n (int_field k) (function x :: r -> (int_field x, r) | [] -> failwith "c11_po: rune missing") r in
      ((fun (x : n) -> List.mem (int_of_n x) rs), r)
  | [] -> failwith "c11_po: printable list missing"

let scan_of lines = match lines with
  | [] -> { sc_cur = []; sc_rest = []; sc_err = false }
  | l :: r -> { sc_cur = l; sc_rest = r; sc_err = false }

let () =
  (* c11_po_quote <hex s> #k <#rune>*k -> <hex of strconv.Quote(s)> <class of Unquote of it> <hex of the value> *)
  register "c11_po_quote" (fun a -> match a with
    | s :: rest ->
        let (pr, _) = parse_printable rest in
        let q = po_go_quote pr (bstr_of_hex s) in
        (match go_unquote q with
         | Ok v -> [hex_of_bstr q; "ok"; hex_of_bstr v]
         | o -> [hex_of_bstr q; cls o; "-"])
    | _ -> failwith "c11_po_quote: arity");
  (* c11_po_unquote <hex literal> -> <class> <hex value> *)
  register "c11_po_unquote" (fun a -> match a with
    | [s] -> (match go_unquote (bstr_of_hex s) with Ok v -> ["ok"; hex_of_bstr v] | o -> [cls o; "-"])
    | _ -> failwith "c11_po_unquote: arity");
  (* c11_po_fields <hex ctxt> <hex id> <hex id_plural> #k <hex str>*k #p <#rune>*p
       -> <hex bytes written> <class> <hex ctxt> <hex id> <hex id_plural> #k <hex str>*k #err *)
  register "c11_po_fields" (fun a -> match a with
    | c :: i :: ip :: k :: rest ->
        let (strs, rest) = take_n (int_field k) (function s :: r -> (bstr_of_hex s, r) | [] -> failwith "c11_po_fields: str missing") rest in
        let (pr, _) = parse_printable rest in
        let m = { pf_ctxt = bstr_of_hex c; pf_id = bstr_of_hex i; pf_id_plural = bstr_of_hex ip; pf_str = strs } in
        let bytes = join_lines (po_write_fields pr m @ [[]]) in
        let back = po_read_fields (scan_of (scan_lines [] bytes)) in
        hex_of_bstr bytes ::
        (match back with
         | Ok (f, s) ->
             ["ok"; hex_of_bstr f.pf_ctxt; hex_of_bstr f.pf_id; hex_of_bstr f.pf_id_plural; "#" ^ string_of_int (List.length f.pf_str)]
             @ List.map hex_of_bstr f.pf_str @ [bool_s s.sc_err]
         | o -> [cls o])
    | _ -> failwith "c11_po_fields: arity");
  (* c11_po_read <hex bytes of the field lines> -> <class> <hex ctxt> <hex id> <hex id_plural> #k <hex str>*k #err *)
  register "c11_po_read" (fun a -> match a with
    | [s] ->
        (match po_read_fields (scan_of (scan_lines [] (bstr_of_hex s))) with
         | Ok (f, s) ->
             ["ok"; hex_of_bstr f.pf_ctxt; hex_of_bstr f.pf_id; hex_of_bstr f.pf_id_plural; "#" ^ string_of_int (List.length f.pf_str)]
             @ List.map hex_of_bstr f.pf_str @ [bool_s s.sc_err]
         | o -> [cls o])
    | _ -> failwith "c11_po_read: arity")

(* whole entries (Model/PoEntry.v) *)
let hexs l = ("#" ^ string_of_int (List.length l)) :: List.map hex_of_bstr l

let msg_fields (m : pe_message) =
  let c = m.pm_comment and f = m.pm_fields in
  hexs c.pc_translator @ hexs c.pc_extracted @ hexs c.pc_refs @ hexs c.pc_flags
  @ [hex_of_bstr c.pc_prev_ctxt; hex_of_bstr c.pc_prev_id; hex_of_bstr c.pc_prev_id_plural;
     hex_of_bstr f.pf_ctxt; hex_of_bstr f.pf_id; hex_of_bstr f.pf_id_plural]
  @ hexs f.pf_str

let parse_resp input =
  match pe_parse input with
  | Ok ms -> "ok" :: ("#" ^ string_of_int (List.length ms)) :: List.concat_map msg_fields ms
  | o -> [cls o]

let () =
  (* c11_po_entries #n (<hex desc> #id <hex var | -> #plural <hex ctxt> <hex id> <hex id_plural> #k <hex str>*k)*n #p <#rune>*p
       -> <hex bytes of the file> then the response of c11_po_parse on them; #plural = 1: the entry has var= *)
  register "c11_po_entries" (fun a -> match a with
    | n :: rest ->
        let one toks = match toks with
          | d :: id :: v :: pl :: c :: i :: ip :: k :: r ->
              let (strs, r) = take_n (int_field k) (function s :: r -> (bstr_of_hex s, r) | [] -> failwith "c11_po_entries: str missing") r in
              let f = { pf_ctxt = bstr_of_hex c; pf_id = bstr_of_hex i; pf_id_plural = bstr_of_hex ip; pf_str = strs } in
              let pv = if int_field pl = 1 then Some (bstr_of_hex v) else None in
              (pe_extract_entry (bstr_of_hex d) (Z.to_N (big_field id)) pv f, r)
          | _ -> failwith "c11_po_entries: entry" in
        let (ms, rest) = take_n (int_field n) one rest in
        let (pr, _) = parse_printable rest in
        let bytes = pe_write_file pr ms in
        hex_of_bstr bytes :: parse_resp bytes
    | _ -> failwith "c11_po_entries: arity");
  (* c11_po_parse <hex bytes> -> class #n, per message: #k translator*k #k extracted*k #k refs*k #k flags*k
       prev_ctxt prev_id prev_id_plural ctxt id id_plural #k str*k *)
  register "c11_po_parse" (fun a -> match a with
    | [s] -> parse_resp (bstr_of_hex s)
    | _ -> failwith "c11_po_parse: arity")

(* po.Parse + pomsg.newBundle on the bytes of a catalogue (Model/PoBundle.v) *)
let po_parts_s (ps : part list) : string list =
  ("#" ^ string_of_int (List.length ps))
  :: List.concat_map (function PText t -> ["T"; hex_of_bstr t] | PPh n -> ["P"; hex_of_bstr n]) ps

let () =
  (* c11_po_load <hex bytes> #k <#id>*k -> class, then per id: none | S <parts> | L <hex var> #n <parts>*n *)
  register "c11_po_load" (fun a -> match a with
    | s :: k :: rest ->
        let (ids, _) = take_n (int_field k) (function x :: r -> (Z.to_N (big_field x), r) | [] -> failwith "c11_po_load: id missing") rest in
        (match pb_load (bstr_of_hex s) with
         | Ok bd ->
             "ok" :: List.concat_map (fun id ->
               match bundle_message bd id with
               | None -> ["none"]
               | Some (CSimple ps) -> "S" :: po_parts_s ps
               | Some (CPlural (v, cases)) -> "L" :: hex_of_bstr v :: ("#" ^ string_of_int (List.length cases)) :: List.concat_map po_parts_s cases) ids
         | o -> [cls o])
    | _ -> failwith "c11_po_load: arity")
