(* C11: the PO file's quoted fields -- strconv.Quote / Unquote, po.Message.WriteTo and the
   scanner's quoted fields (Model/PoFile.v).  strconv.IsPrint for the runes >= 0x80 of a request
   is supplied by the harness as the list of printable runes. *)
open Model
open Driver

let cls = function
  | Ok _ -> "ok" | Err _ -> "err" | Crash _ -> "crash" | Diverge -> "diverge" | OutOfFuel -> "fuel" | OutOfModel -> "outofmodel"

let rec take_n n f toks =
  if n = 0 then ([], toks) else
    let (x, toks) = f toks in
    let (r, toks) = take_n (n - 1) f toks in
    (x :: r, toks)

(* #k <#rune> x k *)
let parse_printable toks =
  match toks with
  | k :: r ->
      let (rs, r) = take_n (int_field k) (function x :: r -> (int_field x, r) | [] -> failwith "c11_po: rune missing") r in
      ((fun (x : n) -> List.mem (int_of_n x) rs), r)
  | [] -> failwith "c11_po: printable list missing"

let scan_of lines = match lines with
  | [] -> { sc_cur = []; sc_rest = []; sc_err = false }
  | l :: r -> { sc_cur = l; sc_rest = r; sc_err = false }

let () =
  (* c11_po_quote <hex s> #k <#rune>*k -> <hex of strconv.Quote(s)> <class of Unquote of it> <hex of the value> *)
  register "c11_po_quote" (fun a -> match a with
    | s :: rest ->
        let (pr, _) = parse_printable rest in
        let q = po_go_quote pr (bstr_of_hex s) in
        (match go_unquote q with
         | Ok v -> [hex_of_bstr q; "ok"; hex_of_bstr v]
         | o -> [hex_of_bstr q; cls o; "-"])
    | _ -> failwith "c11_po_quote: arity");
  (* c11_po_unquote <hex literal> -> <class> <hex value> *)
  register "c11_po_unquote" (fun a -> match a with
    | [s] -> (match go_unquote (bstr_of_hex s) with Ok v -> ["ok"; hex_of_bstr v] | o -> [cls o; "-"])
    | _ -> failwith "c11_po_unquote: arity");
  (* c11_po_fields <hex ctxt> <hex id> <hex id_plural> #k <hex str>*k #p <#rune>*p
       -> <hex bytes written> <class> <hex ctxt> <hex id> <hex id_plural> #k <hex str>*k #err *)
  register "c11_po_fields" (fun a -> match a with
    | c :: i :: ip :: k :: rest ->
        let (strs, rest) = take_n (int_field k) (function s :: r -> (bstr_of_hex s, r) | [] -> failwith "c11_po_fields: str missing") rest in
        let (pr, _) = parse_printable rest in
        let m = { pf_ctxt = bstr_of_hex c; pf_id = bstr_of_hex i; pf_id_plural = bstr_of_hex ip; pf_str = strs } in
        let bytes = join_lines (po_write_fields pr m @ [[]]) in
        let back = po_read_fields (scan_of (scan_lines [] bytes)) in
        hex_of_bstr bytes ::
        (match back with
         | Ok (f, s) ->
             ["ok"; hex_of_bstr f.pf_ctxt; hex_of_bstr f.pf_id; hex_of_bstr f.pf_id_plural; "#" ^ string_of_int (List.length f.pf_str)]
             @ List.map hex_of_bstr f.pf_str @ [bool_s s.sc_err]
         | o -> [cls o])
    | _ -> failwith "c11_po_fields: arity");
  (* c11_po_read <hex bytes of the field lines> -> <class> <hex ctxt> <hex id> <hex id_plural> #k <hex str>*k #err *)
  register "c11_po_read" (fun a -> match a with
    | [s] ->
        (match po_read_fields (scan_of (scan_lines [] (bstr_of_hex s))) with
         | Ok (f, s) ->
             ["ok"; hex_of_bstr f.pf_ctxt; hex_of_bstr f.pf_id; hex_of_bstr f.pf_id_plural; "#" ^ string_of_int (List.length f.pf_str)]
             @ List.map hex_of_bstr f.pf_str @ [bool_s s.sc_err]
         | o -> [cls o])
    | _ -> failwith "c11_po_read: arity")
