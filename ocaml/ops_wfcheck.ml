(* C07: the data-reference checker model (Model/Checker.v) and the Spec (Spec/Wf.v) *)
open Model
open Driver
open Sexp
open Sexp_ast

let rej_s = function
  | RUnbound -> "unbound" | RUnusedLet -> "unused-let" | RLetIj -> "let-ij" | RHeaderParam -> "header-param"
  | RNoTemplate -> "no-template" | RUndeclaredParam -> "undeclared-param" | RMissingParam -> "missing-param"
  | RBadCallParam -> "bad-call-param" | RLoopFunc -> "loop-func" | RUnusedParam -> "unused-param"
  | RBothParamKinds -> "both-param-kinds" | RDuplicateTemplate -> "duplicate-template" | RNoNamespace -> "no-namespace" | RShape -> "shape"

(* (files (file xName xText NODE...) ...) *)
let files_of = function
  | L (A "files" :: fs) ->
      List.map (function
        | L (A "file" :: nm :: tx :: body) -> { sf_name = xs (atom nm); sf_text = xs (atom tx); sf_body = List.map node_of body }
        | _ -> failwith "bad file") fs
  | _ -> failwith "bad files"

let () =
  (* c07_compile <files sexp> -> verdict wf shaped total
     verdict: "accept" | "reject:<class>"; wf = Spec.wf_bundle; shaped = files_shaped;
     total = registry_shaped && calls_total of the registry when Add succeeds, else #0 *)
  register "c07_compile" (fun a ->
    let fs = files_of (Sexp.parse (String.concat " " a)) in
    let v = (match compile_check fs with Accept -> "accept" | Reject r -> "reject:" ^ rej_s r) in
    let (shp, tot) = (match add_files [] fs with
                      | AddOk ts -> let reg = Model.registry_of ts fs in (registry_shaped reg, calls_total reg)
                      | AddRej _ -> (false, false)) in
    [v; bool_s (wf_bundle fs); bool_s (files_shaped fs); bool_s shp; bool_s tot]);
  (* c07_registry <key> : the same judgments on a registry loaded with load_registry (the compiled one) *)
  register "c07_registry" (fun a ->
    match a with
    | [key] ->
        let reg = Hashtbl.find Ops_interp.registries key in
        [(match check_registry reg with Accept -> "accept" | Reject r -> "reject:" ^ rej_s r);
         bool_s (wf_registry reg); bool_s (registry_shaped reg); bool_s (calls_total reg)]
    | _ -> failwith "c07_registry")
