(* C07: the data-reference checker model (Model/Checker.v) and the Spec (Spec/Wf.v) *)
open Model
open Driver
open Sexp
open Sexp_ast

let rej_s = function
  | RUnbound -> "unbound" | RUnusedLet -> "unused-let" | RLetIj -> "let-ij" | RHeaderParam -> "header-param"
  | RNoTemplate -> "no-template" | RUndeclaredParam -> "undeclared-param" | RMissingParam -> "missing-param"
  | RBadCallParam -> "bad-call-param" | RLoopFunc -> "loop-func" | RUnusedParam -> "unused-param"
  | RBothParamKinds -> "both-param-kinds" | RDuplicateTemplate -> "duplicate-template" | RNoNamespace -> "no-namespace" | RShape -> "shape"

(* (files (file xName xText NODE...) ...) *)
let files_of = function
  | L (A "files" :: fs) ->
      List.map (function
        | L (A "file" :: nm :: tx :: body) -> { sf_name = xs (atom nm); sf_text = xs (atom tx); sf_body = List.map node_of body }
        | _ -> failwith "bad file") fs
  | _ -> failwith "bad files"

let () =
  (* c07_compile <files sexp> -> verdict wf shaped total
     verdict: "accept" | "reject:<class>"; wf = Spec.wf_bundle; shaped = files_shaped;
     total = registry_shaped && calls_total of the registry when Add succeeds, else #0 *)
  register "c07_compile" (fun a ->
    let fs = files_of (Sexp.parse (String.concat " " a)) in
    let v = (match compile_check fs with Accept -> "accept" | Reject r -> "reject:" ^ rej_s r) in
    let vs = function Accept -> "accept" | Reject r -> "reject:" ^ rej_s r in
    let (shp, tot, c13, srt) = (match add_files [] fs with
                      | AddOk ts -> let reg = Model.registry_of ts fs in
                                    (registry_shaped reg, calls_total reg, vs (compile_check_c13 (fun ks -> ks) fs), bool_s (registry_maps_sorted reg))
                      | AddRej _ -> (false, false, vs (compile_check_c13 (fun ks -> ks) fs), "#1")) in
    (* c13: the verdict of the second model of Registry.Add + CheckDataRefs (Model/Compile.v) on the same files; srt: the
       hypothesis of the theorem that ties the two models (map literals listed by increasing key) *)
    [v; bool_s (wf_bundle fs); bool_s (files_shaped fs); bool_s shp; bool_s tot; c13; srt]);
  (* c07_registry <key> : the same judgments on a registry loaded with load_registry (the compiled one) *)
  register "c07_registry" (fun a ->
    match a with
    | [key] ->
        let reg = Hashtbl.find Ops_interp.registries key in
        let v = function Accept -> "accept" | Reject r -> "reject:" ^ rej_s r in
        [v (check_registry reg);
         bool_s (wf_registry reg); bool_s (registry_shaped reg); bool_s (calls_total reg);
         (* the second model of CheckDataRefs (Model/Compile.v, C13) and the hypothesis of the tie theorem *)
         v (check_registry_c13 reg); bool_s (registry_maps_sorted reg)]
    | _ -> failwith "c07_registry");
  (* render_xc <key> <xTemplate> <fuel> <ij sexp | none> ; <data sexp> -> outcome class, refined unbound counter
     (misses of declared params of the executing template are not counted), writes *)
  register "render_xc" (fun a ->
    match a with
    | key :: tname :: fuel :: rest ->
        let reg = Hashtbl.find Ops_interp.registries key in
        let s = String.concat " " rest in
        let (ijs, ds) = (match String.index_opt s ';' with
                         | Some i -> (String.trim (String.sub s 0 i), String.trim (String.sub s (i + 1) (String.length s - i - 1)))
                         | None -> failwith "render_xc: missing ;") in
        let ij = if ijs = "none" then None else Some (value_of (Sexp.parse ijs)) in
        let (did, dm) = (match value_of (Sexp.parse ds) with
                         | VMap (id, m) -> (id, m)
                         | VNull -> (N0, [])
                         | _ -> failwith "render_xc: data must be a map") in
        let cf = { c_reg = reg; c_ij = ij; c_oblig = []; c_msgs = None } in
        let r = render_xc cf (nat_of_int (int_field fuel)) (xs tname) did dm None None (n_of_int 1000000) in
        let cls = (match r.rr_outcome with
                   | Ok _ -> "ok" | Err _ -> "err" | Crash _ -> "crash"
                   | Diverge -> "diverge" | OutOfFuel -> "fuel" | OutOfModel -> "outofmodel") in
        [cls; "#" ^ string_of_int (int_of_nat r.rr_unbound)] @ List.map hex_of_bstr r.rr_writes
    | _ -> failwith "render_xc")
