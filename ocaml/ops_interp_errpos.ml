open Model
open Driver
open Sexp_ast

(* C19: the decidable hypothesis of the render theorems, evaluated by the extracted Spec function *)
let () =
  (* positions_ok <key> <xTemplate> : every node position of the template lies inside the source recorded for it *)
  register "positions_ok" (fun a ->
    match a with
    | [key; tname] ->
        let reg = Hashtbl.find Ops_interp.registries key in
        let name = xs tname in
        (match find_template reg.r_templates name, assoc_s name reg.r_sources with
         | Some t, Some src -> [bool_s (positions_in_sourceb src t.t_node); n_s (lines src)]
         | _, _ -> ["#0"; "#0"])
    | _ -> failwith "positions_ok");
  (* line_at <hex source> <pos> *)
  register "line_at" (fun a ->
    match a with
    | [src; pos] -> [n_s (line_at (bstr_of_hex src) (n_of_int (int_field pos)))]
    | _ -> failwith "line_at")

(* C19: the prefix of a parse error's text, computed by the extracted Spec/ErrText.v from the format literal tablegen re-reads *)
let () =
  register "errprefix" (fun a ->
    match a with
    | [name; line; col] ->
        (match error_prefix (bstr_of_hex name) (n_of_int (int_field line)) (n_of_int (int_field col)) with
         | Some p -> [hex_of_bstr p]
         | None -> ["!none"])
    | _ -> failwith "errprefix")
