(* command-level parser model (Model/Parser.v)

   parse_file #inlen #ntoks <tok>*ntoks #nq (<hex str> #k <tok>*k)*nq #nu (<hex str> <S|N> <hex>)*nu
       tok = #typ #pos <hex val>;  the q-table gives, per attribute string, the items the real scanner
       produces for it in expression mode (lexq); the u-table gives strconv.Unquote of string items (unq).
   parse_expr_entry #pinned #inlen <tok>*
   parse_bytes #expr <hex text> #nu (<hex str> <S|N> <hex>)*nu
       the composed functions of Model/ParseBytes.v: the scanner MODEL produces the items (and the items of
       every quoted attribute expression); only strconv.Unquote comes from the table.  Answer as above,
       or  lexfail <outcome>  when the scanner model does not return an item list.
   answer:  ok   #recv <scans> <sexp of the tree>
            err  #recv <scans> #typ #pos <hex class> #quoted
            crash <hex msg> | fuel
       scans = sent:recv:drained:done,...   (the entry point's own scanner first)
   parse_float_round <hex>  ->  val <fl> | range | syntax      (NumLit.parse_float_round, tied to strconv.ParseFloat)
   trim_space <hex> / all_space <hex> / msg_raw_text #pos <hex>  : helpers, for byte-level ties *)
open Model
open Driver
open Sexp
open Sexp_ast

let b01 x = A (if x then "1" else "0")
let opt f = function None -> A "none" | Some x -> L [A "some"; f x]

let rec pnode_to (n : node) : Sexp.t =
  let p x = A (string_of_n x) in
  let l = List.map pnode_to in
  match n with
  | NList (q, ns) -> L (A "list" :: p q :: l ns)
  | NRawText (q, t) -> L [A "raw"; p q; A (sx t)]
  | NPrint (q, a, ds) -> L (A "print" :: p q :: pnode_to a :: l ds)
  | NDirective (q, nm, args) -> L (A "dir" :: p q :: A (sx nm) :: l args)
  | NCss (q, e, sfx) -> L [A "css"; p q; opt pnode_to e; A (sx sfx)]
  | NLog (q, b) -> L [A "log"; p q; pnode_to b]
  | NDebugger q -> L [A "debugger"; p q]
  | NIf (q, cs) -> L (A "if" :: p q :: l cs)
  | NIfCond (q, c, b) -> L [A "ifcond"; p q; opt pnode_to c; pnode_to b]
  | NFor (q, v, lst, b, ie) -> L [A "for"; p q; A (sx v); pnode_to lst; pnode_to b; opt pnode_to ie]
  | NSwitch (q, v, cs) -> L (A "switch" :: p q :: pnode_to v :: l cs)
  | NSwitchCase (q, vs, b) -> L [A "case"; p q; L (l vs); pnode_to b]
  | NCall (q, nm, ad, d, ps) -> L (A "call" :: p q :: A (sx nm) :: b01 ad :: opt pnode_to d :: l ps)
  | NParamValue (q, k, v) -> L [A "pval"; p q; A (sx k); pnode_to v]
  | NParamContent (q, k, c) -> L [A "pcontent"; p q; A (sx k); pnode_to c]
  | NLetValue (q, nm, e) -> L [A "letv"; p q; A (sx nm); pnode_to e]
  | NLetContent (q, nm, b) -> L [A "letc"; p q; A (sx nm); pnode_to b]
  | NMsg (q, id, mn, ds, b) -> L [A "msg"; p q; A (string_of_n id); A (sx mn); A (sx ds); L (l b)]
  | NMsgPlaceholder (q, nm, b) -> L [A "ph"; p q; A (sx nm); pnode_to b]
  | NMsgHtmlTag (q, t) -> L [A "tag"; p q; A (sx t)]
  | NMsgPlural (q, vn, v, cs, df) -> L [A "plural"; p q; A (sx vn); pnode_to v; L (l cs); L (l df)]
  | NMsgPluralCase (q, v, b) -> L [A "pcase"; p q; A (string_of_z v); L (l b)]
  | NTemplate (q, nm, b, ae, pr) -> L [A "template"; p q; A (sx nm); pnode_to b; A (string_of_n ae); b01 pr]
  | NNamespace (q, nm, ae) -> L [A "namespace"; p q; A (sx nm); A (string_of_n ae)]
  | NSoyDoc (q, ps) -> L (A "soydoc" :: p q :: l ps)
  | NSoyDocParam (q, nm, o) -> L [A "sdparam"; p q; A (sx nm); b01 o]
  | NHeaderParam (q, o, nm, ty, d) -> L [A "hparam"; p q; b01 o; A (sx nm); A (sx ty); opt pnode_to d]
  | NLiteral (q, b) -> L [A "literal"; p q; A (sx b)]
  | NIdent (q, i) -> L [A "ident"; p q; A (sx i)]
  | NOther (q, w) -> L [A "other"; p q; A (sx w)]
  (* expression nodes: children may not contain command nodes *)
  | NFunc (q, nm, args) -> L (A "func" :: p q :: A (sx nm) :: l args)
  | NListLit (q, items) -> L (A "listlit" :: p q :: l items)
  | NMapLit (q, items) ->
      let items = List.sort (fun (k1, _) (k2, _) -> compare (sx k1) (sx k2)) items in
      L (A "maplit" :: p q :: List.map (fun (k, v) -> L [A (sx k); pnode_to v]) items)
  | NDataRef (q, k, acc) -> L (A "ref" :: p q :: A (sx k) :: l acc)
  | NAccExpr (q, ns, e) -> L [A "exp"; p q; b01 ns; pnode_to e]
  | NNot (q, a) -> L [A "not"; p q; pnode_to a]
  | NNeg (q, a) -> L [A "neg"; p q; pnode_to a]
  | NBin (op, q, a, c) -> L [A "bin"; A (Ops_exprparser.binop_name op); p q; pnode_to a; pnode_to c]
  | NTern (q, a, c, d) -> L [A "tern"; p q; pnode_to a; pnode_to c; pnode_to d]
  | _ -> Ops_exprparser.node_to n

let tok_of ty po v = { t_typ = n_of_int (int_field ty); t_pos = n_of_int (int_field po); t_val = bstr_of_hex v }

(* take k tokens from a field list *)
let rec take_toks k fs acc =
  if k = 0 then (List.rev acc, fs)
  else match fs with
    | ty :: po :: v :: rest -> take_toks (k - 1) rest (tok_of ty po v :: acc)
    | _ -> failwith "tokens: truncated"

let scans_s (l : scanrec list) : string =
  if l = [] then "-" else
  String.concat "," (List.map (fun r ->
    Printf.sprintf "%d:%d:%d:%d" (int_of_nat r.sc_sent) (int_of_nat r.sc_recv) (if r.sc_drained then 1 else 0)
      (if scan_done r then 1 else 0)) l)

let e_quoted = bstr_of_string "quoted:"
let rec is_pre p s = match p, s with [] , _ -> true | a :: p', c :: s' -> a = c && is_pre p' s' | _ -> false

let out_s (o : parse_out) : string list =
  match o.po_result with
  | POk (n, st) ->
      let body = (match n with NList (_, ns) -> L (A "file" :: List.map pnode_to ns) | _ -> pnode_to n) in
      ["ok"; "#" ^ string_of_int (int_of_nat st.p_recv); scans_s o.po_scans; Sexp.to_string body]
  | PErr (t, c, st) ->
      ["err"; "#" ^ string_of_int (int_of_nat st.p_recv); scans_s o.po_scans; n_s t.t_typ; n_s t.t_pos; hex_of_bstr c;
       bool_s (is_pre e_quoted c)]
  | PCrash m -> ["crash"; hex_of_bstr m]
  | PFuel -> ["fuel"]

let () =
  register "parse_file" (fun a ->
    match a with
    | inlen :: ntoks :: rest ->
        let (ts, rest) = take_toks (int_field ntoks) rest [] in
        let qtbl : (n list, tok list) Hashtbl.t = Hashtbl.create 16 in
        let utbl : (n list, n list option) Hashtbl.t = Hashtbl.create 16 in
        let rest = (match rest with
          | nq :: rest ->
              let r = ref rest in
              for _ = 1 to int_field nq do
                (match !r with
                 | s :: k :: rest' ->
                     let (qs, rest'') = take_toks (int_field k) rest' [] in
                     Hashtbl.replace qtbl (bstr_of_hex s) qs; r := rest''
                 | _ -> failwith "parse_file: q-table truncated")
              done; !r
          | [] -> failwith "parse_file: no q-table") in
        (match rest with
         | nu :: rest ->
             let r = ref rest in
             for _ = 1 to int_field nu do
               (match !r with
                | s :: "S" :: v :: rest' -> Hashtbl.replace utbl (bstr_of_hex s) (Some (bstr_of_hex v)); r := rest'
                | s :: "N" :: _ :: rest' -> Hashtbl.replace utbl (bstr_of_hex s) None; r := rest'
                | _ -> failwith "parse_file: u-table truncated")
             done
         | [] -> failwith "parse_file: no u-table");
        let lexq s = (try Hashtbl.find qtbl s with Not_found -> failwith ("lexq: no entry for " ^ hex_of_bstr s)) in
        let unq s = (try Hashtbl.find utbl s with Not_found -> failwith ("unq: no entry for " ^ hex_of_bstr s)) in
        out_s (soy_file (n_of_int (int_field inlen)) lexq unq ts)
    | _ -> failwith "parse_file: arity");
  register "parse_expr_entry" (fun a ->
    match a with
    | pinned :: inlen :: toks ->
        let ts = Ops_exprparser.toks_of toks in
        let il = n_of_int (int_field inlen) in
        out_s (if int_field pinned <> 0 then soy_expr_pinned il ts else soy_expr il ts)
    | _ -> failwith "parse_expr_entry: arity");
  register "parse_bytes" (fun a ->
    match a with
    | expr :: text :: nu :: rest ->
        let utbl : (n list, n list option) Hashtbl.t = Hashtbl.create 16 in
        let r = ref rest in
        for _ = 1 to int_field nu do
          (match !r with
           | s :: "S" :: v :: rest' -> Hashtbl.replace utbl (bstr_of_hex s) (Some (bstr_of_hex v)); r := rest'
           | s :: "N" :: _ :: rest' -> Hashtbl.replace utbl (bstr_of_hex s) None; r := rest'
           | _ -> failwith "parse_bytes: u-table truncated")
        done;
        let unq s = (try Hashtbl.find utbl s with Not_found -> failwith ("unq: no entry for " ^ hex_of_bstr s)) in
        let s = bstr_of_hex text in
        (match (if int_field expr <> 0 then soy_expr_bytes_tbl s else soy_file_bytes_tbl unq s) with
         | Ok o -> out_s o
         | Err _ -> ["lexfail"; "err"] | Crash _ -> ["lexfail"; "crash"] | Diverge -> ["lexfail"; "diverge"]
         | OutOfFuel -> ["lexfail"; "fuel"] | OutOfModel -> ["lexfail"; "oom"])
    | _ -> failwith "parse_bytes: arity");
  register "parse_float_round" (fun a ->
    match a with
    | [s] -> (match parse_float_round (bstr_of_hex s) with
              | FRVal f -> ["val"; Sexp.to_string (fl_to f)]
              | FRRange -> ["range"] | FRSyntax -> ["syntax"])
    | _ -> failwith "parse_float_round: arity");
  register "trim_space" (fun a -> match a with [s] -> [hex_of_bstr (trim_space (bstr_of_hex s))] | _ -> failwith "trim_space");
  register "all_space" (fun a -> match a with [s] -> [bool_s (all_space (bstr_of_hex s))] | _ -> failwith "all_space");
  register "msg_raw_text" (fun a ->
    match a with
    | [p; s] -> [Sexp.to_string (L (List.map pnode_to (msg_raw_text (n_of_int (int_field p)) (bstr_of_hex s))))]
    | _ -> failwith "msg_raw_text")
