(* C13: the compile pipeline (Model/Compile.v).

   c13 <variant> <sexp>
     variant #0: every key-order oracle is the identity, #1: every oracle reverses
             (both run the model of the REPAIRED tree: the code sorts where the repairs sort)
             #2 / #3: the same two oracles on the model of the PINNED tree
             +4: without the JavaScript of the files (#nF = 0)
     sexp = (bundle (globals (gm (xName VALUE)...)...) (files FILE...))
     FILE = (file xName xText (ok NODE...) (strs (NODE xString)...)) | (file xName xText (err xMsg))
     strs: String() of every placeholder / plural node of the file
   response, accepted:
     ok #nT (xName xFile #pos)*nT  #nM (xTemplate #k (#id #n xName*n)*k)*nM  #nF (xFile ok xBlock | xFile err xKind)*nF
   response, rejected:
     err xClass xField...                                                                  *)
open Model
open Driver
open Sexp
open Sexp_ast

let hx s = hex_of_bstr s
let str s = hx (bstr_of_string s)
let names l = hx (List.concat (List.mapi (fun i x -> if i = 0 then x else bstr_of_string "," @ x) l))

let add_err_fields file = function
  | AENamespaceExpected _ -> [str "add:namespace-expected"; hx file]
  | AENamespaceRequired -> [str "add:namespace-required"; hx file]
  | AEBothParamKinds t -> [str "add:both-params"; hx file; hx t]
  | AEDuplicate (t, f1, f2) -> [str "add:duplicate"; hx file; hx t; hx f1; hx f2]
  | AEIndexCrash -> [str "add:crash"; hx file]
  | AEOutOfModel t -> [str "add:outofmodel"; hx file; hx t]

let check_err_fields tmpl = function
  | CKLetIj -> [str "check:let-ij"; hx tmpl]
  | CKCallNotFound n -> [str "check:call-not-found"; hx tmpl; hx n]
  | CKUndeclaredParams l -> [str "check:undeclared-params"; hx tmpl; names l]
  | CKMissingParams (l, p) -> [str "check:missing-params"; hx tmpl; names l; n_s p]
  | CKUnusedLets l -> [str "check:unused-lets"; hx tmpl; names l]
  | CKDataRefNotFound (k, sc) -> [str "check:dataref"; hx tmpl; hx k; names sc]
  | CKHeaderParam -> [str "check:header-param"; hx tmpl]
  | CKUnusedParams l -> [str "check:unused-params"; hx tmpl; names l]
  | CKBadCallParam -> [str "check:bad-call-param"; hx tmpl]
  | CKLoopFunc (f, k) -> [str "check:loop-func"; hx tmpl; hx f; hx k]
  | CKLoopFuncArity (f, n) -> [str "check:loop-func-arity"; hx tmpl; hx f; n_s n]
  | CKLoopFuncArg f -> [str "check:loop-func-arg"; hx tmpl; hx f]
  | CKOutOfFuel -> [str "check:fuel"; hx tmpl]

let cerr_fields = function
  | EGlobalsRedefined (n, v) -> [str "globals-redefined"; hx n; (match value_string v with Ok s -> hx s | _ -> "-")]
  | EParse (f, m) -> [str "parse"; hx f; hx m]
  | EAdd (f, e) -> add_err_fields f e
  | ECheck (t, e) -> check_err_fields t e
  | EGlobalErr (t, GUndefined n) -> [str "global:undefined"; hx t; hx n]
  | EGlobalErr (t, GOutOfFuel) -> [str "global:fuel"; hx t]

let rec dedup = function
  | [] -> []
  | x :: r -> x :: dedup (List.filter (fun y -> y <> x) r)

let rec npart_names = function
  | NmText _ -> []
  | NmPh n -> [n]
  | NmPlural (n, cases, d) -> n :: List.concat_map (fun (_, b) -> List.concat_map npart_names b) cases @ List.concat_map npart_names d

let parse_bundle (t : Sexp.t) =
  match t with
  | L [A "bundle"; L (A "globals" :: gms); L (A "files" :: files)] ->
      let gm = function
        | L (A "gm" :: items) -> List.map (function L [k; v] -> (xs (atom k), value_of v) | _ -> failwith "c13: bad global") items
        | _ -> failwith "c13: bad globals map" in
      let strs : (node, n list) Hashtbl.t = Hashtbl.create 64 in
      let file = function
        | L [A "file"; nm; tx; L (A "ok" :: nodes); L (A "strs" :: ss)] ->
            List.iter (function L [nd; s] -> Hashtbl.replace strs (node_of nd) (xs (atom s)) | _ -> failwith "c13: bad strs") ss;
            SrcOk { sfile_name = xs (atom nm); sfile_text = xs (atom tx); sfile_body = List.map node_of nodes }
        | L [A "file"; nm; _; L [A "err"; m]] -> SrcParseErr (xs (atom nm), xs (atom m))
        | _ -> failwith "c13: bad file" in
      let srcs = List.map file files in
      (List.map gm gms, srcs, (fun (n : node) -> match Hashtbl.find_opt strs n with Some s -> s | None -> []))
  | _ -> failwith "c13: bad bundle"

let () =
  register "c13" (fun a ->
    match a with
    | variant :: rest ->
        let (gms, srcs, node_string) = parse_bundle (Sexp.parse (String.concat " " rest)) in
        let v = int_field variant in
        let with_js = v land 4 = 0 in
        let v = v land 3 in
        let ord = if v land 1 = 0 then (fun l -> l) else List.rev in
        let o = { o_globals = ord; o_children = ord; o_ph = ord; o_imports = ord } in
        let eff = if v < 2 then repaired_orders o else pinned_orders o in
        (match compile_gen node_string eff gms srcs with
         | CErr e -> "err" :: cerr_fields e
         | COk c ->
             let ts = c.cp_reg.r_templates in
             let tnames = dedup (List.map (fun t -> t.t_name) ts) in
             let lookups = List.concat_map (fun nm ->
                 match find_template ts nm with
                 | Some t -> [hx nm; hx t.t_file; n_s (pos_of t.t_node)]
                 | None -> [hx nm; "-"; "#0"]) tnames in
             let msgs = List.concat_map (fun (nm, l) ->
                 [hx nm; "#" ^ string_of_int (List.length l)]
                 @ List.concat_map (function
                     | Ok (id, named) ->
                         let ns = List.concat_map npart_names named in
                         [n_s id; "#" ^ string_of_int (List.length ns)] @ List.map hx ns
                     | _ -> ["#0"; "#0"]) l) c.cp_msgs in
             let files = List.concat_map (fun f -> if not with_js then [] else
                 let jo = { o_fmt = ES6; o_msgs = None; o_order = ord } in
                 match gen_file jo (nat_of_int 100000) f.sfile_name f.sfile_body with
                 | Ok cs -> [hx f.sfile_name; "ok"; hx (render_chunks is_print_tbl cs)]
                 | Err _ -> [hx f.sfile_name; "err"; "-"]
                 | Crash _ -> [hx f.sfile_name; "crash"; "-"]
                 | OutOfModel -> [hx f.sfile_name; "outofmodel"; "-"]
                 | _ -> [hx f.sfile_name; "fuel"; "-"]) c.cp_soyfiles in
             ["ok"; "#" ^ string_of_int (List.length tnames)] @ lookups
             @ ["#" ^ string_of_int (List.length c.cp_msgs)] @ msgs
             @ ["#" ^ string_of_int (if with_js then List.length c.cp_soyfiles else 0)] @ files)
    | _ -> failwith "c13: arity")
